/* vf_rt.c -- runtime state, nondeterminism, ghost happens-before clocks, native driver */
#include "vf_rt.h"

uint8_t vf_fatal_assume = 0;
uint8_t vf_dead = 0, vf_stepping = 0;
uint32_t vf_cur = 0;
uint8_t vf_probe_mode = 0;
uint16_t vf_pc[VF_MAXT];
uint8_t vf_done[VF_MAXT], vf_enabled[VF_MAXT], vf_blocked[VF_MAXT], vf_pausecnt[VF_MAXT], vf_probe_retry[VF_MAXT];
uint8_t vf_unwinding = 0;
uint32_t vf_jmpval = 0;

uint32_t vf_cv_snap[VF_MAXT];
#ifdef VF_CV_SPURIOUS
/* unit option spurious=N: up to N times per execution a waiting thread returns from condition_variable::wait without a
 * notification (the standard allows it); no happens-before edge.  The deadlock probe still counts the waiter as blocked. */
uint8_t vf_cv_spurious_left = VF_CV_SPURIOUS;
#endif
void vf_cv_wait_block(char* cv, char* lk) {
  if (*(uint32_t*)cv == vf_cv_snap[vf_cur]) {
#ifdef VF_CV_SPURIOUS
    if (!vf_probe_mode && vf_cv_spurious_left && (vf_nondet_u8() & 1)) { --vf_cv_spurious_left; return; }
#endif
    VF_BLOCK(); return; }
  vf_hb_edge_in(cv);
}
void vf_cv_wait_relock(char* cv, char* lk) { (void)x_pthread_mutex_lock(*(char**)lk); }
void vf_set_fatal_assume(uint32_t v) { vf_fatal_assume = (uint8_t)v; }
void vf_yield(void) {}
void vf_reach(void) { VF_REACH(); }

#ifdef __CPROVER__
uint64_t nondet_u64(void);
uint64_t vf_nondet_u64(void) { uint64_t vf_nd = nondet_u64(); return vf_nd; }
uint32_t vf_nondet_u32(void) { uint64_t vf_nd = nondet_u64(); return (uint32_t)vf_nd; }
uint16_t vf_nondet_u16(void) { uint64_t vf_nd = nondet_u64(); return (uint16_t)vf_nd; }
uint8_t vf_nondet_u8(void) { uint64_t vf_nd = nondet_u64(); return (uint8_t)vf_nd; }
uint8_t vf_nondet_bool(void) { uint64_t vf_nd = nondet_u64(); return (uint8_t)(vf_nd & 1); }
uint32_t vf_sched_choice(uint32_t n) { uint64_t vf_nd = nondet_u64(); return (uint32_t)vf_nd; }
#endif

/* ------------------------------------------------------------------ happens-before clocks */
#ifndef VF_MAXLOC
#define VF_MAXLOC 8
#endif
#ifndef VF_MAXPAY
#define VF_MAXPAY 4
#endif
typedef uint16_t vf_clk;
static vf_clk vf_vc[VF_MAXT][VF_MAXT];       /* thread clocks */
static vf_clk vf_pend[VF_MAXT][VF_MAXT];     /* clocks read by relaxed loads, published by an acquire fence */
static vf_clk vf_frel[VF_MAXT][VF_MAXT];     /* clock at the last release fence */
static char* vf_loc_addr[VF_MAXLOC];
static vf_clk vf_loc_vc[VF_MAXLOC][VF_MAXT];
static uint32_t vf_loc_n;
static char* vf_pay_addr[VF_MAXPAY];
static vf_clk vf_pay_w_clk[VF_MAXPAY];
static uint8_t vf_pay_w_tid[VF_MAXPAY];
static uint8_t vf_pay_w_valid[VF_MAXPAY];
static vf_clk vf_pay_r_clk[VF_MAXPAY][VF_MAXT];
static uint32_t vf_pay_n;
static uint8_t vf_hb_inited;

static void vf_hb_init(void) {
  if (vf_hb_inited) return;
  vf_hb_inited = 1;
  for (unsigned t = 0; t < VF_MAXT; ++t) vf_vc[t][t] = 1;
}

static uint32_t vf_loc_find(char* p) {
  for (uint32_t i = 0; i < VF_MAXLOC; ++i) {
    if (i < vf_loc_n && vf_loc_addr[i] == p) return i;
  }
  VF_BOUND_ASSERT(vf_loc_n < VF_MAXLOC, "more atomic locations than the ghost table holds (VF_MAXLOC)");
  VF_ASSUME(vf_loc_n < VF_MAXLOC);
  vf_loc_addr[vf_loc_n] = p;
  return vf_loc_n++;
}

/* pre-registration from the sequential prologue keeps the table and its size concrete */
void vf_hb_register(char* p) { (void)vf_loc_find(p); }

#ifdef VF_HB
void vf_hb_load(char* p, int o) {
  vf_hb_init();
  if (o == VF_NA) return;
  uint32_t l = vf_loc_find(p), c = vf_cur;
  for (unsigned t = 0; t < VF_MAXT; ++t) {
    vf_clk v = vf_loc_vc[l][t];
    if (VF_IS_ACQ(o)) { if (vf_vc[c][t] < v) vf_vc[c][t] = v; }
    else { if (vf_pend[c][t] < v) vf_pend[c][t] = v; }
  }
}
void vf_hb_store(char* p, int o) {
  vf_hb_init();
  if (o == VF_NA) return;
  uint32_t l = vf_loc_find(p), c = vf_cur;
  for (unsigned t = 0; t < VF_MAXT; ++t)
    vf_loc_vc[l][t] = VF_IS_REL(o) ? vf_vc[c][t] : vf_frel[c][t]; /* a plain relaxed store heads no release sequence */
  vf_vc[c][c]++;
}
void vf_hb_rmw(char* p, int o) {
  vf_hb_init();
  uint32_t l = vf_loc_find(p), c = vf_cur;
  for (unsigned t = 0; t < VF_MAXT; ++t) {
    vf_clk v = vf_loc_vc[l][t];
    if (VF_IS_ACQ(o)) { if (vf_vc[c][t] < v) vf_vc[c][t] = v; }
    else { if (vf_pend[c][t] < v) vf_pend[c][t] = v; }
  }
  for (unsigned t = 0; t < VF_MAXT; ++t) { /* an RMW continues the release sequence: join, never reset */
    vf_clk v = VF_IS_REL(o) ? vf_vc[c][t] : vf_frel[c][t];
    if (vf_loc_vc[l][t] < v) vf_loc_vc[l][t] = v;
  }
  vf_vc[c][c]++;
}
void vf_hb_fence(int o) {
  vf_hb_init();
  uint32_t c = vf_cur;
  if (VF_IS_ACQ(o))
    for (unsigned t = 0; t < VF_MAXT; ++t) if (vf_vc[c][t] < vf_pend[c][t]) vf_vc[c][t] = vf_pend[c][t];
  if (VF_IS_REL(o)) {
    for (unsigned t = 0; t < VF_MAXT; ++t) vf_frel[c][t] = vf_vc[c][t];
    vf_vc[c][c]++;
  }
}
#endif

static uint32_t vf_pay_find(char* p) {
  for (uint32_t i = 0; i < VF_MAXPAY; ++i)
    if (i < vf_pay_n && vf_pay_addr[i] == p) return i;
  VF_BOUND_ASSERT(vf_pay_n < VF_MAXPAY, "more payload variables than the ghost table holds (VF_MAXPAY)");
  VF_ASSUME(vf_pay_n < VF_MAXPAY);
  vf_pay_addr[vf_pay_n] = p;
  return vf_pay_n++;
}
void vf_hb_write(char* p) {
  vf_hb_init();
  uint32_t i = vf_pay_find(p), c = vf_cur;
  if (vf_pay_w_valid[i])
    VF_ASSERT(vf_pay_w_clk[i] <= vf_vc[c][vf_pay_w_tid[i]], "happens-before: payload write races with an earlier write (no synchronisation edge)");
  for (unsigned t = 0; t < VF_MAXT; ++t)
    VF_ASSERT(vf_pay_r_clk[i][t] <= vf_vc[c][t], "happens-before: payload write races with an earlier read (no synchronisation edge)");
  vf_pay_w_valid[i] = 1; vf_pay_w_tid[i] = (uint8_t)c; vf_pay_w_clk[i] = vf_vc[c][c];
}
void vf_hb_read(char* p) {
  vf_hb_init();
  uint32_t i = vf_pay_find(p), c = vf_cur;
  if (vf_pay_w_valid[i])
    VF_ASSERT(vf_pay_w_clk[i] <= vf_vc[c][vf_pay_w_tid[i]], "happens-before: payload read is not ordered after the write it follows (missing acquire/release)");
  vf_pay_r_clk[i][c] = vf_vc[c][c];
}
/* library-contract edges (mutex unlock->lock, notify->wake, ...): release/acquire on a ghost key */
void vf_hb_edge_out(char* key) {
#ifndef VF_HB
  return;
#endif
  vf_hb_init();
  uint32_t l = vf_loc_find(key), c = vf_cur;
  for (unsigned t = 0; t < VF_MAXT; ++t) if (vf_loc_vc[l][t] < vf_vc[c][t]) vf_loc_vc[l][t] = vf_vc[c][t];
  vf_vc[c][c]++;
}
void vf_hb_edge_in(char* key) {
#ifndef VF_HB
  return;
#endif
  vf_hb_init();
  uint32_t l = vf_loc_find(key), c = vf_cur;
  for (unsigned t = 0; t < VF_MAXT; ++t) if (vf_vc[c][t] < vf_loc_vc[l][t]) vf_vc[c][t] = vf_loc_vc[l][t];
}
void vf_region_begin(uint32_t n) { /* harness-level thread creation: everything before is visible */
  vf_hb_init();
  for (unsigned u = 1; u < VF_MAXT; ++u)
    for (unsigned t = 0; t < VF_MAXT; ++t) if (vf_vc[u][t] < vf_vc[0][t]) vf_vc[u][t] = vf_vc[0][t];
  vf_vc[0][0]++;
}
void vf_region_end(uint32_t n) { /* harness-level join */
  for (unsigned u = 1; u < VF_MAXT; ++u)
    for (unsigned t = 0; t < VF_MAXT; ++t) if (vf_vc[0][t] < vf_vc[u][t]) vf_vc[0][t] = vf_vc[u][t];
}

/* ------------------------------------------------------------------ native driver */
#ifndef __CPROVER__
#include <stdio.h>
#include <unistd.h>
#include <sys/wait.h>
struct vf_entry { const char* name; void (*fn)(void); };
extern struct vf_entry vf_entry_table[];
static uint64_t vf_rng;
static uint64_t* vf_replay; static size_t vf_replay_n, vf_replay_i; static int vf_replay_mode;
static unsigned long vf_consumed;
static FILE* vf_reclog;
static uint64_t vf_next(void) {
  vf_consumed++;
  if (vf_replay_mode) { return vf_replay_i < vf_replay_n ? vf_replay[vf_replay_i++] : 0; }
  vf_rng ^= vf_rng << 13; vf_rng ^= vf_rng >> 7; vf_rng ^= vf_rng << 17;
  uint64_t r = vf_rng * 0x2545F4914F6CDD1Dull;
  unsigned k = (unsigned)(r >> 60);
  uint64_t v;
  if (k < 10) v = (r >> 8) & 7;
  else if (k < 12) v = (r >> 8) & 63;
  else if (k < 14) v = (uint64_t)0 - ((r >> 8) & 3);
  else v = r;
  if (vf_reclog) fprintf(vf_reclog, "%llu\n", (unsigned long long)v);
  return v;
}
uint64_t vf_nondet_u64(void) { return vf_next(); }
uint32_t vf_nondet_u32(void) { return (uint32_t)vf_next(); }
uint16_t vf_nondet_u16(void) { return (uint16_t)vf_next(); }
uint8_t vf_nondet_u8(void) { return (uint8_t)vf_next(); }
uint8_t vf_nondet_bool(void) { return (uint8_t)(vf_next() & 1); }
uint32_t vf_sched_choice(uint32_t n) { return (uint32_t)vf_next(); }
void vf_native_fail(const char* msg) { printf("NATIVE-FAIL %s (after %lu nondet values)\n", msg, vf_consumed); fflush(stdout); _exit(10); }
void vf_native_reject(void) { _exit(11); }
/* the real C++ build calls these as functions */
void vf_assert(uint8_t c, const char* msg) { if (!c) vf_native_fail(msg); }
void vf_assume(uint8_t c) { if (!c) vf_native_reject(); }
void vf_cover(const char* msg) {}
int main(int argc, char** argv) {
  if (argc < 3) { fprintf(stderr, "usage: %s <entry> random <n> <seed> | replay <file>\n", argv[0]); return 2; }
  struct vf_entry* e = vf_entry_table;
  while (e->name && strcmp(e->name, argv[1])) ++e;
  if (!e->name) { fprintf(stderr, "no entry %s\n", argv[1]); return 2; }
  if (!strcmp(argv[2], "replay")) {
    FILE* f = fopen(argv[3], "r");
    if (!f) return 2;
    vf_replay = (uint64_t*)malloc(sizeof(uint64_t) * 65536);
    unsigned long long v;
    while (vf_replay_n < 65536 && fscanf(f, "%llu", &v) == 1) vf_replay[vf_replay_n++] = v;
    vf_replay_mode = 1;
    e->fn();
    printf("NATIVE-PASS (consumed %lu of %zu values)\n", vf_consumed, vf_replay_n);
    return 0;
  }
  int n = atoi(argv[3]);
  uint64_t seed = argc > 4 ? strtoull(argv[4], 0, 10) : 1;
  int pass = 0, rej = 0, fail = 0, crash = 0;
  unsigned long sig = 0;
  for (int i = 0; i < n; ++i) {
    fflush(stdout);
    pid_t p = fork();
    if (p == 0) {
      vf_rng = (seed + 1) * 0x9E3779B97F4A7C15ull + (uint64_t)i * 0xD1B54A32D192ED03ull + 1;
      e->fn();
      _exit(0);
    }
    int st = 0;
    waitpid(p, &st, 0);
    int code = WIFEXITED(st) ? WEXITSTATUS(st) : 100 + WTERMSIG(st);
    sig = sig * 31 + (unsigned long)code;
    if (code == 0) pass++; else if (code == 11) rej++; else if (code == 10) fail++; else crash++;
  }
  printf("NATIVE-SUMMARY entry=%s runs=%d pass=%d reject=%d fail=%d crash=%d sig=%lu\n", argv[1], n, pass, rej, fail, crash, sig);
  return 0;
}
#endif
