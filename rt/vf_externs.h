/* Models of the external (libc / libstdc++ / OS) functions the translated code may call.
 * Every model is part of the claim; the driver lists the ones actually used in the evidence.
 * A generated unit that needs an external without a model here is an ERROR, never a silent nondet. */
#ifndef VF_EXTERNS_H
#define VF_EXTERNS_H

#define VF_X static inline __attribute__((unused))

/* ---- memory: allocation never fails (allocation failure is outside every claim) */
#define VF_HAVE_x_malloc
VF_X char* x_malloc(uint64_t n) { char* p = (char*)malloc(n ? n : 1); VF_ASSUME(p != 0); return p; }
#define VF_HAVE_x_calloc
VF_X char* x_calloc(uint64_t a, uint64_t b) { char* p = (char*)calloc(a * b ? a * b : 1, 1); VF_ASSUME(p != 0); return p; }
#define VF_HAVE_x_free
VF_X void x_free(char* p) { free(p); }
#define VF_HAVE_x_realloc
VF_X char* x_realloc(char* p, uint64_t n) { char* q = (char*)realloc(p, n ? n : 1); VF_ASSUME(q != 0); return q; }
#define VF_HAVE_x_posix_memalign
VF_X uint32_t x_posix_memalign(char* out, uint64_t al, uint64_t n) { *(char**)out = x_malloc(n); return 0; }
#define VF_HAVE_x_aligned_alloc
VF_X char* x_aligned_alloc(uint64_t al, uint64_t n) { return x_malloc(n); }
#define VF_HAVE_x__Znwm
VF_X char* x__Znwm(uint64_t n) { return x_malloc(n); }
#define VF_HAVE_x__Znam
VF_X char* x__Znam(uint64_t n) { return x_malloc(n); }
#define VF_HAVE_x__ZnwmSt11align_val_t
VF_X char* x__ZnwmSt11align_val_t(uint64_t n, uint64_t a) { return x_malloc(n); }
#define VF_HAVE_x__ZnamSt11align_val_t
VF_X char* x__ZnamSt11align_val_t(uint64_t n, uint64_t a) { return x_malloc(n); }
#define VF_HAVE_x__ZnwmRKSt9nothrow_t
VF_X char* x__ZnwmRKSt9nothrow_t(uint64_t n, char* t) { return x_malloc(n); }
#define VF_HAVE_x__ZdlPvRKSt9nothrow_t
VF_X void x__ZdlPvRKSt9nothrow_t(char* p, char* t) { free(p); }
#define VF_HAVE_x__ZdlPv
VF_X void x__ZdlPv(char* p) { free(p); }
#define VF_HAVE_x__ZdaPv
VF_X void x__ZdaPv(char* p) { free(p); }
#define VF_HAVE_x__ZdlPvm
VF_X void x__ZdlPvm(char* p, uint64_t n) { free(p); }
#define VF_HAVE_x__ZdaPvm
VF_X void x__ZdaPvm(char* p, uint64_t n) { free(p); }
#define VF_HAVE_x__ZdlPvSt11align_val_t
VF_X void x__ZdlPvSt11align_val_t(char* p, uint64_t a) { free(p); }
#define VF_HAVE_x__ZdlPvmSt11align_val_t
VF_X void x__ZdlPvmSt11align_val_t(char* p, uint64_t n, uint64_t a) { free(p); }

VF_X void x_memcpy(char* d, char* s, uint64_t n) { if (n) memcpy(d, s, n); }
VF_X void x_memmove(char* d, char* s, uint64_t n) { if (n) memmove(d, s, n); }
VF_X void x_memset(char* d, int c, uint64_t n) { if (n) memset(d, c, n); }
#define VF_HAVE_x_memcmp
VF_X uint32_t x_memcmp(char* a, char* b, uint64_t n) { return n ? (uint32_t)memcmp(a, b, n) : 0; }
#define VF_HAVE_x_bcmp
VF_X uint32_t x_bcmp(char* a, char* b, uint64_t n) { return n ? (uint32_t)memcmp(a, b, n) : 0; }
#define VF_HAVE_x_strlen
VF_X uint64_t x_strlen(char* s) { return strlen(s); }
#define VF_HAVE_x_memchr
VF_X char* x_memchr(char* s, uint32_t c, uint64_t n) { return (char*)memchr(s, (int)c, n); }

/* ---- fatal paths */
#define VF_HAVE_x_abort
VF_X void x_abort(void) { VF_FATAL("abort"); }
#define VF_HAVE_x_exit
VF_X void x_exit(uint32_t c) { VF_FATAL("exit"); }
#define VF_HAVE_x__ZSt9terminatev
VF_X void x__ZSt9terminatev(void) { VF_FATAL("std::terminate"); }
#define VF_HAVE_x___cxa_pure_virtual
VF_X void x___cxa_pure_virtual(void) { VF_FATAL("pure virtual"); }
#define VF_HAVE_x___cxa_allocate_exception
VF_X char* x___cxa_allocate_exception(uint64_t n) { return x_malloc(n); }
#define VF_HAVE_x___cxa_free_exception
VF_X void x___cxa_free_exception(char* p) { }
#define VF_HAVE_x___cxa_throw
VF_X void x___cxa_throw(char* a, char* b, char* c) { VF_FATAL("throw"); }
#define VF_HAVE_x___cxa_rethrow
VF_X void x___cxa_rethrow(void) { VF_FATAL("rethrow"); }
#define VF_HAVE_x___cxa_begin_catch
VF_X char* x___cxa_begin_catch(char* a) { VF_FATAL("catch"); return 0; }
#define VF_HAVE_x___cxa_end_catch
VF_X void x___cxa_end_catch(void) { }
#define VF_HAVE_x__Unwind_Resume
VF_X void x__Unwind_Resume(char* a) { VF_FATAL("unwind"); }
#define VF_HAVE_x___clang_call_terminate
VF_X void x___clang_call_terminate(char* a) { VF_FATAL("terminate"); }
#define VF_HAVE_x__ZSt17__throw_bad_allocv
VF_X void x__ZSt17__throw_bad_allocv(void) { VF_FATAL("bad_alloc"); }
#define VF_HAVE_x__ZSt28__throw_bad_array_new_lengthv
VF_X void x__ZSt28__throw_bad_array_new_lengthv(void) { VF_FATAL("bad_array_new_length"); }
#define VF_HAVE_x__ZSt20__throw_length_errorPKc
VF_X void x__ZSt20__throw_length_errorPKc(char* m) { VF_FATAL("length_error"); }
#define VF_HAVE_x__ZSt19__throw_logic_errorPKc
VF_X void x__ZSt19__throw_logic_errorPKc(char* m) { VF_FATAL("logic_error"); }
#define VF_HAVE_x__ZSt20__throw_out_of_rangePKc
VF_X void x__ZSt20__throw_out_of_rangePKc(char* m) { VF_FATAL("out_of_range"); }
#define VF_HAVE_x__ZSt24__throw_out_of_range_fmtPKcz
VF_X void x__ZSt24__throw_out_of_range_fmtPKcz(char* m) { VF_FATAL("out_of_range"); }
#define VF_HAVE_x__ZSt25__throw_bad_function_callv
VF_X void x__ZSt25__throw_bad_function_callv(void) { VF_FATAL("bad_function_call"); }
#define VF_HAVE_x__ZSt20__throw_system_errori
VF_X void x__ZSt20__throw_system_errori(uint32_t e) { VF_FATAL("system_error"); }
#define VF_HAVE_x__ZSt21__throw_runtime_errorPKc
VF_X void x__ZSt21__throw_runtime_errorPKc(char* m) { VF_FATAL("runtime_error"); }
#define VF_HAVE_x___assert_fail
VF_X void x___assert_fail(char* a, char* b, uint32_t c, char* d) { VF_FATAL("assert"); }

/* ---- C++ runtime bookkeeping */
#define VF_HAVE_x___cxa_atexit
VF_X uint32_t x___cxa_atexit(char* f, char* a, char* d) { return 0; }
#define VF_HAVE_x___cxa_guard_acquire
VF_X uint32_t x___cxa_guard_acquire(char* g) { return *(uint8_t*)g == 0; }
#define VF_HAVE_x___cxa_guard_release
VF_X void x___cxa_guard_release(char* g) { *(uint8_t*)g = 1; }
#define VF_HAVE_x___cxa_guard_abort
VF_X void x___cxa_guard_abort(char* g) { }
#define VF_HAVE_x___cxa_thread_atexit
VF_X uint32_t x___cxa_thread_atexit(char* f, char* a, char* d) { return 0; }

/* ---- libstdc++ out-of-line constructors with no observable state here */
#define VF_HAVE_x__ZNSt18condition_variableC1Ev
VF_X void x__ZNSt18condition_variableC1Ev(char* t) { }
#define VF_HAVE_x__ZNSt18condition_variableD1Ev
VF_X void x__ZNSt18condition_variableD1Ev(char* t) { }
#define VF_HAVE_x__ZNSt8ios_base4InitC1Ev
VF_X void x__ZNSt8ios_base4InitC1Ev(char* t) { }
#define VF_HAVE_x__ZNSt8ios_base4InitD1Ev
VF_X void x__ZNSt8ios_base4InitD1Ev(char* t) { }

/* ---- pthread mutex / std::condition_variable (contract models; every call is a scheduling point in thread bodies)
 * mutex: first word = 0 free / 1+tid held.  lock blocks while held; unlock->lock is a happens-before edge.
 * condition variable: first word = notification count.  wait = unlock + remember the count (this call), block until
 * the count changed (vf_cv_wait_block), re-lock (vf_cv_wait_relock); notify_* increment the count and wake every
 * waiter (spurious wake-ups are not modelled; waits sit in predicate loops); notify->wake is a happens-before edge. */
#define VF_HAVE_x___pthread_key_create
VF_X uint32_t x___pthread_key_create(char* k, char* d) { return 0; }
#define VF_HAVE_x_pthread_mutex_lock
VF_X uint32_t x_pthread_mutex_lock(char* m) {
  if (*(uint32_t*)m) { VF_BLOCK(); return 0; }
  *(uint32_t*)m = 1 + vf_cur; vf_hb_edge_in(m); return 0; }
#define VF_HAVE_x_pthread_mutex_unlock
VF_X uint32_t x_pthread_mutex_unlock(char* m) { vf_hb_edge_out(m); *(uint32_t*)m = 0; return 0; }
#define VF_HAVE_x_pthread_mutex_trylock
VF_X uint32_t x_pthread_mutex_trylock(char* m) { if (*(uint32_t*)m) return 16; *(uint32_t*)m = 1 + vf_cur; vf_hb_edge_in(m); return 0; }
extern uint32_t vf_cv_snap[VF_MAXT];
#define VF_HAVE_x__ZNSt18condition_variable4waitERSt11unique_lockISt5mutexE
VF_X void x__ZNSt18condition_variable4waitERSt11unique_lockISt5mutexE(char* cv, char* lk) {
  vf_cv_snap[vf_cur] = *(uint32_t*)cv; x_pthread_mutex_unlock(*(char**)lk); }
#define VF_HAVE_x__ZNSt18condition_variable10notify_oneEv
VF_X void x__ZNSt18condition_variable10notify_oneEv(char* cv) { vf_hb_edge_out(cv); ++*(uint32_t*)cv; }
#define VF_HAVE_x__ZNSt18condition_variable10notify_allEv
VF_X void x__ZNSt18condition_variable10notify_allEv(char* cv) { vf_hb_edge_out(cv); ++*(uint32_t*)cv; }

/* ---- environment */
#define VF_HAVE_x_getenv
VF_X char* x_getenv(char* n) { return 0; }
#define VF_HAVE_x_rand
VF_X uint32_t x_rand(void) { return vf_nondet_u32() & 0x7fffffffu; }
#define VF_HAVE_x_sched_yield
VF_X uint32_t x_sched_yield(void) { return 0; }


/* ---- output: formatting and logging have empty bodies (not the subject of any property) */
#define VF_HAVE_x_fwrite
VF_X uint64_t x_fwrite(char* p, uint64_t a, uint64_t b, char* f) { return b; }
#define VF_HAVE_x_fputc
VF_X uint32_t x_fputc(uint32_t c, char* f) { return c; }
#define VF_HAVE_x_fputs
VF_X uint32_t x_fputs(char* s, char* f) { return 0; }
#define VF_HAVE_x_fprintf
VF_X uint32_t x_fprintf(char* f, char* fmt) { return 0; }
#define VF_HAVE_x_printf
VF_X uint32_t x_printf(char* fmt) { return 0; }
#define VF_HAVE_x_puts
VF_X uint32_t x_puts(char* s) { return 0; }
#define VF_HAVE_x_fflush
VF_X uint32_t x_fflush(char* f) { return 0; }
#endif
