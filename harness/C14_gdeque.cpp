// UNIT: id=C14 cxxflags="-DGALOIS_FORCE_STANDALONE"
// ASSUME: GALOIS_FORCE_STANDALONE (the repository's own switch) routes FixedSizeAllocator to malloc; the Galois heaps are C09's subject
// ASSUME: operation KINDS are enumerated as separate solver queries (vf_param); element values and one insertion position per sequence are solver variables
// OB: ob_gdeque_tail_sym tier=thorough unwind=9 timeout=900 params=11,11 bounds="as ob_gdeque_tail with all 11 kinds incl. emplace at a symbolic position" desc="gdeque equals a sequence model (symbolic insertion position)"
// OB: ob_gdeque_tail quick_limit=50 tier=quick unwind=9 timeout=300 params=10,10 bounds="gdeque<int,2>: 3 push_back (2 blocks) then every pair of ops from 10 kinds {push/pop front/back, emplace@0..3, clear, move}; values symbolic; fwd+reverse traversal, size, front/back after every op" desc="gdeque equals a sequence model (multi-block prefix)"
// OB: ob_gdeque_seq3 tier=thorough unwind=12 timeout=600 params=10,10,10 bounds="gdeque<int,2>: all 1000 kind-sequences of 3 ops (the 10 kinds with concrete emplace positions; a symbolic-position emplace followed by further operations leaves loops without a bound the checker can establish and is covered for 2-op sequences by ob_gdeque_tail_sym) from the empty deque" desc="gdeque equals a sequence model (from empty)"
// OB: ob_gdeque_tail3 tier=thorough unwind=14 timeout=900 params=10,10,10 param_limit=400 bounds="3 push_back then 3 ops of the 10 kinds with concrete emplace positions (400 of 1000 kind-sequences, VERIF_SEED)" desc="gdeque equals a sequence model (deeper)"
// OB: ob_gdeque_counted quick_limit=30 tier=quick unwind=9 timeout=300 params=9,9 bounds="gdeque<Counted,2>: 3 emplace_back then every pair of ops from 9 kinds (push/pop front/back, emplace@0..3, clear); ghost live-instance map" desc="each element constructed and destroyed exactly once"
#include "vf.h"
#include "galois/gdeque.h"
#include "vf_standalone.h"

namespace {
constexpr unsigned CAP = 8;

template <typename D>
void check_equal(D& d, const int* model, unsigned n) {
  VF_CHECK(d.size() == n);
  VF_CHECK(d.empty() == (n == 0));
  unsigned k = 0;
  for (auto it = d.begin(); it != d.end(); ++it, ++k) {
    VF_CHECKM(k < n, "forward traversal yields more elements than the model");
    if (k >= n) return;
    VF_CHECKM(*it == model[k], "forward traversal differs from model");
  }
  VF_CHECKM(k == n, "forward traversal length");
  unsigned r = 0;
  for (auto it = d.rbegin(); it != d.rend(); ++it, ++r) {
    VF_CHECKM(r < n, "reverse traversal yields more elements than the model");
    if (r >= n) return;
    VF_CHECKM(*it == model[n - 1 - r], "reverse traversal differs from model");
  }
  VF_CHECKM(r == n, "reverse traversal length");
  if (n) {
    VF_CHECK(d.front() == model[0]);
    VF_CHECK(d.back() == model[n - 1]);
  }
}

// quick tier: the 10 kinds with concrete emplace positions; kind 8 (emplace at a SYMBOLIC position) costs minutes per
// query and runs in the thorough tier
const unsigned KIND10[10] = {0, 1, 2, 3, 4, 5, 6, 7, 9, 10};
template <unsigned NOPS, unsigned PRE, bool ALLKINDS>
void run_ops() {
  galois::gdeque<int, 2> d;
  int model[CAP];
  unsigned n = 0;
  bool symUsed = false;
  for (unsigned i = 0; i < PRE; ++i) {
    int v = (int)vf_nondet_u32();
    d.push_back(v);
    model[n++] = v;
  }
  for (unsigned i = 0; i < NOPS; ++i) {
    unsigned op = ALLKINDS ? vf_param(i) : KIND10[vf_param(i)];
    int v = (int)vf_nondet_u32();
    switch (op) {
    case 0: // push_back
      d.push_back(v);
      model[n++] = v;
      break;
    case 1: // push_front
      d.push_front(v);
      for (unsigned j = n; j > 0; --j) model[j] = model[j - 1];
      model[0] = v;
      ++n;
      break;
    case 2:
      vf_assume(n > 0);
      d.pop_back();
      --n;
      break;
    case 3:
      vf_assume(n > 0);
      d.pop_front();
      for (unsigned j = 0; j + 1 < n; ++j) model[j] = model[j + 1];
      --n;
      break;
    case 4: case 5: case 6: case 7: case 8: { // emplace at position op-4, or (8) at a symbolic position, once
      unsigned pos;
      if (op == 8) {
        vf_assume(!symUsed);
        symUsed = true;
        pos = vf_nondet_u8();
      } else
        pos = op - 4;
      vf_assume(pos <= n);
      auto it = d.begin();
      for (unsigned j = 0; j < pos; ++j) ++it;
      auto r = d.emplace(it, v);
      VF_CHECKM(*r == v, "emplace returns an iterator to the new element");
      for (unsigned j = n; j > pos; --j) model[j] = model[j - 1];
      model[pos] = v;
      ++n;
      break;
    }
    case 9:
      d.clear();
      n = 0;
      break;
    case 10: { // move-construct and move back
      galois::gdeque<int, 2> e(std::move(d));
      VF_CHECK(d.empty());
      check_equal(e, model, n);
      d = std::move(e);
      break;
    }
    }
    check_equal(d, model, n);
  }
}

// element type with a ghost live-instance map
struct Counted {
  static int live;
  static int ctor, dtor;
  int v;
  Counted* self;
  Counted() : v(0), self(this) { ++live; ++ctor; }
  explicit Counted(int x) : v(x), self(this) { ++live; ++ctor; }
  Counted(Counted&& o) : v(o.v), self(this) { ++live; ++ctor; }
  Counted(const Counted& o) : v(o.v), self(this) { ++live; ++ctor; }
  Counted& operator=(Counted&& o) { v = o.v; return *this; }
  Counted& operator=(const Counted& o) { v = o.v; return *this; }
  ~Counted() {
    vf_assert(self == this, "destructor runs on an object that was never constructed (or destroyed twice)");
    self = nullptr;
    --live; ++dtor;
  }
};
int Counted::live = 0;
int Counted::ctor = 0;
int Counted::dtor = 0;
} // namespace

OB(gdeque_seq3) { run_ops<3, 0, false>(); }
OB(gdeque_tail) { run_ops<2, 3, false>(); }
OB(gdeque_tail_sym) { run_ops<2, 3, true>(); }
OB(gdeque_tail3) { run_ops<3, 3, false>(); }

OB(gdeque_counted) {
  {
    galois::gdeque<Counted, 2> d;
    unsigned n = 0;
    bool symUsed = false;
    for (unsigned i = 0; i < 3; ++i) { d.emplace_back((int)i); ++n; }
    for (unsigned i = 0; i < 2; ++i) {
      unsigned op = vf_param(i) < 8 ? vf_param(i) : 9; // kinds 0..7 and clear; the symbolic-position emplace is in ob_gdeque_tail_sym
      int v = (int)vf_nondet_u8();
      switch (op) {
      case 0: d.emplace_back(v); ++n; break;
      case 1: d.emplace_front(v); ++n; break;
      case 2: vf_assume(n > 0); d.pop_back(); --n; break;
      case 3: vf_assume(n > 0); d.pop_front(); --n; break;
      case 4: case 5: case 6: case 7: case 8: {
        unsigned pos;
        if (op == 8) { vf_assume(!symUsed); symUsed = true; pos = vf_nondet_u8(); }
        else pos = op - 4;
        vf_assume(pos <= n);
        auto it = d.begin();
        for (unsigned j = 0; j < pos; ++j) ++it;
        d.emplace(it, v);
        ++n;
        break;
      }
      case 9: d.clear(); n = 0; break;
      }
      VF_CHECKM(Counted::live == (int)n, "live instances equal container size");
      VF_CHECK(d.size() == n);
      for (auto& c : d) VF_CHECKM(c.self == &c, "container exposes only constructed elements");
    }
  }
  VF_CHECKM(Counted::live == 0, "all elements destroyed when the container dies");
  VF_CHECK(Counted::ctor == Counted::dtor);
}
