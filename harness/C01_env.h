// C01_env.h -- harness-built environment under which the REAL worklists / abort handler / executor pieces run
// without the thread pool, the topology probe, mmap or the barrier factory (extends the C15_env.h idea to sockets).
//
//  * getThreadPool() returns a zero-filled fake ThreadPool object; the harness fills mi.maxThreads, mi.maxSockets and
//    the per-thread topology records (signals[t]->topo) by hand.  The per_signal records are zeroed raw storage: only
//    their topo part is ever read by the code under test (mutex / condition variable are never touched).
//  * "running on pool thread t" = vfenv::enter(t): the thread-local my_box.topo is a copy of signals[t]->topo and
//    ptsBase / pssBase are the blocks the REAL PerBackend::initPerThread / initPerSocket handed to t.
//  * the page allocator (substrate::allocSize/allocPages, subject of C09) is replaced by VF_PTS_BYTES-byte zeroed malloc
//    blocks: the 2 MB huge page of the real allocator is only a capacity; PerBackend's arithmetic is unchanged.
//  * runtime::getBarrier(n) (Substrate.cpp -> BarrierInstance -> topology barrier) is cut: it returns one REAL
//    CountingBarrier (Barrier_Counting.cpp included verbatim) re-initialised to n participants.
//  * runtime::activeThreads / getActiveThreads are the definitions of Threads.cpp (setActiveThreads is not needed).
#pragma once
#include "vf.h"
#ifndef VF_REAL_PTRLOCK
#include "C01_ptrlock_model.h" // see there: pointer and lock flag in two fields instead of one packed word
#endif
#include <cstdlib>
#include <cstring>
#include <new>
// fatal-error macro: the diagnostic text (std::ostringstream formatting) is dropped, the fatal exit is kept
#include "galois/gIO.h"
#undef GALOIS_DIE
#define GALOIS_DIE(...) abort()
#include "galois/substrate/ThreadPool.h"
#include "galois/substrate/PerThreadStorage.h"
#include "galois/substrate/PageAlloc.h"
#include "galois/substrate/Barrier.h"
#include "galois/Threads.h"
#include "galois/runtime/Substrate.h"

#ifndef VF_PTS_BYTES
#define VF_PTS_BYTES 2048
#endif

namespace galois {
namespace substrate {
size_t allocSize() { return VF_PTS_BYTES; }
void* allocPages(unsigned num, bool) { return std::calloc(num, VF_PTS_BYTES); }
void freePages(void* p, unsigned) { std::free(p); }

thread_local ThreadPool::per_signal ThreadPool::my_box;

alignas(64) static unsigned char vf_fake_pool[sizeof(ThreadPool)];
ThreadPool& getThreadPool(void) { return *reinterpret_cast<ThreadPool*>(vf_fake_pool); }
Barrier::~Barrier() {} // vtable anchor of Barrier.cpp
} // namespace substrate
namespace runtime {
unsigned int activeThreads = 1; // Threads.cpp
}
unsigned int getActiveThreads() noexcept { return runtime::activeThreads; }
} // namespace galois

// resolved through -I<repo>/libgalois/include
#include "../src/SimpleLock.cpp"
#ifdef VF_REAL_PTRLOCK
#include "../src/PtrLock.cpp"
#endif
#include "../src/PerThreadStorage.cpp"
#include "../src/Barrier_Counting.cpp"

namespace vfenv {
constexpr unsigned MAXT = 8;
static char* base[MAXT];  // per-thread storage blocks
static char* sbase[MAXT]; // per-socket storage blocks (shared by the threads of a socket)
static galois::substrate::ThreadPool::per_signal* sig[MAXT];
static unsigned nthreads;
static galois::substrate::Barrier* the_barrier;
static unsigned barrier_n;

inline galois::substrate::ThreadTopoInfo& topo(unsigned t) { return sig[t]->topo; }

// the calling context becomes pool thread t
inline void enter(unsigned t) {
  galois::substrate::ThreadPool::my_box.topo = sig[t]->topo;
  galois::substrate::ptsBase                 = base[t];
  galois::substrate::pssBase                 = sbase[t];
}

// Build the pool object for T threads.  socketOf[t] must satisfy the HWTopoLinux.cpp guarantees (socketOf[0]==0, a new
// socket id is max-so-far+1); leader / cumulativeMaxSocket are derived here exactly as HWTopoLinux.cpp derives them.
inline void init_pool(unsigned T, const unsigned* socketOf) {
  using namespace galois::substrate;
  ThreadPool& tp = getThreadPool();
  nthreads       = T;
  new (&tp.signals) std::vector<ThreadPool::per_signal*>(T);
  unsigned maxSock = 0;
  for (unsigned t = 0; t < T; ++t) {
    sig[t]        = static_cast<ThreadPool::per_signal*>(std::calloc(1, sizeof(ThreadPool::per_signal)));
    tp.signals[t] = sig[t];
    unsigned s    = socketOf[t];
    if (s > maxSock) maxSock = s;
    unsigned leader = t;
    for (unsigned u = t; u-- > 0;)
      if (socketOf[u] == s) leader = u;
    ThreadTopoInfo& ti     = sig[t]->topo;
    ti.tid                 = t;
    ti.socket              = s;
    ti.socketLeader        = leader;
    ti.cumulativeMaxSocket = maxSock;
    ti.numaNode            = s;
  }
  tp.mi.maxThreads   = T;
  tp.mi.maxCores     = T;
  tp.mi.maxSockets   = maxSock + 1;
  tp.mi.maxNumaNodes = maxSock + 1;
}

// every thread runs the real per-thread / per-socket storage initialisation (in tid order, as ThreadPool::initThread
// does through the cascade: a socket leader has the smallest tid of its socket and therefore runs first)
inline void init_storage() {
  using namespace galois::substrate;
  for (unsigned t = 0; t < nthreads; ++t) {
    ThreadPool::my_box.topo = sig[t]->topo;
    base[t]                 = getPTSBackend().initPerThread(nthreads);
    sbase[t]                = getPPSBackend().initPerSocket(nthreads);
  }
  enter(0);
}

// the common case of this property's sequential obligations: T threads on one socket, the caller is thread 0
inline void init(unsigned T) {
  unsigned so[MAXT] = {0, 0, 0, 0, 0, 0, 0, 0};
  init_pool(T, so);
  init_storage();
}
} // namespace vfenv

// Substrate.cpp cut: one real CountingBarrier, re-initialised on demand (what BarrierInstance::get does with the
// topology barrier)
galois::substrate::Barrier& galois::runtime::getBarrier(unsigned n) {
  if (!vfenv::the_barrier)
    vfenv::the_barrier = galois::substrate::createCountingBarrier(n).release();
  else if (n != vfenv::barrier_n)
    vfenv::the_barrier->reinit(n);
  vfenv::barrier_n = n;
  return *vfenv::the_barrier;
}
