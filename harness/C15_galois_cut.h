// C15_galois_cut.h -- includes the REAL galois/DynamicBitset.h without galois/Galois.h (the whole parallel runtime):
// the include guard of Galois.h is pre-defined and the few names DynamicBitset.h needs from it are supplied as
// SEQUENTIAL stand-ins (do_all = for loop over the range; on_each = the body once per simulated thread id, in order).
#pragma once
#include <cstdint>
#include <tuple>
#include <type_traits>
#include "galois/gstl.h"
#include "galois/Reduction.h"
// ---- the cut: what DynamicBitset.h needs from galois/Galois.h
#define GALOIS_GALOIS_H
namespace galois {
static unsigned vf_active_threads = 1;
inline unsigned getActiveThreads() noexcept { return vf_active_threads; }
template <typename I>
struct VfRange {
  I b, e;
};
template <typename I>
VfRange<I> iterate(I b, I e) { return VfRange<I>{b, e}; }
template <typename I, typename F>
void vf_apply(std::true_type, I i, F& fn) { fn(i); }
template <typename I, typename F>
void vf_apply(std::false_type, I i, F& fn) { fn(*i); }
template <typename R, typename F, typename... A>
void do_all(const R& r, F&& fn, const A&...) {
  for (auto i = r.b; i != r.e; ++i) vf_apply(std::is_integral<decltype(r.b)>(), i, fn);
}
template <typename F, typename... A>
void on_each(F&& fn, const A&...) {
  for (unsigned t = 0; t < vf_active_threads; ++t) fn(t, vf_active_threads);
}
} // namespace galois
#include "galois/DynamicBitset.h"
