// UNIT: id=C08 cxxflags="-DGALOIS_FORCE_STANDALONE -DVF_PTS_BYTES=640"
// ASSUME: environment C01_env.h (fake ThreadPool object, hand-written topology of ONE thread, real PerThreadStorage.cpp / SimpleLock.cpp / Barrier_Counting.cpp, page allocator = 640-byte calloc blocks, runtime::getBarrier(n) = one real CountingBarrier instead of the topology barrier, GALOIS_DIE = abort()); GALOIS_FORCE_STANDALONE (FixedSizeAllocator -> malloc)
// ASSUME: substrate::PtrLock<T> is replaced by C01_ptrlock_model.h (pointer and lock flag in two fields, same interface, lock discipline CHECKED): unavoidable, CBMC cannot constant-propagate a chunk pointer through (uintptr_t)p|1 / &~1 (one ChunkFIFO push/push/push = 3.5 M variables); the packed word is examined by C06
// ASSUME: ONE worker (pool thread 0 of a 1-thread pool); the level switch between several workers (flip protocol, empty() agreement) is a concurrent obligation and not decided here
// ASSUME: an item is {level, payload}: the LEVEL (round for bulk-synchronous, bucket 0..2 for OBIM) is determined by the operation kinds (constant per query), the payload is a solver variable in 0..3; operation kinds are enumerated as separate solver queries (tables below)
// ASSUME: the worker follows ForEachExecutor: initial work through push_initial, then pop / operator pushes children / pop ...; with the OBIM barrier option an empty pop() is followed by checkEmpty(wl) = wl.empty() and popping resumes when that returns false; the OBIM object is never destroyed (its destructor walks masterLog backwards, which CBMC cannot bound)
// ASSUME: BulkSynchronous: no push after pop() returned empty (isEmpty is sticky by design; one worker without abort-retries never does that)
// OB: ob_lv_bulksync tier=quick solver=cadical unwind=32 timeout=600 cbmc="--max-field-sensitivity-array-size 700" params=5 bounds="BulkSynchronous<ChunkFIFO<2,Item>, Item, true>, 1 thread, real CountingBarrier(1): 5 programs (table SEQ_BSP) of 6..9 steps: push_initial of 2 items, then pop / push 1 child / push 2 children (range) of the item popped last; up to 4 rounds; payloads symbolic" desc="every popped item belongs to the OLDEST round that still has a queued item (no round r+1 item starts while a round r item is queued); each pushed item is popped exactly once; pop returns empty only when nothing is queued"
// OB: ob_lv_obim_barrier tier=quick solver=cadical unwind=32 timeout=600 cbmc="--max-field-sensitivity-array-size 700" params=6,2 bounds="OrderedByIntegerMetric<.., ChunkFIFO<2,Item>, BSP, UseBarrier=true>, ascending and descending (levels mirrored), 1 thread: 6 programs (table SEQ_LV) of 5..8 steps: initial items on 2 levels, then pop / push a child at the same level / one level less urgent / (rows 4,5) one level MORE urgent; payloads symbolic" desc="pop() does not leave the current level while it is non-empty: a popped item has the level of the item popped before it if that level still has queued items, otherwise the most urgent queued level; with monotone programs (rows 0-3) the pop sequence is therefore level-sorted; each pushed item is popped exactly once; empty() is true only when nothing is queued; after every push(i): scanStart <= i in the comparator's order"
// OB: ob_lv_obim_align tier=quick solver=cadical unwind=32 timeout=600 cbmc="--max-field-sensitivity-array-size 700" params=3,3,2 bounds="OrderedByIntegerMetric<.., BSP, UseBarrier=true>, ascending and descending, TWO pool threads (the barrier object has one participant; thread 1 pushes through the real code and its proposal - hasWork, curIndex, current - is written as the first half of its empty() writes it, its item stays in the shared bucket; thread 0 runs the real empty()): thread 1 holds one item on level a, thread 0 one on level b, all 9 (a,b) pairs; payloads symbolic" desc="level alignment in empty(): the caller ends on the MOST URGENT level proposed by any thread in the comparator's order, with that level's bucket as current, and reports work"
// OB: ob_lv_backscan tier=quick solver=cadical unwind=32 timeout=600 cbmc="--max-field-sensitivity-array-size 700" params=4,2 bounds="OrderedByIntegerMetric<.., ChunkFIFO<2,Item>, BSP=true, UseBarrier=false>, ascending and descending, 1 thread: 4 kind sequences (table SEQ_O rows 0..3) of 6..7 ops from {push into level 0/1/2, pop, range push across levels}" desc="back-scan prevention post-condition: after every push(i) the pusher's scanStart is <= i and <= curIndex in the comparator's order (the bucket stays reachable by the next slowPop of its pusher); conservation as in C01"
#include "C01_obim_common.h"
#include "galois/worklists/BulkSynchronous.h"
#include "vf_standalone.h"

using namespace galois::worklists;
using c01::Item;
namespace {
constexpr unsigned NLEV = 6;
struct Ledger {
  c01::Bag bag;           // multiset of queued items (key level*4+payload, levels < 4) -- conservation
  unsigned pend[NLEV] = {0, 0, 0, 0, 0, 0}; // queued items per level (constants under constant kinds)
  void add(const Item& it) {
    bag.add((it.bucket & 3) * 4 + it.payload);
    if ((unsigned)it.bucket < NLEV) ++pend[it.bucket];
  }
  void take(const Item& it) {
    VF_CHECKM(it.bucket >= 0 && (unsigned)it.bucket < NLEV, "popped item carries a level that was never pushed");
    if (it.bucket < 0 || (unsigned)it.bucket >= NLEV) return;
    VF_CHECKM(pend[it.bucket] > 0, "popped item of a level that has no queued item (duplicate)");
    if (pend[it.bucket]) --pend[it.bucket];
    bag.take((it.bucket & 3) * 4 + it.payload);
  }
  // most urgent queued level; desc: larger = more urgent
  int front_level(bool desc) const {
    if (!desc) {
      for (unsigned l = 0; l < NLEV; ++l)
        if (pend[l]) return (int)l;
    } else {
      for (unsigned l = NLEV; l-- > 0;)
        if (pend[l]) return (int)l;
    }
    return -1;
  }
};

// ---------------------------------------------------------------- 1. bulk-synchronous rounds
// kinds: 2 pop, 0 push one child of the item popped last, 1 push two children (range), 9 end
const unsigned char SEQ_BSP[][c01::SEQLEN] = {
    {2, 0, 2, 0, 2, 2, 9},       // a0 -> c(r1); b0 -> d(r1); then r1: c, d
    {2, 1, 2, 2, 0, 2, 2, 9},    // a0 -> 2 children; b0; c1 -> e(r2); d1; e2
    {2, 2, 0, 2, 0, 2, 0, 2, 9}, // chain: one item per round for rounds 1..3 (flip with a single item)
    {2, 0, 0, 0, 2, 2, 2, 2, 9}, // three children of a0 (chunk overflow in the next-round queue) before b0 is popped
    {2, 2, 2, 9},                // no children: the loop ends after round 0
};
typedef BulkSynchronous<ChunkFIFO<2, Item>, Item, true> BSP;

void bsp_pop(BSP& wl, Ledger& lg, Item& cur, bool& have, bool& done) {
  galois::optional<Item> r = wl.pop();
  if (!r) {
    done = true;
    VF_CHECKM(lg.bag.empty(), "pop returned empty while items are still queued (work lost at a round flip)");
    have = false;
    return;
  }
  int oldest = lg.front_level(false);
  VF_CHECKM(r->bucket == oldest, "an item of a later round was popped while an item of an earlier round is still queued");
  lg.take(*r);
  cur.bucket  = r->bucket;
  cur.payload = r->payload;
  have        = true;
}

void bsp_program(const unsigned char* s) {
  c01::configure(0);
  BSP wl;
  Ledger lg;
  static Item init[2];
  for (unsigned i = 0; i < 2; ++i) {
    init[i].bucket  = 0; // round 0
    init[i].payload = c01::value();
    lg.add(init[i]);
  }
  struct R {
    Item *b, *e;
    std::pair<Item*, Item*> local_pair() const { return std::make_pair(b, e); }
  } range{init, init + 2};
  wl.push_initial(range);
  Item cur;
  bool have = false, done = false;
  for (unsigned i = 0; i < c01::SEQLEN; ++i) {
    unsigned k = s[i];
    if (k == 9) break;
    if (k == 2) {
      bsp_pop(wl, lg, cur, have, done);
    } else {
      vf_assume(have && !done); // children are pushed by the operator of a popped item
      Item ch[2];
      unsigned n = k == 0 ? 1 : 2;
      for (unsigned j = 0; j < n; ++j) {
        ch[j].bucket  = cur.bucket + 1; // ghost round of a child
        ch[j].payload = c01::value();
        lg.add(ch[j]);
      }
      if (k == 0)
        wl.push(ch[0]);
      else
        wl.push(ch, ch + 2);
    }
  }
  unsigned pending = lg.bag.n;
  for (unsigned k = 0; k < pending; ++k) bsp_pop(wl, lg, cur, have, done);
  VF_CHECKM(lg.bag.empty(), "queued items were not returned by as many pops");
  lg.bag.check_consistent();
  bsp_pop(wl, lg, cur, have, done);
  VF_CHECKM(!have, "pop returned an item although everything pushed was already popped (duplicate)");
}

// ---------------------------------------------------------------- 2. OBIM with the barrier option
// kinds: 2 pop (executor protocol), 0 child at the level of the item popped last, 1 child one level LESS urgent,
//        3 child one level MORE urgent (non-monotone operator), 9 end.  Initial items: levels (1, 0) ascending.
const unsigned char SEQ_LV[][c01::SEQLEN] = {
    {2, 0, 1, 2, 2, 2, 9},    // level 0 item spawns a sibling and a level-1 child: sibling first, then level 1
    {2, 1, 1, 2, 2, 2, 2, 9}, // two children on the next level (chunk fills), the other initial level-1 item is among them
    {2, 0, 0, 0, 2, 2, 2, 9}, // three siblings on the current level (chunk overflow inside the current bucket)
    {2, 2, 1, 2, 0, 2, 9},    // drain level 0, move to 1, child on level 2, sibling on level 2
    {2, 2, 3, 2, 2, 9},       // non-monotone: while on level 1 push a level-0 child; level 1 is empty -> level 0 next
    {2, 1, 2, 3, 2, 2, 9},    // non-monotone with a NON-EMPTY current level: on level 1 (one more item queued there) push a level-0 child: level 1 must be finished first
};
template <bool DESC>
struct LvRun {
  typedef c01::Obim<ChunkFIFO<2, Item>, 0, true, true, false, DESC> WL;
  static int lev(int l) { return DESC ? 2 - l : l; } // mirrored levels: urgency order is the same in both variants
  static bool before(int a, int b) { return DESC ? a > b : a < b; }

  static void check_scan(WL& wl, int pushed) {
    auto& p = *wl.data.getLocal();
    VF_CHECKM(!before(pushed, p.scanStart), "after push(i) the pusher's scanStart is beyond i: the bucket is unreachable by its slowPop");
  }
  static void pop(WL& wl, Ledger& lg, Item& cur, bool& have) {
    galois::optional<Item> r = wl.pop();
    if (!r) {
      bool e = wl.empty();
      if (e) {
        VF_CHECKM(lg.bag.empty(), "empty() reported no work while items are still queued");
        have = false;
        return;
      }
      VF_CHECKM(!lg.bag.empty(), "empty() reported work although nothing is queued");
      r = wl.pop();
      VF_CHECKM((bool)r, "empty() reported pending work but the next pop() returned nothing");
      if (!r) return;
    }
    int expect = (have && lg.pend[cur.bucket] > 0) ? cur.bucket : lg.front_level(DESC);
    VF_CHECKM(r->bucket == expect, "pop left the current level while it still has queued items, or skipped a more urgent queued level");
    lg.take(*r);
    cur.bucket  = r->bucket;
    cur.payload = r->payload;
    have        = true;
  }
  static void program(const unsigned char* s) {
    c01::configure(0);
    WL& wl = *new WL();
    Ledger lg;
    static Item init[2];
    init[0].bucket = lev(1);
    init[1].bucket = lev(0);
    for (unsigned i = 0; i < 2; ++i) {
      init[i].payload = c01::value();
      lg.add(init[i]);
    }
    struct R {
      Item *b, *e;
      std::pair<Item*, Item*> local_pair() const { return std::make_pair(b, e); }
    } range{init, init + 2};
    wl.push_initial(range);
    check_scan(wl, init[1].bucket);
    Item cur;
    bool have = false;
    for (unsigned i = 0; i < c01::SEQLEN; ++i) {
      unsigned k = s[i];
      if (k == 9) break;
      if (k == 2) {
        pop(wl, lg, cur, have);
      } else {
        vf_assume(have);
        Item ch;
        int d      = k == 0 ? 0 : k == 1 ? 1 : -1; // in urgency steps
        ch.bucket  = DESC ? cur.bucket - d : cur.bucket + d;
        ch.payload = c01::value();
        vf_assume(ch.bucket >= 0 && ch.bucket < 3);
        lg.add(ch);
        wl.push(ch);
        check_scan(wl, ch.bucket);
      }
    }
    unsigned pending = lg.bag.n;
    for (unsigned k = 0; k < pending; ++k) pop(wl, lg, cur, have);
    VF_CHECKM(lg.bag.empty(), "queued items were not returned by as many pops");
    lg.bag.check_consistent();
    pop(wl, lg, cur, have);
    VF_CHECKM(!have, "pop returned an item although everything pushed was already popped (duplicate)");
  }
};


// ---------------------------------------------------------------- 2b. level alignment across threads in empty()
template <bool DESC>
struct AlignRun {
  typedef c01::Obim<ChunkFIFO<2, Item>, 0, true, true, false, DESC> WL;
  static void run(unsigned a, unsigned b) {
    unsigned so[vfenv::MAXT] = {0, 0, 0, 0, 0, 0, 0, 0};
    vfenv::init_pool(2, so);
    vfenv::init_storage();
    galois::runtime::activeThreads = 1; // the barrier object gets ONE participant: each wait() returns at once
    vfenv::enter(0);
    WL& wl = *new WL();
    galois::runtime::activeThreads = 2; // the alignment loop looks at both threads
    Item i1, i0;
    c01::item_in(i1, a);
    c01::item_in(i0, b);
    vfenv::enter(1);
    wl.push(i1);
    vfenv::enter(0);
    wl.push(i0);
    // thread 1's proposal, written as the first half of its empty() writes it (hasWork, curIndex = level of the item it
    // holds, current = that level's bucket); thread 1 cannot call empty() itself here: the one-participant barrier
    // object has no slot for it
    vfenv::enter(1);
    auto& p1 = *wl.data.getLocal();
    wl.updateLocal(p1);
    p1.hasWork  = true;
    p1.curIndex = (int)a;
    p1.current  = p1.local[(int)a];
    VF_CHECKM(p1.current != nullptr, "the pusher does not know the bucket it pushed into");
    vfenv::enter(0);
    bool e0 = wl.empty(); // thread 0 proposes level b and aligns with thread 1's proposal
    VF_CHECKM(!e0, "empty() reported no work while items are queued");
    auto& p0  = *wl.data.getLocal();
    int best  = DESC ? (a > b ? a : b) : (a < b ? a : b);
    VF_CHECKM(p0.curIndex == best, "after empty() the caller is not on the most urgent level proposed by the threads");
    VF_CHECKM(p0.current == (best == (int)a ? p1.current : p0.local[best]), "after empty() the caller's current bucket is not the bucket of the aligned level");
    // the caller's next pop() may only hand out an item of the aligned level
    galois::optional<Item> r = wl.pop();
    if (r) VF_CHECKM(r->bucket == best, "pop after the alignment returned an item of a less urgent level");
    if ((int)b == best) VF_CHECKM((bool)r && r->payload == i0.payload, "the caller holds an item of the aligned level but pop() did not return it");
  }
};

// ---------------------------------------------------------------- 3. back-scan prevention post-condition
template <bool DESC>
struct BsRun {
  typedef c01::Obim<ChunkFIFO<2, Item>, 0, true, false, false, DESC> WL;
  static bool before(int a, int b) { return DESC ? a > b : a < b; }
  static void check(WL& wl, int pushed) {
    auto& p = *wl.data.getLocal();
    VF_CHECKM(!before(pushed, p.scanStart), "after push(i) the pusher's scanStart is beyond i: the bucket is unreachable by its slowPop");
    VF_CHECKM(!before(p.curIndex, p.scanStart), "after push(i) the pusher's scanStart is beyond its curIndex");
  }
  static void run(const unsigned char* s) {
    c01::configure(0);
    WL& wl = *new WL();
    c01::Bag bag;
    for (unsigned i = 0; i < c01::SEQLEN; ++i) {
      unsigned k = s[i];
      if (k == 9) break;
      if (k <= 2) {
        Item v;
        c01::item_in(v, k);
        wl.push(v);
        bag.add(c01::slot(v));
        check(wl, v.bucket);
      } else if (k == 3) {
        galois::optional<Item> r = wl.pop();
        if (r)
          bag.take(c01::slot(*r));
        else
          VF_CHECKM(bag.empty(), "pop returned empty while pushed items are still pending (a bucket below the scan start was skipped)");
      } else {
        Item a[2];
        c01::item_in(a[0], k == 4 ? 1 : 2);
        c01::item_in(a[1], k == 4 ? 0 : 2);
        wl.push(a, a + 2);
        bag.add(c01::slot(a[0]));
        bag.add(c01::slot(a[1]));
        check(wl, a[1].bucket);
        check(wl, a[0].bucket);
      }
    }
    c01::obim_drain<WL, false>(wl, bag);
  }
};
} // namespace

OB(lv_bulksync) { bsp_program(SEQ_BSP[vf_param(0) < 5 ? vf_param(0) : 0]); }
OB(lv_obim_barrier) {
  const unsigned char* s = SEQ_LV[vf_param(0) < 6 ? vf_param(0) : 0];
  if (vf_param(1) == 0)
    LvRun<false>::program(s);
  else
    LvRun<true>::program(s);
}
OB(lv_obim_align) {
  if (vf_param(2) == 0)
    AlignRun<false>::run(vf_param(0), vf_param(1));
  else
    AlignRun<true>::run(vf_param(0), vf_param(1));
}
OB(lv_backscan) {
  const unsigned char* s = c01::SEQ_O[vf_param(0) < 6 ? vf_param(0) : 0];
  if (vf_param(1) == 0)
    BsRun<false>::run(s);
  else
    BsRun<true>::run(s);
}
