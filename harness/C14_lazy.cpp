// UNIT: id=C14
// ASSUME: operation KIND and the initialised/uninitialised state of each optional are enumerated as separate solver queries (vf_param); values are solver variables
// ASSUME: storage of LazyObject/LazyArray/optional is zero-filled by the harness before use so that touching a never-constructed object is detected deterministically (self != this)
// ASSUME: reference model for galois::optional: boost::optional / std::optional (engaged flag + value); get()/*/-> only on engaged optionals
// ASSUME: LazyArray::at() is not exercised: it does not compile (returns a pointer where a reference is declared) -- reported, not encodable
// OB: ob_optional_ops quick_limit=20 tier=quick unwind=4 timeout=60 params=10,2,2 bounds="galois::optional<Counted> a (engaged iff p1) and b (engaged iff p2), ONE op of 10 kinds {a=b, a.assign(b), a=value, a.assign(value), copy-construct from a, construct from value, a=a, accessors get/*/->/bool (+const), a=optional<Counted>() (disengage), optional<int> from optional<long> (converting)}; engaged flags, values, live-instance count; everything destroyed at scope end" desc="optional equals the engaged-flag model; constructs/destroys its value exactly once"
// OB: ob_lazy_array tier=quick unwind=6 timeout=60 params=6 bounds="LazyArray<Counted,3> / LazyObject<Counted>: symbolic subset of slots constructed through emplace/construct(const&)/construct(&&), ONE op of 6 kinds {emplace, construct copy, construct move, destroy, element access through []/front/back/data/begin/end/rbegin/const views, LazyObject construct/get/destroy}; live-instance map" desc="LazyArray/LazyObject construct and destroy exactly the addressed slot; access paths agree"
#include "vf.h"
#include <cstring>
#include "galois/optional.h"
#include "galois/LazyArray.h"
#include "galois/LazyObject.h"

namespace {
struct Counted {
  static int live;
  static int ctor, dtor;
  int v;
  Counted* self;
  Counted() : v(0), self(this) { ++live; ++ctor; }
  explicit Counted(int x) : v(x), self(this) { ++live; ++ctor; }
  Counted(Counted&& o) : v(o.v), self(this) {
    vf_assert(o.self == &o, "move construction from an object that is not alive");
    ++live; ++ctor;
  }
  Counted(const Counted& o) : v(o.v), self(this) {
    vf_assert(o.self == &o, "copy construction from an object that is not alive");
    ++live; ++ctor;
  }
  Counted& operator=(Counted&& o) {
    vf_assert(self == this && o.self == &o, "assignment involves an object that is not alive");
    v = o.v;
    return *this;
  }
  Counted& operator=(const Counted& o) {
    vf_assert(self == this && o.self == &o, "assignment involves an object that is not alive");
    v = o.v;
    return *this;
  }
  ~Counted() {
    vf_assert(self == this, "destructor runs on an object that was never constructed (or destroyed twice)");
    self = nullptr;
    --live;
    ++dtor;
  }
};
int Counted::live = 0;
int Counted::ctor = 0;
int Counted::dtor = 0;

typedef galois::optional<Counted> Opt;

void check_opt(const Opt& o, bool engaged, int value) {
  VF_CHECKM(o.is_initialized() == engaged, "engaged flag differs from model");
  VF_CHECKM((o ? true : false) == engaged, "bool conversion differs from model");
  if (engaged && o.is_initialized()) {
    VF_CHECKM(o.get().self == &o.get(), "engaged optional holds an object that is not alive");
    VF_CHECKM(o.get().v == value, "value differs from model");
  }
}

// builds an optional in place in zeroed storage
Opt* make_opt(void* mem, bool engaged, int value) {
  std::memset(mem, 0, sizeof(Opt));
  if (!engaged) return new (mem) Opt();
  Counted c(value);
  return new (mem) Opt(c);
}
} // namespace

OB(optional_ops) {
  bool ea = vf_param(1) != 0, eb = vf_param(2) != 0;
  int va = (int)vf_nondet_u32(), vb = (int)vf_nondet_u32(), w = (int)vf_nondet_u32();
  alignas(Opt) unsigned char ma[sizeof(Opt)], mb[sizeof(Opt)], mc[sizeof(Opt)];
  {
    Opt* a = make_opt(ma, ea, va);
    Opt* b = make_opt(mb, eb, vb);
    VF_CHECK(Counted::live == (int)ea + (int)eb);
    check_opt(*a, ea, va);
    check_opt(*b, eb, vb);
    switch (vf_param(0)) {
    case 0: *a = *b; ea = eb; va = vb; break;
    case 1: a->assign(*b); ea = eb; va = vb; break;
    case 2: { Counted c(w); *a = c; ea = true; va = w; break; }
    case 3: { Counted c(w); a->assign(c); ea = true; va = w; break; }
    case 4: {
      std::memset(mc, 0, sizeof(Opt));
      Opt* c = new (mc) Opt(*a);
      check_opt(*c, ea, va);
      VF_CHECK(Counted::live == 2 * (int)ea + (int)eb);
      c->~Opt();
      break;
    }
    case 5: {
      std::memset(mc, 0, sizeof(Opt));
      Counted t(w);
      Opt* c = new (mc) Opt(t);
      check_opt(*c, true, w);
      VF_CHECK(Counted::live == (int)ea + (int)eb + 2);
      c->~Opt();
      break;
    }
    case 6: { Opt& r = *a; *a = r; break; } // self assignment
    case 7: {
      vf_assume(ea);
      const Opt& ca = *a;
      VF_CHECK(a->get().v == va && (**a).v == va && (*a)->v == va);
      VF_CHECK(ca.get().v == va && (*ca).v == va && ca->v == va);
      VF_CHECK(&a->get() == &**a && &a->get() == a->operator->());
      a->get().v = w; // the reference is to the stored object
      va = w;
      break;
    }
    case 8: { Opt none; *a = none; ea = false; break; }
    case 9: { // converting construction / assignment between value types
      galois::optional<long> src;
      if (eb) src = (long)(short)vb;
      galois::optional<int> dst(src);
      VF_CHECK(dst.is_initialized() == eb);
      if (eb) VF_CHECK(*dst == (int)(short)vb);
      galois::optional<int> d2;
      if (ea) d2 = 7;
      d2 = src;
      VF_CHECK(d2.is_initialized() == eb);
      if (eb) VF_CHECK(*d2 == (int)(short)vb);
      break;
    }
    }
    check_opt(*a, ea, va);
    check_opt(*b, eb, vb);
    VF_CHECKM(Counted::live == (int)ea + (int)eb, "live instances equal the number of engaged optionals");
    a->~Opt();
    VF_CHECK(Counted::live == (int)eb);
    b->~Opt();
  }
  VF_CHECKM(Counted::live == 0, "everything destroyed");
  VF_CHECK(Counted::ctor == Counted::dtor);
}

OB(lazy_array) {
  typedef galois::LazyArray<Counted, 3> LA;
  LA arr;
  std::memset((void*)&arr, 0, sizeof(arr));
  bool has[3], ever[3];
  int mv[3];
  int nlive = 0;
  VF_CHECK(arr.size() == 3 && arr.max_size() == 3 && !arr.empty());
  for (unsigned j = 0; j < 3; ++j) { // arbitrary subset constructed, each through one of the three paths
    has[j] = vf_nondet_bool();
    ever[j] = has[j];
    mv[j] = (int)vf_nondet_u32();
    if (has[j]) {
      Counted* p;
      unsigned how = vf_nondet_u8() % 3;
      if (how == 0) p = arr.emplace(j, mv[j]);
      else if (how == 1) { Counted c(mv[j]); p = arr.construct(j, c); }
      else p = arr.construct(j, Counted(mv[j]));
      VF_CHECKM(p == &arr[j], "emplace/construct returns the address of slot j");
      ++nlive;
    }
  }
  VF_CHECK(Counted::live == nlive);
  unsigned i = vf_nondet_u8();
  vf_assume(i < 3);
  int w = (int)vf_nondet_u32();
  if (vf_param(0) < 3) ever[i] = true;
  switch (vf_param(0)) {
  case 0: vf_assume(!has[i]); arr.emplace(i, w); has[i] = true; mv[i] = w; ++nlive; break;
  case 1: { vf_assume(!has[i]); Counted c(w); arr.construct(i, c); has[i] = true; mv[i] = w; ++nlive; break; }
  case 2: vf_assume(!has[i]); arr.construct(i, Counted(w)); has[i] = true; mv[i] = w; ++nlive; break;
  case 3: vf_assume(has[i]); arr.destroy(i); has[i] = false; --nlive; break;
  case 4: {
    const LA& ca = arr;
    VF_CHECK(&arr[i] == arr.data() + i && &arr[i] == arr.begin() + i && &ca[i] == ca.data() + i);
    VF_CHECK(arr.end() == arr.begin() + 3 && ca.cend() == ca.cbegin() + 3);
    VF_CHECK(&arr.front() == &arr[0] && &arr.back() == &arr[2] && &ca.front() == &ca[0] && &ca.back() == &ca[2]);
    VF_CHECK(&*arr.rbegin() == &arr[2] && &*(arr.rend() - 1) == &arr[0] && &*ca.crbegin() == &ca[2]);
    if (has[i]) { arr[i].v = w; mv[i] = w; }
    break;
  }
  case 5: {
    galois::LazyObject<Counted> lo;
    std::memset((void*)&lo, 0, sizeof(lo));
    if (vf_nondet_bool()) lo.construct(w);
    else { Counted c(w); lo.construct(c); }
    VF_CHECK(Counted::live == nlive + 1);
    const galois::LazyObject<Counted>& clo = lo;
    VF_CHECK(lo.get().self == &lo.get() && lo.get().v == w && &clo.get() == &lo.get());
    lo.destroy();
    break;
  }
  }
  VF_CHECKM(Counted::live == nlive, "live instances equal the number of constructed slots");
  for (unsigned j = 0; j < 3; ++j) {
    if (has[j]) {
      VF_CHECKM(arr[j].self == &arr[j], "constructed slot holds a live object");
      VF_CHECKM(arr[j].v == mv[j], "slot value differs from model");
      arr.destroy(j);
    } else if (!ever[j]) // (a destroyed object's bytes are indeterminate: only never-constructed slots are inspected)
      VF_CHECKM(arr[j].self == nullptr, "never-constructed slot was touched");
  }
  VF_CHECKM(Counted::live == 0, "everything destroyed");
  VF_CHECK(Counted::ctor == Counted::dtor);
}
