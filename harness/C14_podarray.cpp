// UNIT: id=C14
// ASSUME: operation KINDS and all SIZES are enumerated as separate solver queries (vf_param); element values and access positions are solver variables
// ASSUME: elements exposed by a growing resize() are unspecified (documented: "no initialization"); the model adopts whatever they are and requires them to stay stable afterwards
// ASSUME: at(i) with i >= size() must throw (as std::vector::at): checked by declaring the throw path a cut and asserting that the call does not return
// ASSUME: realloc/malloc never fail
// OB: ob_pod_pair quick_limit=40 tier=quick unwind=9 timeout=120 params=17,17 param_limit=100 bounds="(100 of the 289 kind pairs, VERIF_SEED) PODResizeableArray<int>: 3 push_back (capacity 4) then every pair of ops from 17 kinds {push_back, resize 0/1/3/5, reserve 2/7, assign 2/0, insert-at-end 2/0, swap, move-construct, move-assign, clear, element write at symbolic index, at() out of range}; after every op size/empty/capacity, forward+reverse traversal, [], at, front/back, data, const views" desc="POD array equals a vector model"
// OB: ob_pod_pair_all tier=thorough unwind=9 timeout=120 params=17,17 bounds="PODResizeableArray<int>: 3 push_back (capacity 4) then every pair of ops from 17 kinds {push_back, resize 0/1/3/5, reserve 2/7, assign 2/0, insert-at-end 2/0, swap, move-construct, move-assign, clear, element write at symbolic index, at() out of range}; after every op size/empty/capacity, forward+reverse traversal, [], at, front/back, data, const views" desc="POD array equals a vector model (all 289 kind pairs)"
// OB: ob_pod_seq3 tier=thorough unwind=9 timeout=120 params=17,17,17 param_limit=600 bounds="PODResizeableArray<int>: 3 ops from the empty array (600 of 4913 kind-sequences, VERIF_SEED)" desc="POD array equals a vector model (from empty)"
// OB: ob_pod_ctor tier=quick unwind=14 timeout=120 params=3,4 bounds="PODResizeableArray<int>(n) n in {0,1,3} / (first,last) with 0..3 elements; then push_back" desc="POD array constructors"
#include "vf.h"
#include <cassert>
#include <cstring>
#include <cstdlib>
#include "galois/PODResizeableArray.h"

namespace {
typedef galois::PODResizeableArray<int> A;
constexpr unsigned CAP = 12;

void check_equal(A& a, const int* model, unsigned n) {
  VF_CHECK(a.size() == n);
  VF_CHECK(a.empty() == (n == 0));
  VF_CHECKM(a.max_size() >= n, "capacity covers the size");
  unsigned k = 0;
  for (auto it = a.begin(); it != a.end(); ++it, ++k) {
    VF_CHECKM(k < n, "forward traversal yields more elements than the model");
    if (k >= n) return;
    VF_CHECKM(*it == model[k], "forward traversal differs from model");
  }
  VF_CHECKM(k == n, "forward traversal length");
  unsigned q = 0;
  for (auto it = a.rbegin(); it != a.rend(); ++it, ++q) {
    VF_CHECKM(q < n, "reverse traversal yields more elements than the model");
    if (q >= n) return;
    VF_CHECKM(*it == model[n - 1 - q], "reverse traversal differs from model");
  }
  VF_CHECKM(q == n, "reverse traversal length");
  const A& ca = a;
  VF_CHECK(ca.cend() - ca.cbegin() == (long)n);
  VF_CHECK(ca.crend() - ca.crbegin() == (long)n);
  if (n) {
    unsigned i = vf_nondet_u8();
    vf_assume(i < n);
    VF_CHECK(a[i] == model[i]);
    VF_CHECK(ca[i] == model[i]);
    VF_CHECK(a.at(i) == model[i]);
    VF_CHECK(ca.at(i) == model[i]);
    VF_CHECK(a.data()[i] == model[i]);
    VF_CHECK(*(ca.begin() + i) == model[i]);
    VF_CHECK(a.front() == model[0] && ca.front() == model[0]);
    VF_CHECK(a.back() == model[n - 1] && ca.back() == model[n - 1]);
  }
}

void do_resize(A& a, int* model, unsigned& n, unsigned m) {
  a.resize(m);
  VF_CHECK(a.size() == m);
  for (unsigned j = n; j < m; ++j) model[j] = a[j]; // unspecified new elements
  n = m;
}

void one_op(A& a, int* model, unsigned& n, unsigned op) {
  switch (op) {
  case 0: {
    int v = (int)vf_nondet_u32();
    a.push_back(v);
    model[n++] = v;
    break;
  }
  case 1: do_resize(a, model, n, 0); break;
  case 2: do_resize(a, model, n, 1); break;
  case 3: do_resize(a, model, n, 3); break;
  case 4: do_resize(a, model, n, 5); break;
  case 5: case 6: {
    unsigned m = op == 5 ? 2 : 7;
    a.reserve(m);
    VF_CHECKM(a.max_size() >= m, "reserve(m) gives capacity >= m");
    break;
  }
  case 7: case 8: { // assign from another array
    unsigned m = op == 7 ? 2 : 0;
    A o;
    for (unsigned j = 0; j < m; ++j) o.push_back((int)vf_nondet_u32());
    a.assign(o.begin(), o.end());
    for (unsigned j = 0; j < m; ++j) model[j] = o[j];
    n = m;
    break;
  }
  case 9: case 10: { // insert at end from a plain array
    unsigned m = op == 9 ? 2 : 0;
    int src[2] = {(int)vf_nondet_u32(), (int)vf_nondet_u32()};
    a.insert(a.end(), src, src + m);
    for (unsigned j = 0; j < m; ++j) model[n + j] = src[j];
    n += m;
    break;
  }
  case 11: { // swap with a 2-element array, look at both
    A o;
    int w0 = (int)vf_nondet_u32(), w1 = (int)vf_nondet_u32();
    o.push_back(w0);
    o.push_back(w1);
    a.swap(o);
    check_equal(o, model, n);
    model[0] = w0;
    model[1] = w1;
    n = 2;
    break;
  }
  case 12: { // move-construct, source must be empty, move back
    A e(std::move(a));
    VF_CHECK(a.size() == 0 && a.empty() && a.begin() == a.end());
    check_equal(e, model, n);
    a = std::move(e);
    VF_CHECK(e.size() == 0 && e.begin() == e.end());
    break;
  }
  case 13: { // move-assign from a 1-element array
    A o;
    int w = (int)vf_nondet_u32();
    o.push_back(w);
    a = std::move(o);
    VF_CHECK(o.size() == 0 && o.empty());
    model[0] = w;
    n = 1;
    break;
  }
  case 14:
    a.clear();
    n = 0;
    break;
  case 15: { // element write through each access path
    vf_assume(n > 0);
    unsigned i = vf_nondet_u8();
    vf_assume(i < n);
    int v = (int)vf_nondet_u32();
    switch (vf_nondet_u8() & 3) {
    case 0: a[i] = v; break;
    case 1: a.at(i) = v; break;
    case 2: *(a.begin() + i) = v; break;
    default: a.data()[i] = v; break;
    }
    model[i] = v;
    if (vf_nondet_bool()) { int w = (int)vf_nondet_u32(); a.front() = w; model[0] = w; }
    else { int w = (int)vf_nondet_u32(); a.back() = w; model[n - 1] = w; }
    break;
  }
  case 16: { // at() out of range must not return
    unsigned i = vf_nondet_u8();
    if (i >= n) {
      vf_set_fatal_assume(1);
      try {
        (void)a.at(i);
        VF_CHECKM(false, "at(i) with i >= size() returned instead of throwing");
      } catch (const std::out_of_range&) {
        vf_assume(false); // expected: path ends here (native run), the encoding cuts at the throw
      }
    }
    break;
  }
  }
}

template <unsigned NOPS, unsigned PRE>
void run_ops() {
  A a;
  int model[CAP];
  unsigned n = 0;
  VF_CHECK(a.size() == 0 && a.empty() && a.begin() == a.end());
  for (unsigned i = 0; i < PRE; ++i) {
    int v = (int)vf_nondet_u32();
    a.push_back(v);
    model[n++] = v;
  }
  for (unsigned i = 0; i < NOPS; ++i) {
    one_op(a, model, n, vf_param(i));
    check_equal(a, model, n);
  }
}
} // namespace

OB(pod_pair) { run_ops<2, 3>(); }
OB(pod_pair_all) { run_ops<2, 3>(); }
OB(pod_seq3) { run_ops<3, 0>(); }

OB(pod_ctor) {
  static const unsigned sizes[3] = {0, 1, 3};
  unsigned m = vf_param(1);
  int model[CAP];
  unsigned n = 0;
  if (vf_param(0) == 0) {
    vf_assume(m < 3);
    A a((size_t)sizes[m]);
    VF_CHECK(a.size() == sizes[m]);
    for (unsigned j = 0; j < sizes[m]; ++j) model[j] = a[j];
    n = sizes[m];
    check_equal(a, model, n);
    one_op(a, model, n, 0);
    check_equal(a, model, n);
  } else if (vf_param(0) == 1) { // from a plain array
    int src[3] = {(int)vf_nondet_u32(), (int)vf_nondet_u32(), (int)vf_nondet_u32()};
    A a(src, src + m);
    for (unsigned j = 0; j < m; ++j) model[j] = src[j];
    n = m;
    check_equal(a, model, n);
    one_op(a, model, n, 0);
    check_equal(a, model, n);
  } else { // from another POD array's iterators
    A o;
    for (unsigned j = 0; j < m; ++j) { int v = (int)vf_nondet_u32(); o.push_back(v); model[j] = v; }
    A a(o.begin(), o.end());
    n = m;
    check_equal(a, model, n);
    check_equal(o, model, n);
    one_op(a, model, n, 0);
    check_equal(a, model, n);
  }
}
