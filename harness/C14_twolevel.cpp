// UNIT: id=C14
// ASSUME: the number of elements of each of the three inner rings and the walk KIND are enumerated as separate solver queries (vf_param); ring start offsets, element values and jump positions are solver variables
// ASSUME: inner containers are FixedSizeRing<int,3> in an arbitrary valid representation (start < 3 symbolic, wrap-around included), held in a plain array (outer iterator = pointer)
// ASSUME: GALOIS_DIE ("invalid iterator") is redefined to a bare abort() (its iostream message formatting is cut); abort is an assertion: it must be unreachable for valid iterator pairs
// OB: ob_twolevel_walk quick_limit=30 tier=quick unwind=9 timeout=120 params=3,3,3,2 bounds="TwoLevelIteratorA over 3 FixedSizeRing<int,3> with c0,c1,c2 in 0..2 elements (all 27 shapes incl. empty first/middle/last/all), symbolic ring starts; walk kind p3: 0 forward (forward tag) begin->end, 1 backward (bidirectional tag) end->begin" desc="two-level iterator visits exactly the elements of the inner ranges in order, in both directions"
// OB: ob_twolevel_zigzag tier=thorough unwind=9 timeout=300 params=3,3,3 mem_gb=4 bounds="as ob_twolevel_walk, bidirectional tag: forward to a symbolic position, backward a symbolic distance, forward one step" desc="two-level iterator: mixed forward/backward stepping lands on the right elements"
// OB: ob_twolevel_random quick_limit=40 tier=quick unwind=9 timeout=120 params=2,2,2,7,7 param_limit=120 bounds="(120 of the 392 combinations, VERIF_SEED) random-access TwoLevelIteratorA over 3 FixedSizeRing<int,3> with 0 or 2 elements each (8 shapes), ring starts fixed to 2,1,0 (symbolic starts make the jump loops branch on every comparison: path explosion in symbolic execution); positions i=p3, j=p4 concrete in 0..n: begin+i, begin+j, dereference, [], single step back, equality, order and difference of the two positions, end-begin, end-(begin+i)" desc="two-level iterator: forward random access agrees with indexing the concatenation"
// OB: ob_twolevel_random_all tier=thorough unwind=9 timeout=120 params=2,2,2,7,7 bounds="as ob_twolevel_random, all 392 combinations" desc="two-level iterator: forward random access agrees with indexing the concatenation (all shapes and positions)"
// OB: ob_twolevel_jump_back quick_limit=28 tier=quick unwind=9 timeout=120 params=2,2,2,7 bounds="as ob_twolevel_random; end - k and advance(end,-k) for concrete k=p3 in 0..n" desc="two-level iterator: jumping backwards by k lands on element n-k"
#include "vf.h"
#include <cstdlib>
#include "galois/FixedSizeRing.h"
#include "galois/gIO.h"
// harness-level stub: GALOIS_DIE's message formatting (ostringstream) is cut, the abort() is kept
#undef GALOIS_DIE
#define GALOIS_DIE(...) abort()
#include "galois/TwoLevelIteratorA.h"

namespace {
typedef galois::FixedSizeRing<int, 3> Ring;
constexpr unsigned CAP = 8;

unsigned fill(Ring& r, unsigned count, int* model, unsigned n, int fixedStart = -1) {
  unsigned start = fixedStart >= 0 ? (unsigned)fixedStart : vf_nondet_u8();
  vf_assume(start < 3);
  for (unsigned j = 0; j < count; ++j) {
    int v = (int)vf_nondet_u32();
    r.datac.emplace((start + j) % 3, v);
    model[n++] = v;
  }
  r.start = start;
  r.count = count;
  return n;
}
} // namespace

static void walk(unsigned kind) {
  Ring rings[3];
  int model[CAP];
  unsigned n = 0;
  for (unsigned i = 0; i < 3; ++i) n = fill(rings[i], vf_param(i), model, n);
  switch (kind) {
  case 0: {
    auto r = galois::make_two_level_iterator<std::forward_iterator_tag>(&rings[0], &rings[0] + 3);
    unsigned k = 0;
    for (auto it = r.first; it != r.second; ++it, ++k) {
      VF_CHECKM(k < n, "forward walk yields more elements than the inner ranges hold");
      if (k >= n) return;
      VF_CHECKM(*it == model[k], "forward walk differs from the concatenation of the inner ranges");
    }
    VF_CHECKM(k == n, "forward walk length");
    VF_CHECKM((r.first == r.second) == (n == 0), "begin == end iff all inner ranges are empty");
    break;
  }
  case 1: {
    auto r = galois::make_two_level_iterator<std::bidirectional_iterator_tag>(&rings[0], &rings[0] + 3);
    VF_CHECKM((r.first == r.second) == (n == 0), "begin == end iff all inner ranges are empty");
    unsigned k = 0;
    auto it = r.second;
    while (it != r.first) {
      VF_CHECKM(k < n, "backward walk yields more elements than the inner ranges hold");
      if (k >= n) return;
      --it;
      VF_CHECKM(*it == model[n - 1 - k], "backward walk differs from the reversed concatenation");
      ++k;
    }
    VF_CHECKM(k == n, "backward walk length");
    break;
  }
  case 2: {
    auto r = galois::make_two_level_iterator<std::bidirectional_iterator_tag>(&rings[0], &rings[0] + 3);
    unsigned stop = vf_nondet_u8();
    vf_assume(stop <= n);
    auto it = r.first;
    for (unsigned k = 0; k < stop; ++k) ++it;
    VF_CHECK((it == r.second) == (stop == n));
    if (stop < n) VF_CHECK(*it == model[stop]);
    unsigned back = vf_nondet_u8();
    vf_assume(back <= stop);
    for (unsigned k = 0; k < back; ++k) --it;
    if (stop - back < n) VF_CHECKM(*it == model[stop - back], "forward then backward lands on the right element");
    VF_CHECK((it == r.first) == (stop == back));
    if (stop - back < n) {
      it++;
      VF_CHECK((it == r.second) == (stop - back + 1 == n));
      if (stop - back + 1 < n) VF_CHECK(*it == model[stop - back + 1]);
    }
    break;
  }
  }
}

OB(twolevel_walk) { walk(vf_param(3)); }
OB(twolevel_zigzag) { walk(2); }

static void random_access() {
  Ring rings[3];
  int model[CAP];
  unsigned n = 0;
  for (unsigned i = 0; i < 3; ++i) n = fill(rings[i], 2 * vf_param(i), model, n, (int)((5 - i) % 3)); // starts 2,1,0: the first ring wraps
  auto r = galois::make_two_level_iterator<std::random_access_iterator_tag>(&rings[0], &rings[0] + 3);
  unsigned i = vf_param(3), j = vf_param(4);
  vf_assume(i <= n);
  vf_assume(j <= n);
  VF_CHECKM(r.second - r.first == (long)n, "end - begin equals the total number of elements");
  auto a = r.first + (long)i;
  auto b = r.first + (long)j;
  VF_CHECKM((a == r.second) == (i == n), "begin + n == end");
  if (i < n) VF_CHECKM(*a == model[i], "*(begin + i)");
  if (j < n) VF_CHECKM(*b == model[j], "*(begin + j)");
  VF_CHECKM((a == b) == (i == j), "equality of positions");
  VF_CHECKM(b - a == (long)j - (long)i, "difference of two positions");
  VF_CHECKM((a < b) == (i < j), "order of two positions");
  VF_CHECKM(r.second - a == (long)(n - i), "end - (begin + i)");
  if (i < n) VF_CHECKM(r.first[(long)i] == model[i], "begin[i]");
  if (i > 0) {
    auto c = a - 1;
    VF_CHECKM(*c == model[i - 1], "*(begin + i - 1) by a single step back");
    c += 1;
    VF_CHECK(c == a);
  }
}

OB(twolevel_random) { random_access(); }
OB(twolevel_random_all) { random_access(); }

OB(twolevel_jump_back) {
  Ring rings[3];
  int model[CAP];
  unsigned n = 0;
  for (unsigned i = 0; i < 3; ++i) n = fill(rings[i], 2 * vf_param(i), model, n, (int)((5 - i) % 3));
  auto r = galois::make_two_level_iterator<std::random_access_iterator_tag>(&rings[0], &rings[0] + 3);
  unsigned k = vf_param(3);
  vf_assume(k <= n);
  auto b = r.second - (long)k;
  VF_CHECKM((b == r.first) == (k == n), "end - n == begin");
  if (k > 0) VF_CHECKM(*b == model[n - k], "*(end - k) is element n-k");
  auto c = r.second;
  std::advance(c, -(long)k);
  VF_CHECKM(c == b, "advance(end, -k) == end - k");
  VF_CHECKM(r.second - b == (long)k, "end - (end - k) == k");
}
