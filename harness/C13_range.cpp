// UNIT: id=C13
// ASSUME: runtime/Range.h is the real header; 'the caller is pool thread t of T' is simulated by setting the thread-local mailbox id (ThreadPool::my_box.topo.tid, what ThreadPool::getTID() reads) and galois::runtime::activeThreads by hand; both variables are defined by the harness (the pool and Threads.cpp are not linked)
// ASSUME: T = 1..4 is enumerated (vf_param); range bounds, thread-range tables and the probed element are solver variables. Every obligation computes the piece of EVERY thread id 0..T-1 and counts how many pieces contain an arbitrary element x of the range: exactly one = pairwise disjoint and covering; in addition every piece is ordered, lies inside the range and pieces appear in thread order
// ASSUME: SpecificRange precondition (how DistributedGraph builds it): thread_beginnings[0..T] is monotone and spans the global range: thread_beginnings[0] <= *begin <= *end <= thread_beginnings[T]
// ASSUME: LocalRange::local_pair only forwards the container's own local_begin()/local_end(); the division checked for LocalRange is block_pair() (block_range over the container's begin()/end())
// OB: ob_range_standard_cnt tier=quick solver=cadical unwind=6 timeout=120 params=4 bounds="StandardRange<counting_iterator<size_t>>::local_pair/block_pair/local_begin/local_end: T = 1..4, ALL begin <= end < 2^63 with begin a multiple of 2^15 and end-begin <= 16384 (keeps base+offset additions carry-free for the SAT solver; the full-width arithmetic of block_range is the SMT obligation of C13_division), arbitrary element x" desc="the per-thread pieces are contiguous, in thread order, pairwise disjoint and cover [begin,end) exactly"
// OB: ob_range_standard_ptr tier=quick solver=cadical unwind=6 timeout=120 params=4 bounds="StandardRange<int*>: T = 1..4, range anywhere inside a 16384-int array" desc="same for raw pointers (std::advance form of block_range)"
// OB: ob_range_local tier=quick solver=cadical unwind=6 timeout=120 params=4 bounds="LocalRange<C> over a container with begin/end/local_begin/local_end: T = 1..4, container range inside a 16384-int array" desc="block_pair pieces partition [begin,end); local_pair returns the container's local range unchanged"
// OB: ob_range_specific tier=quick solver=cadical unwind=6 timeout=120 params=4 bounds="SpecificRange<counting_iterator<size_t>>: T = 1..4, ALL monotone uint32 thread_beginnings[0..T] and global ranges with thread_beginnings[0] <= begin <= end <= thread_beginnings[T] (both the exact path and the clipping path)" desc="the per-thread pieces are inside [begin,end), in thread order, pairwise disjoint and cover [begin,end) exactly; piece t is [thread_beginnings[t], thread_beginnings[t+1]) clipped to the global range"
#include "vf.h"
#include "vf_unroll.h"
#include <cstdint>
#include <cstddef>
#include <boost/iterator/counting_iterator.hpp>
#include "galois/runtime/Range.h"

namespace galois {
namespace substrate {
thread_local ThreadPool::per_signal ThreadPool::my_box;
}
namespace runtime {
unsigned int activeThreads = 1;
}
} // namespace galois

namespace {
typedef boost::counting_iterator<size_t> CIt;
constexpr unsigned MAXT = 4;
int arena[16384];

void be_thread(unsigned t) { galois::substrate::ThreadPool::my_box.topo.tid = t; }

// container with local iterators (what LocalRange wraps)
struct LocalCont {
  typedef int* iterator;
  typedef int* local_iterator;
  int *b, *e, *lb, *le;
  iterator begin() { return b; }
  iterator end() { return e; }
  local_iterator local_begin() { return lb; }
  local_iterator local_end() { return le; }
};

// pieces[t] = [lo[t], hi[t]) as offsets; x an arbitrary element of [B,E)
void check_partition(const size_t* lo, const size_t* hi, unsigned T, size_t B, size_t E) {
  size_t x = vf_nondet_u64();
  unsigned holders = 0;
  size_t prev_end  = B;
  vfu::unrolled<MAXT>(T, [&](unsigned t) {
    VF_CHECKM(lo[t] <= hi[t], "piece is ordered");
    VF_CHECKM(B <= lo[t] && hi[t] <= E, "piece lies inside the range");
    if (lo[t] != hi[t]) {
      VF_CHECKM(lo[t] >= prev_end, "non-empty pieces appear in thread order without overlap");
      prev_end = hi[t];
    }
    if (B <= x && x < E && lo[t] <= x && x < hi[t]) ++holders;
  });
  if (B <= x && x < E) VF_CHECKM(holders == 1, "every element of the range belongs to exactly one thread's piece");
}
} // namespace

OB(range_standard_cnt) {
  unsigned T = vf_param(0) + 1;
  galois::runtime::activeThreads = T;
  size_t B = vf_nondet_u64(), E = vf_nondet_u64();
  vf_assume(B <= E && E - B <= 16384 && E < ((size_t)1 << 63) && (B & (((size_t)1 << 15) - 1)) == 0);
  auto r = galois::runtime::makeStandardRange(CIt(B), CIt(E));
  VF_CHECK(*r.begin() == B && *r.end() == E);
  size_t lo[MAXT], hi[MAXT];
  vfu::unrolled<MAXT>(T, [&](unsigned t) {
    be_thread(t);
    auto p = r.local_pair();
    lo[t]  = *p.first;
    hi[t]  = *p.second;
    if (t == T - 1) { // the forwarding accessors, on one thread (each recomputes the division)
      auto q = r.block_pair();
      VF_CHECKM(q.first == p.first && q.second == p.second, "block_pair == local_pair");
      VF_CHECKM(r.local_begin() == p.first && r.local_end() == p.second && r.block_begin() == p.first && r.block_end() == p.second,
                "begin/end accessors agree with the pair");
    }
  });
  check_partition(lo, hi, T, B, E);
}

OB(range_standard_ptr) {
  unsigned T = vf_param(0) + 1;
  galois::runtime::activeThreads = T;
  size_t B = vf_nondet_u64(), E = vf_nondet_u64();
  vf_assume(B <= E && E <= 16384);
  auto r = galois::runtime::makeStandardRange(arena + B, arena + E);
  size_t lo[MAXT], hi[MAXT];
  vfu::unrolled<MAXT>(T, [&](unsigned t) {
    be_thread(t);
    auto p = r.local_pair();
    lo[t]  = (size_t)(p.first - arena);
    hi[t]  = (size_t)(p.second - arena);
    VF_CHECKM(r.local_begin() == p.first && r.local_end() == p.second, "begin/end accessors agree with the pair");
  });
  check_partition(lo, hi, T, B, E);
}

OB(range_local) {
  unsigned T = vf_param(0) + 1;
  galois::runtime::activeThreads = T;
  size_t B = vf_nondet_u64(), E = vf_nondet_u64(), LB = vf_nondet_u64(), LE = vf_nondet_u64();
  vf_assume(B <= E && E <= 16384 && LB <= LE && LE <= 16384);
  LocalCont c{arena + B, arena + E, arena + LB, arena + LE};
  auto r = galois::runtime::makeLocalRange(c);
  VF_CHECK(r.begin() == arena + B && r.end() == arena + E);
  size_t lo[MAXT], hi[MAXT];
  vfu::unrolled<MAXT>(T, [&](unsigned t) {
    be_thread(t);
    auto p = r.block_pair();
    lo[t]  = (size_t)(p.first - arena);
    hi[t]  = (size_t)(p.second - arena);
    VF_CHECKM(r.block_begin() == p.first && r.block_end() == p.second, "begin/end accessors agree with the pair");
    auto l = r.local_pair();
    VF_CHECKM(l.first == arena + LB && l.second == arena + LE && r.local_begin() == l.first && r.local_end() == l.second,
              "local_pair is the container's own local range");
  });
  check_partition(lo, hi, T, B, E);
}

OB(range_specific) {
  unsigned T = vf_param(0) + 1;
  galois::runtime::activeThreads = T;
  uint32_t tb[MAXT + 1];
  uint32_t prev = 0;
  vfu::unrolled<MAXT + 1>(T + 1, [&](unsigned i) {
    tb[i] = vf_nondet_u32();
    vf_assume(tb[i] >= prev);
    prev = tb[i];
  });
  size_t B = vf_nondet_u64(), E = vf_nondet_u64();
  vf_assume(tb[0] <= B && B <= E && E <= tb[T]);
  auto r = galois::runtime::makeSpecificRange(CIt(B), CIt(E), tb);
  size_t lo[MAXT], hi[MAXT];
  vfu::unrolled<MAXT>(T, [&](unsigned t) {
    be_thread(t);
    auto p = r.local_pair();
    lo[t]  = *p.first;
    hi[t]  = *p.second;
    auto q = r.block_pair();
    VF_CHECKM(q.first == p.first && q.second == p.second && r.local_begin() == p.first && r.local_end() == p.second, "accessors agree with the pair");
    // piece t is the thread's table range clipped to the global range (empty pieces may sit anywhere)
    size_t l = tb[t] < B ? B : tb[t], h = tb[t + 1] > E ? E : tb[t + 1];
    if (l < h) VF_CHECKM(lo[t] == l && hi[t] == h, "piece = [thread_beginnings[t], thread_beginnings[t+1]) clipped to [begin,end)");
    else VF_CHECKM(lo[t] == hi[t], "thread without nodes in the global range gets an empty piece");
  });
  check_partition(lo, hi, T, B, E);
}
