// shared prelude of the C17 serialisation units
#pragma once
#include "vf.h"
#include "galois/runtime/Serialize.h"
#include "vf_standalone.h"

using galois::runtime::DeSerializeBuffer;
using galois::runtime::gDeserialize;
using galois::runtime::gSerialize;
using galois::runtime::gSized;
using galois::runtime::SerializeBuffer;

namespace {
// k symbolic bytes in front of the payload
void pad(SerializeBuffer& b, unsigned k) {
  for (unsigned i = 0; i < k; ++i) b.push((char)vf_nondet_u8());
}
void skip(DeSerializeBuffer& d, unsigned k) {
  for (unsigned i = 0; i < k; ++i) (void)d.pop();
}
double nondet_double() {
  uint64_t b = vf_nondet_u64();
  double d;
  memcpy(&d, &b, 8);
  return d;
}
bool same_bits(double a, double b) {
  uint64_t x, y;
  memcpy(&x, &a, 8);
  memcpy(&y, &b, 8);
  return x == y;
}
} // namespace

