// UNIT: id=C14 validate=0 validate_reason="the obligation reads freed memory in the real code when it fails; the native value of such a read is not defined, so real and translated builds cannot be compared; counterexamples replay on the translated C under AddressSanitizer"
// ASSUME: std::vector semantics are the reference: v.push_back(v[i]) is valid for any i < size() even when the call reallocates
// ASSUME: realloc may move the block (CBMC's model always does; glibc does whenever it cannot grow in place)
// OB: ob_pod_push_self tier=quick unwind=9 timeout=120 params=5 bounds="PODResizeableArray<int>: k = p0 in 0..4 push_back of symbolic values, then push_back(a[i]) for symbolic i < size (size == capacity for k in {1,2,4}: the call reallocates)" desc="POD array: push_back of one of its own elements appends a copy of that element"
#include "vf.h"
#include <cassert>
#include <cstring>
#include <cstdlib>
#include "galois/PODResizeableArray.h"

OB(pod_push_self) {
  galois::PODResizeableArray<int> a;
  int model[8];
  unsigned n = 0, k = vf_param(0);
  vf_assume(k >= 1);
  for (unsigned j = 0; j < k; ++j) {
    int v = (int)vf_nondet_u32();
    a.push_back(v);
    model[n++] = v;
  }
  unsigned i = vf_nondet_u8();
  vf_assume(i < n);
  a.push_back(a[i]);
  model[n] = model[i];
  ++n;
  VF_CHECK(a.size() == n);
  for (unsigned j = 0; j < n; ++j) VF_CHECKM(a[j] == model[j], "contents after push_back(a[i]) differ from the vector model");
}
