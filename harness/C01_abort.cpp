// UNIT: id=C01 cxxflags="-DGALOIS_FORCE_STANDALONE -DVF_PTS_BYTES=128"
// ASSUME: environment C01_env.h: getThreadPool() is a fake ThreadPool object; maxThreads = 8 (every smaller machine is a prefix of an 8-thread one: the policies only look at threads <= tid and at socket leaders, which are the smallest tid of their socket), the thread->socket map is SYMBOLIC, socketLeader / cumulativeMaxSocket / maxSockets are derived from it exactly as HWTopoLinux.cpp makeHWTopo() does; only the per-thread storage backend is initialised (AbortHandler has no per-socket storage); page allocator = 128-byte calloc blocks
// ASSUME: topology predicate = what makeHWTopo() yields without an exotic cpuset: socket(0) = 0; a socket id seen for the first time is (largest id seen so far) + 1 (threads are sorted non-SMT first by physical id, socket ids are ranks of physical ids, every socket has a non-SMT thread); at most 4 sockets; membership is NOT contiguous in tid (SMT siblings come in a second block). (A cpuset that removes the first hardware thread of every core of a socket but keeps an SMT sibling can break the 'max+1' order; not examined.)
// ASSUME: activeThreads symbolic in 1..8, the aborting thread tid symbolic with tid < activeThreads (only active threads run iterations), retry count symbolic in 1..9, value symbolic
// ASSUME: the per-thread abort queue type worklists::GFIFO<Item> (decided by ob_wl_simple and C14) is replaced by a recorder with the same push interface (push count + last item): only the CHOICE of the queue is examined here, a real gdeque push at a symbolic address (one of 8 per-thread blocks) exceeds 5 GB
// ASSUME: PtrLock model (C01_ptrlock_model.h) is included by the environment but not used by this unit
// OB: ob_abort_policy tier=quick solver=cadical unwind=32 timeout=600 cbmc="--max-field-sensitivity-array-size 200" params=5 bounds="AbortHandler<int>: basicPolicy / doublePolicy / boundedPolicy / eagerPolicy called directly, and the public push(Item) dispatch (useBasicPolicy = maxSockets > 2), one query each; 8 threads, <= 4 sockets, symbolic thread->socket map, symbolic activeThreads, tid, retries" desc="the aborted item is appended to exactly ONE per-thread abort queue, the index of that queue is < activeThreads (an item in an inactive thread's queue would never be retried), the item is stored unchanged, and getLeaderForSocket never reaches its abort()"
// OB: ob_abort_chain tier=quick solver=cadical unwind=32 timeout=600 cbmc="--max-field-sensitivity-array-size 200" params=2 bounds="as ob_abort_policy for basicPolicy and doublePolicy: the forwarding target as a function of (tid, retries) is computed twice more from the target thread" desc="forwarding makes progress towards thread 0: the target index is <= tid for every policy step, and from a socket leader that is not thread 0 the basic policy reaches a strictly smaller index or socket 0's leader (the chain ends at thread 0, the serial fall-back)"
#include "C01_env.h"
// cut: the abort queue type.  AbortHandler keeps one worklists::GFIFO<Item> per thread; its own behaviour is decided by
// ob_wl_simple (C01_worklists2.cpp) and C14 (gdeque).  Here only the CHOICE of the queue matters, and a real gdeque
// push at a symbolic address (one of 8 per-thread blocks) costs > 5 GB.  Simple.h is therefore replaced by a recorder
// with the same push interface: it counts the pushes and keeps the last item.
#define GALOIS_WORKLIST_FIFO_H
#include "galois/config.h"
#include "galois/optional.h"
namespace galois {
namespace worklists {
template <typename T>
struct GFIFO {
  typedef T value_type;
  unsigned count = 0;
  T last;
  void push(const T& v) {
    last = v;
    ++count;
  }
  galois::optional<T> pop() { return galois::optional<T>(); }
};
} // namespace worklists
} // namespace galois
#include "galois/runtime/Executor_ForEach.h"
#include "vf_standalone.h"

namespace {
constexpr unsigned T = 8;
typedef galois::runtime::AbortHandler<int> AH;

unsigned active, tid;

void symbolic_machine() {
  unsigned so[vfenv::MAXT];
  unsigned mx = 0;
  for (unsigned t = 0; t < T; ++t) {
    unsigned s = t == 0 ? 0 : vf_nondet_u8();
    vf_assume(s <= mx + (t == 0 ? 0 : 1) && s < 4);
    so[t] = s;
    if (s > mx) mx = s;
  }
  vfenv::init_pool(T, so);
  // per-thread storage only
  for (unsigned t = 0; t < T; ++t) {
    galois::substrate::ThreadPool::my_box.topo = vfenv::sig[t]->topo;
    vfenv::base[t]                             = galois::substrate::getPTSBackend().initPerThread(T);
  }
  vfenv::enter(0);
  active = vf_nondet_u8();
  vf_assume(active >= 1 && active <= T);
  galois::runtime::activeThreads = active;
  tid                            = vf_nondet_u8();
  vf_assume(tid < active);
}

// which queue holds an item?  exactly one, and it is the pushed one
unsigned find_target(AH& h, int val, int retries) {
  unsigned found = 0, where = T;
  for (unsigned t = 0; t < T; ++t) {
    auto* q = h.queues.getRemote(t);
    if (q->count != 0) {
      ++found;
      where = t;
      VF_CHECKM(q->count == 1, "the aborted item was appended more than once");
      VF_CHECKM(q->last.val == val && q->last.retries == retries, "the aborted item was altered on its way to the abort queue");
    }
  }
  VF_CHECKM(found == 1, "the aborted item is not in exactly one abort queue (lost or duplicated)");
  return where;
}

void call_policy(AH& h, unsigned policy, const AH::Item& item) {
  switch (policy) {
  case 0: h.basicPolicy(item); break;
  case 1: h.doublePolicy(item); break;
  case 2: h.boundedPolicy(item); break;
  case 3: h.eagerPolicy(item); break;
  }
}
} // namespace

OB(abort_policy) {
  symbolic_machine();
  AH& h = *new AH(); // constructed by the master thread
  vfenv::enter(tid);
  int val     = (int)vf_nondet_u32();
  int retries = (int)vf_nondet_u8();
  vf_assume(retries >= 1 && retries <= 9);
  unsigned policy = vf_param(0);
  unsigned where;
  if (policy < 4) {
    AH::Item item = {val, retries};
    call_policy(h, policy, item);
    where = find_target(h, val, retries);
  } else {
    AH::Item item = {val, retries};
    h.push(item); // public entry: retries + 1, then basic or double policy by machine size
    where = find_target(h, val, retries + 1);
  }
  VF_CHECKM(where < active, "abort forwarding pushed the item to the queue of a thread outside the loop's thread set (index >= activeThreads): it would never be retried");
  VF_CHECKM(where <= tid, "abort forwarding moved the item to a higher thread index (no progress towards the serial fall-back)");
}

OB(abort_chain) {
  symbolic_machine();
  unsigned policy = vf_param(0); // 0 basic, 1 double
  int retries     = (int)vf_nondet_u8();
  vf_assume(retries >= 1 && retries <= 9);
  // one step from tid
  AH& h = *new AH();
  vfenv::enter(tid);
  AH::Item item = {7, retries};
  call_policy(h, policy, item);
  unsigned w1 = find_target(h, 7, retries);
  VF_CHECKM(w1 < active && w1 <= tid, "first forwarding step leaves the thread set or moves up");
  // the same item aborts again on the thread that received it (recorders cleared so that exactly one is non-empty)
  for (unsigned t = 0; t < T; ++t) h.queues.getRemote(t)->count = 0;
  vfenv::enter(w1);
  AH::Item item2 = {7, retries + 1};
  call_policy(h, policy, item2);
  unsigned w2 = find_target(h, 7, retries + 1);
  VF_CHECKM(w2 < active && w2 <= w1, "second forwarding step leaves the thread set or moves up");
  auto& tp = galois::substrate::getThreadPool();
  if (policy == 0) {
    // basic policy: socket s forwards to the leader of socket s/2: strictly smaller socket unless s == 0
    VF_CHECKM(tp.getSocket(w1) == tp.getSocket(tid) / 2 && tp.isLeader(w1), "basic policy target is not the leader of socket/2");
    VF_CHECKM(tp.getSocket(w2) == tp.getSocket(w1) / 2 && tp.isLeader(w2), "basic policy target is not the leader of socket/2");
    VF_CHECKM(tp.getSocket(tid) >= 4 || w2 == 0, "with <= 4 sockets the basic policy reaches thread 0 in two steps");
  }
}
