// UNIT: id=C04 checks=min cxxflags="-DVF_PTS_BYTES=128" threads=3 hb=0 plain=invisible validate=0 validate_reason="concurrent unit: the schedule is a solver variable of the sequentialised step machine"
// ASSUME: threads are sequentialised by ir2c: every atomic/volatile access is a scheduling point; plain accesses are glued (per-thread TokenHolder fields processIsBlack/lastWasWhite/hasToken(tree)/parent/child are only touched by their own thread)
// ASSUME: CBMC's per-dereference pointer checks are off in this unit (checks=min: they multiply the formula beyond memory); harness assertions, deadlock probe, step-bound and unwinding assertions are on
// ASSUME: values follow SC interleavings
// ASSUME: environment = an abstract work ledger with the discipline of ForEachExecutor::go(): a thread takes a unit from a shared pool (sets didWork), may create one new unit while holding one, and calls localTermination(didWork) only when it holds nothing; the pool is ghost state, so taking/creating work is atomic with the neighbouring scheduling point
// ASSUME: initializeThread() of every thread has completed before any localTermination() (in the executor a barrier enforces this; barriers are C05)
// ASSUME: PerThreadStorage runs over the harness environment C15_env.h (512-byte per-thread blocks from calloc; real PerThreadStorage.cpp)
// OB: ob_ring_T2 tier=quick unwind=90 timeout=1500 solver=cadical bounds="ring detector: T=2, <=2 report rounds per thread, <=2 initial work units + <=1 created, 44 steps; the unchanged detector cannot announce within two rounds (both initial black marks must be flushed first), so this obligation catches PREMATURE announcements only - histories that reach an announcement are ob_ring_deep_T2 (thorough)" desc="soundness: termination is never observed while the pool is non-empty or a thread holds work or has an unreported didWork"
// OB: ob_ring_live_T2 tier=quick unwind=90 timeout=1500 solver=cadical bounds="ring detector: T=2, arbitrary prefix of <=2 rounds per thread, then round-robin idle reports: termination within 3*T+2 reports per thread" desc="bounded liveness once everybody is idle; re-arming for a second loop with a different thread count"
// OB: ob_ring_deep_T2 tier=thorough unwind=100 timeout=3600 solver=cadical mem_gb=12 bounds="ring detector: T=2, master <=4 report rounds, other thread <=3 (the shortest histories in which the unchanged detector can announce: both initial black marks are flushed, then two clean rounds), <=1 initial work unit + <=2 created, 84 steps" desc="soundness on histories long enough to reach an announcement: termination is never observed while the pool is non-empty or a thread holds work or has an unreported didWork"
// OB: ob_tree_T2 tier=attic unwind=90 timeout=1500 solver=cadical bounds="tree detector: T=2, <=2 report rounds per thread, 56 steps" desc="soundness of the tree detector"
// OB: ob_tree_live_T2 tier=attic unwind=90 timeout=1500 solver=cadical bounds="tree detector: T=2, prefix <=2 rounds per thread then round-robin idle reports: termination within 4*depth+6 reports per thread" desc="bounded liveness of the tree detector"
// OB: ob_ring_T3 tier=thorough unwind=90 timeout=3600 solver=cadical bounds="ring detector: T=3, <=2 rounds per thread, 66 steps" desc="soundness, three threads"
// OB: ob_tree_T3 tier=attic unwind=90 timeout=3600 solver=cadical bounds="tree detector: T=3 (root with two children), <=2 rounds, 84 steps" desc="soundness, three threads"
#include "C15_env.h"
#include "galois/substrate/Termination.h"

using namespace galois::substrate;
galois::substrate::TerminationDetection::~TerminationDetection(void) {}

extern "C" void vf_sched_ring(unsigned n, unsigned steps);
extern "C" void vf_sched_ring2(unsigned n, unsigned steps);
extern "C" void vf_sched_ringdeep(unsigned n, unsigned steps);
extern "C" void vf_sched_tree(unsigned n, unsigned steps);
extern "C" void vf_sched_tree2(unsigned n, unsigned steps);
extern "C" void vf_call_ringreport(unsigned t);
extern "C" void vf_call_treereport(unsigned t);
extern "C" void vf_call_ringinit(unsigned t);

namespace {
typedef internal::LocalTerminationDetection<> Ring;
typedef internal::TreeTerminationDetection<> Tree;
Ring* vfg_ring;
Tree* vfg_tree;
unsigned vfg_pool;       // ghost: work units waiting in the shared pool
unsigned vfg_holding;    // ghost: number of threads currently holding a unit
unsigned vfg_unreported; // ghost: threads that did work and have not yet reported it
unsigned vfg_budget;     // ghost: new units that may still be created
unsigned vfg_sawterm;    // ghost: threads that observed termination

inline void tls(unsigned tid) {
  ThreadPool::my_box.topo.tid = tid;
  ptsBase                     = vfenv::base[tid];
}

template <typename D>
inline void worker(D* d, unsigned tid, unsigned rounds) {
  bool didWork = false;
  for (unsigned r = 0; r < rounds; ++r) {
    if (vfg_pool > 0) { // take a unit
      --vfg_pool;
      ++vfg_holding;
      if (!didWork) ++vfg_unreported;
      didWork = true;
      vf_yield(); // busy while the others run their termination rounds
      if (vfg_budget > 0) { // create one new unit before finishing the item
        --vfg_budget;
        ++vfg_pool;
      }
      --vfg_holding;
    }
    if (didWork) --vfg_unreported; // the report and the bookkeeping are glued to the first access of localTermination
    d->D::localTermination(didWork);
    didWork = false;
    if (d->globalTermination()) {
      vf_assert(vfg_pool == 0, "termination announced while the pool still holds work");
      vf_assert(vfg_holding == 0, "termination announced while a thread holds work");
      vf_assert(vfg_unreported == 0, "termination announced while a thread has unreported work");
      ++vfg_sawterm;
      return;
    }
  }
}
} // namespace

#define ENV(name) extern "C" void vf_tinit_##name(unsigned tid) { tls(tid); }
ENV(ring) ENV(ring2) ENV(ringdeep) ENV(tree) ENV(tree2)
extern "C" void vf_thread_ring(unsigned tid) { worker(vfg_ring, tid, 2); }
extern "C" void vf_thread_ring2(unsigned tid) { worker(vfg_ring, tid, 2); }
extern "C" void vf_thread_ringdeep(unsigned tid) { worker(vfg_ring, tid, tid == 0 ? 4 : 3); }
extern "C" void vf_thread_tree(unsigned tid) { worker(vfg_tree, tid, 2); }
extern "C" void vf_thread_tree2(unsigned tid) { worker(vfg_tree, tid, 2); }
// per-thread sequential entry points used by the sequential prologue/epilogue
extern "C" void vf_tseq_ringinit(unsigned tid) { tls(tid); vfg_ring->Ring::initializeThread(); }
extern "C" void vf_tseq_treeinit(unsigned tid) { tls(tid); vfg_tree->Tree::initializeThread(); }
extern "C" void vf_tseq_ringreport(unsigned tid) { tls(tid); vfg_ring->Ring::localTermination(false); }
extern "C" void vf_tseq_treereport(unsigned tid) { tls(tid); vfg_tree->Tree::localTermination(false); }
extern "C" void vf_call_treeinit(unsigned t);

static void setup_ring(unsigned T) {
  vfenv::init(3);
  vfg_ring = new Ring();
  vfg_ring->init(T);
  for (unsigned t = 0; t < T; ++t) vf_call_ringinit(t);
}
static void setup_tree(unsigned T) {
  vfenv::init(3);
  vfg_tree = new Tree();
  vfg_tree->init(T);
  for (unsigned t = 0; t < T; ++t) vf_call_treeinit(t);
}
static void ledger() {
  vfg_pool = vf_nondet_u8();
  vf_assume(vfg_pool <= 2);
  vfg_budget = vf_nondet_u8();
  vf_assume(vfg_budget <= 1);
}

OB(ring_T2) {
  setup_ring(2);
  ledger();
  vf_sched_ring(2, 44);
}
OB(ring_deep_T2) {
  setup_ring(2);
  vfg_pool = vf_nondet_u8();
  vf_assume(vfg_pool <= 1);
  vfg_budget = vf_nondet_u8();
  vf_assume(vfg_budget <= 2);
  vf_sched_ringdeep(2, 84);
}
OB(ring_T3) {
  setup_ring(3);
  ledger();
  vf_sched_ring(3, 66);
}
OB(tree_T2) {
  setup_tree(2);
  ledger();
  vf_sched_tree(2, 56);
}
OB(tree_T3) {
  setup_tree(3);
  ledger();
  vf_sched_tree(3, 84);
}

OB(ring_live_T2) {
  setup_ring(2);
  ledger();
  vf_sched_ring2(2, 44);
  // everybody is idle from here on (whatever is left in the pool is never taken: assume it away)
  vf_assume(vfg_pool == 0);
  for (unsigned r = 0; r < 3 * 2 + 2 && !vfg_ring->globalTermination(); ++r)
    for (unsigned t = 0; t < 2; ++t) vf_call_ringreport(t);
  VF_CHECKM(vfg_ring->globalTermination(), "once every thread is idle, termination is announced after a bounded number of further idle reports");
  // re-arm for the next loop with a different number of threads
  vfg_ring->init(3);
  for (unsigned t = 0; t < 3; ++t) vf_call_ringinit(t);
  VF_CHECKM(!vfg_ring->globalTermination(), "re-armed detector starts un-terminated");
  for (unsigned r = 0; r < 3 * 3 + 2 && !vfg_ring->globalTermination(); ++r)
    for (unsigned t = 0; t < 3; ++t) vf_call_ringreport(t);
  VF_CHECKM(vfg_ring->globalTermination(), "re-armed detector (3 threads) terminates when idle");
}

OB(tree_live_T2) {
  setup_tree(2);
  ledger();
  vf_sched_tree2(2, 56);
  vf_assume(vfg_pool == 0);
  for (unsigned r = 0; r < 4 * 1 + 6 && !vfg_tree->globalTermination(); ++r)
    for (unsigned t = 0; t < 2; ++t) vf_call_treereport(t);
  VF_CHECKM(vfg_tree->globalTermination(), "once every thread is idle, termination is announced after a bounded number of further idle reports");
  vfg_tree->init(3);
  for (unsigned t = 0; t < 3; ++t) vf_call_treeinit(t);
  VF_CHECKM(!vfg_tree->globalTermination(), "re-armed detector starts un-terminated");
  for (unsigned r = 0; r < 4 * 2 + 6 && !vfg_tree->globalTermination(); ++r)
    for (unsigned t = 0; t < 3; ++t) vf_call_treereport(t);
  VF_CHECKM(vfg_tree->globalTermination(), "re-armed detector (3 threads) terminates when idle");
}
