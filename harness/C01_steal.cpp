// UNIT: id=C01 cxxflags="-DGALOIS_FORCE_STANDALONE -DVF_PTS_BYTES=256"
// ASSUME: environment C01_env.h: getThreadPool() is a fake ThreadPool object whose topology records (tid, socket, socketLeader, cumulativeMaxSocket) are written by hand; the thread-local my_box/ptsBase/pssBase are switched by hand ('running on pool thread t'); REAL PerThreadStorage.cpp / SimpleLock.cpp; page allocator (C09) = 256-byte calloc blocks; GALOIS_DIE = abort() without the iostream text
// ASSUME: substrate::PtrLock<T> is replaced by C01_ptrlock_model.h (pointer and lock flag in two fields, same interface, lock discipline CHECKED): CBMC cannot constant-propagate a pointer through (uintptr_t)p|1 / &~1, the packed word is examined by C06 and by the concurrent hand-off obligations
// ASSUME: GALOIS_FORCE_STANDALONE (the repository's own switch) routes FixedSizeAllocator to malloc; the Galois heaps are C09's subject
// ASSUME: TWO pool threads operate on the worklist ONE AFTER THE OTHER (whole operations alternate; interleavings inside an operation are outside this unit): thread 0 is the victim, thread 1 the thief; pool configuration 1 = two sockets (the thief is a socket leader: stealAllAndPop across sockets), 2 = one socket (stealHalfAndPop)
// ASSUME: operation KINDS are enumerated as separate solver queries (vf_param); item values are solver variables in 0..3; --max-field-sensitivity-array-size 300 lets CBMC track the 256-byte per-thread blocks per byte (otherwise pointers stored there are never constant-propagated)
// OB: ob_wl_ptchunk_steal tier=quick solver=cadical unwind=40 timeout=900 cbmc="--max-field-sensitivity-array-size 300" params=2,2,2 bounds="PerThreadChunkFIFO<2> / PerThreadChunkLIFO<2> x pool configuration {two sockets, one socket} x 2 scripts: the victim pushes 7 / 11 items (3 / 5 full chunks queued), the thief pops twice (stealing all / half, more than one chunk is prepended to its own empty queue), pushes 3 items of its own (a full chunk is queued behind the stolen ones), then both drain alternately; item values symbolic" desc="work conservation across a steal: every pushed item is popped exactly once by one of the two threads, nothing is invented, and both see empty only when nothing is pending"
#include "C01_wl_common.h"
#include "galois/worklists/Chunk.h"
#include "galois/worklists/PerThreadChunk.h"
#include "vf_standalone.h"

using namespace galois::worklists;

namespace {
template <typename WL>
struct StealRun {
  WL wl;
  c01::Bag bag;
  void push(unsigned actor, unsigned times) {
    vfenv::enter(actor);
    for (unsigned i = 0; i < times; ++i) {
      int v = c01::value();
      wl.push(v);
      bag.add(v);
    }
  }
  bool pop(unsigned actor) {
    vfenv::enter(actor);
    galois::optional<int> r = wl.pop();
    if (r) bag.take(*r);
    return (bool)r;
  }
  void run(unsigned npush) {
    push(0, npush);
    pop(1); // the first attempt of a socket leader looks at itself (victim index = own id) and finds nothing
    bool got = pop(1);
    vf_assume(got); // executions in which the steal succeeded (always, in the code as it stands; the witness twin reports a steal that never succeeds as vacuous)
    push(1, 3);
    // drain: the two threads alternate; each keeps popping as the executor does
    unsigned pending = bag.n;
    for (unsigned k = 0; k < pending + 2; ++k) {
      bool a = pop(1);
      bool b = pop(0);
      if (!a && !b) break;
    }
    VF_CHECKM(bag.empty(), "items were lost across the steal: both threads see an empty worklist while pushed items are pending");
    bag.check_consistent();
    VF_CHECKM(!pop(1) && !pop(0), "pop returned an item although everything pushed was already popped (duplicate)");
    vfenv::enter(0);
  }
};
template <typename WL>
void steal(unsigned cfg, unsigned npush) {
  c01::configure(cfg);
  vfenv::enter(0);
  StealRun<WL>* r = new StealRun<WL>();
  r->run(npush);
}
} // namespace

OB(wl_ptchunk_steal) {
  unsigned cfg   = vf_param(1) == 0 ? 1 : 2;
  unsigned npush = vf_param(2) == 0 ? 7 : 11;
  if (vf_param(0) == 0)
    steal<PerThreadChunkFIFO<2>>(cfg, npush);
  else
    steal<PerThreadChunkLIFO<2>>(cfg, npush);
}
