// UNIT: id=C12 cxxflags="-ffunction-sections -fdata-sections" ldflags="-Wl,--gc-sections"
// ASSUME: files: a one-file in-memory file system (open/write/fstat/close) and mmap as heap blocks of EXACTLY the requested length (anonymous: zero-filled; file-backed: a copy of the file range cut at end-of-file, no page rounding, no zero tail), never failing; munmap frees; in the native validation build the same harness uses the real file /tmp/vfc12.gr
// ASSUME: the per-thread storage behind FileGraph's three byte-read statistics counters (GAccumulator) is a single-thread bump allocator over a static page and getThreadPool() is a one-thread pool built in place (the real PerBackend/ThreadPool are the subjects of C09/C06)
// ASSUME: GALOIS_DIE/GALOIS_SYS_DIE/GALOIS_ASSERT keep their abort() but drop the iostream message formatting; a reached abort() is an assertion failure
// ASSUME: LargeArray's deleter (largeFreer) is munmap; FileGraph::node_degrees is never allocated here
// ASSUME: FileGraph objects are heap-allocated and not destroyed (the std::deque teardown costs 15 s per object in the solver and is not part of the property)
// ASSUME: FileGraphWriter chooses version 2 only for more than 2^32-1 nodes (a 32 GiB out-index); version 2 through the writer is outside every bound, only its version-1 layout is exercised
// OB: ob_writer tier=quick unwind=8 timeout=300 params=4,4,3 bounds="FileGraphWriter (version 1): nodes 0..3, edges 0..3 (0 edges when there is no node), edge data void/uint32/uint64 (48 queries); sources, destinations, data symbolic; edges added in symbolic source order" desc="setNumNodes/setNumEdges/phase1/incrementDegree/phase2/addNeighbor/finish produce a block inside the mapping whose bytes, written to a file and read back with fromFile, are the same per-node edge lists with data"
#include "C12_common.h"

template <typename ET>
static void writer_roundtrip(unsigned n, unsigned e) {
  constexpr unsigned se = std::is_void<ET>::value ? 0 : sizeof(typename std::conditional<std::is_void<ET>::value, char, ET>::type);
  typedef typename std::conditional<std::is_void<ET>::value, uint32_t, ET>::type DT;
  if (n == 0) e = 0;
  unsigned src[MAXE + 1];
  uint32_t dst[MAXE + 1];
  DT data[MAXE + 1];
  uint64_t pos[MAXE + 1];
  for (unsigned i = 0; i < e; ++i) {
    src[i] = vf_nondet_u8();
    vf_assume(src[i] < n);
    dst[i]  = vf_nondet_u32();
    data[i] = (DT)vf_nondet_u64();
  }
  FileGraphWriter& w = *new FileGraphWriter; // never destroyed: see ASSUME
  w.setNumNodes(n);
  w.template setNumEdges<ET>(e);
  w.phase1();
  for (unsigned i = 0; i < e; ++i) w.incrementDegree(src[i]);
  w.phase2();
  for (unsigned i = 0; i < e; ++i) {
    if constexpr (std::is_void<ET>::value)
      pos[i] = w.addNeighbor(src[i], dst[i]);
    else
      pos[i] = w.template addNeighbor<ET>(src[i], dst[i], data[i]);
  }
  w.finish();
  // the model: node k owns the edges with source k, in insertion order
  Model m;
  m.n = n; m.e = e; m.se = se; m.ver = 1;
  for (unsigned k = 0; k < MAXN; ++k) {
    unsigned c = 0;
    for (unsigned j = 0; j < e; ++j)
      if (src[j] <= k) ++c;
    m.idx[k] = c;
  }
  for (unsigned i = 0; i < e; ++i) {
    unsigned exp = 0;
    for (unsigned j = 0; j < e; ++j)
      if (src[j] < src[i] || (src[j] == src[i] && j < i)) ++exp;
    VF_CHECKM(pos[i] == exp, "addNeighbor returns the slot after the earlier edges of the same source");
    if (pos[i] != exp) return;
    m.dst[exp]  = dst[i];
    m.data[exp] = (uint64_t)data[i];
  }
  VF_CHECKM(w.graphVersion == 1, "version 1 for fewer than 2^32 nodes");
  check_layout(w, m);
  check_same(w, m);
  size_t len = galois::graphs::rawBlockSize(n, e, se, 1);
  VF_CHECKM(w.mappings[0].len == len, "block length is rawBlockSize");
  int fd = ::open(VF_FILE, O_WRONLY | O_CREAT | O_TRUNC, 0644);
  vf_assume(fd != -1);
  vf_assume((size_t)::write(fd, w.mappings[0].ptr, len) == len);
  ::close(fd);
  FileGraph& h = *new FileGraph;
  h.fromFile(VF_FILE);
  check_same(h, m);
}

OB(writer) {
  unsigned n = vf_param(0), e = vf_param(1);
  switch (vf_param(2)) {
  case 0: writer_roundtrip<void>(n, e); break;
  case 1: writer_roundtrip<uint32_t>(n, e); break;
  default: writer_roundtrip<uint64_t>(n, e); break;
  }
}
