// UNIT: id=C12 cxxflags="-ffunction-sections -fdata-sections" ldflags="-Wl,--gc-sections"
// ASSUME: files: a one-file in-memory file system (open/write/fstat/close) and mmap as heap blocks of EXACTLY the requested length (anonymous: zero-filled; file-backed: a copy of the file range cut at end-of-file, no page rounding, no zero tail), never failing; munmap frees; in the native validation build the same harness uses the real file /tmp/vfc12.gr
// ASSUME: the per-thread storage behind FileGraph's three byte-read statistics counters (GAccumulator) is a single-thread bump allocator over a static page and getThreadPool() is a one-thread pool built in place (the real PerBackend/ThreadPool are the subjects of C09/C06)
// ASSUME: GALOIS_DIE/GALOIS_SYS_DIE/GALOIS_ASSERT keep their abort() but drop the iostream message formatting; a reached abort() is an assertion failure
// ASSUME: LargeArray's deleter (largeFreer) is munmap; FileGraph::node_degrees is never allocated here
// ASSUME: FileGraph objects are heap-allocated and not destroyed (the std::deque teardown costs 15 s per object in the solver and is not part of the property)
// OB: ob_offsets_v1 tier=quick unwind=8 unwindfn=vf_byte_:26 timeout=300 params=24,3 bounds="in-memory sub-range view (fromArrays with nodeOffset/edgeOffset, as the FileGraph copy constructor builds it) of a version-1 graph with 2 nodes and 3 edges: all 24 consistent (node range, edge range) tuples, edge data 0/4/8 bytes (72 queries); out-index (global edge ids), destinations, data symbolic" desc="begin/end, edge_begin/edge_end (clamped to the edge range, shifted by edgeOffset), getEdgeDst, getEdgeData of a sub-range graph equal the whole graph's; also the copy constructor reproduces the view"
// OB: ob_endian tier=quick unwind=4 timeout=120 bounds="all 32- and 64-bit values" desc="Endian.h: bswap32/64 are involutions and equal the byte-reversal definition; the little-endian conversions (le..toh, htole..) are the identity on this host and inverse pairs; htobe32/64 reverse the bytes and are involutions"
#include "C12_common.h"

OB(offsets_v1) {
  const unsigned n = 2, e = 3, se = SZ[vf_param(1)];
  unsigned p = vf_param(0);
  VF_CHECKM(p < TAB3.n, "parameter table");
  if (p >= TAB3.n) return;
  Tup t       = TAB3.t[p];
  unsigned nb = t.nb, ne = t.ne;
  uint64_t eb = t.eb, ee = t.ee;
  Model m;
  make_model(m, n, e, se, 1);
  vf_assume((nb ? m.idx[nb - 1] : 0) == eb);
  vf_assume(ee <= (ne > nb ? m.idx[ne - 1] : eb));
  uint64_t idx[MAXN + 1];
  uint32_t d32[MAXE + 1], e32[MAXE + 1];
  uint64_t e64[MAXE + 1];
  for (unsigned i = 0; i < MAXN; ++i) idx[i] = m.idx[i];
  for (unsigned i = 0; i < MAXE; ++i) {
    d32[i] = (uint32_t)m.dst[i];
    e32[i] = (uint32_t)m.data[i];
    e64[i] = m.data[i];
  }
  char* ed = se == 0 ? nullptr : se == 4 ? (char*)(e32 + eb) : (char*)(e64 + eb);
  FileGraph& h = *new FileGraph; // never destroyed: see ASSUME
  h.fromArrays(idx + nb, ne - nb, d32 + eb, ee - eb, ed, se, nb, eb, vf_nondet_bool(), 1);
  VF_CHECKM(h.mappings[0].len == galois::graphs::rawBlockSize(ne - nb, ee - eb, se, 1), "block length is rawBlockSize");
  check_sub(h, m, nb, ne, eb, ee);
  FileGraph& c = *new FileGraph(h); // copy constructor: fromArrays(o.outIdx, ..., o.nodeOffset, o.edgeOffset, true, version)
  check_sub(c, m, nb, ne, eb, ee);
}

static uint32_t rev32(uint32_t x) { return (x << 24) | ((x << 8) & 0x00ff0000u) | ((x >> 8) & 0x0000ff00u) | (x >> 24); }
static uint64_t rev64(uint64_t x) { return ((uint64_t)rev32((uint32_t)x) << 32) | rev32((uint32_t)(x >> 32)); }
OB(endian) {
  using namespace galois;
  uint32_t a = vf_nondet_u32();
  uint64_t b = vf_nondet_u64();
  VF_CHECK(bswap32(a) == rev32(a) && bswap32(bswap32(a)) == a);
  VF_CHECK(bswap64(b) == rev64(b) && bswap64(bswap64(b)) == b);
  VF_CHECKM(convert_le32toh(a) == a && convert_htole32(a) == a && convert_le64toh(b) == b && convert_htole64(b) == b, "little-endian conversions are the identity on a little-endian host");
  VF_CHECKM(convert_htobe32(a) == rev32(a) && convert_htobe64(b) == rev64(b), "big-endian conversions reverse the bytes");
  VF_CHECKM(convert_htobe32(convert_htobe32(a)) == a && convert_htobe64(convert_htobe64(b)) == b, "big-endian conversions are involutions");
  VF_CHECK(convert_le32toh(convert_htole32(a)) == a && convert_le64toh(convert_htole64(b)) == b);
}
