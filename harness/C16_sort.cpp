// UNIT: id=C16 cxxflags="-DGALOIS_FORCE_STANDALONE -DGALOIS_PSTL_CUTOFF=vf_pstl_cutoff -DGALOIS_PSTL_BLOCK=vf_pstl_block"
// ASSUME: the serial cut-off (literal 1024 in ParallelSTL.h, overridable only under GALOIS_VERIF) is 2 here, so ranges of 3..5 elements take the parallel (pivot / push) path and ranges of <= 2 elements the std::sort base case
// ASSUME: rand() is a solver-chosen value (every pivot position is examined); the comparator is a strict weak order on a KEY (value >> 1) so that equivalent-but-different elements exist; element values are solver variables, range lengths are enumerated (vf_param)
// ASSUME: the ForEach executor and its work-lists are NOT run (C01's subject): ob_sort_step calls sort_helper::operator() once with a recording context; the composition over the work-list (every pushed range is eventually processed exactly once) is C01's statement. An end-to-end run of ParallelSTL::sort over a harness work-list was tried and dropped: std::sort on a range with solver-dependent bounds makes the symbolic execution walk libstdc++'s introsort/heap-sort fallback (no result within 10 min for n = 3)
// ASSUME: progress of the quick-sort is probabilistic: when the chosen pivot is a minimum of the range and the first element is not equivalent to it, sort_helper re-pushes the SAME range unchanged (ob_sort_step states exactly this case); termination therefore holds with probability 1 over rand(), not for every pivot sequence
// ASSUME: the algorithms are instantiated with a harness random-access iterator that addresses a fixed array by index (vf16::It) and reports any dereference outside the array as a failure; the range sorted is [1,n+1) of an array of n+2 elements, the two guards must stay untouched
// OB: ob_sort_step tier=quick solver=cadical unwind=7 timeout=180 params=6 bounds="sort_helper::operator() once on a range of n = 0..5 symbolic bytes (cut-off 2), ANY pivot" desc="n <= cut-off: range sorted, nothing pushed. n > cut-off: at most two sub-ranges pushed, both non-empty, inside the range, disjoint and in order [first,p1) [p2,second) with p1 <= p2; every element of [first,p1) is less than every element of [p1,second); the elements of [p1,p2) are equivalent to each other and not greater than any element of [p2,second); the lower sub-range is strictly smaller than the range and so is the upper one unless it is the whole range re-pushed with the array unchanged; the range is a permutation of its input; guards untouched"
// OB: ob_sort_progress tier=quick solver=cadical unwind=7 timeout=300 params=3 bounds="sort_helper::operator() on one range of n = 3..5 symbolic bytes (cut-off 2), run n times from the same input with rand() = 0, 1, .., n-1" desc="termination with probability 1: for EVERY input range at least one of the n pivot draws makes progress (every pushed sub-range is strictly smaller than the range); a pivot rule that can re-push the same range for every draw loops for ever on that input"
#include "C16_env.h"
#include "vf_standalone.h"

// rand() draws from the harness value stream in BOTH builds (translated C and the native C++ replay build), so a
// counterexample's pivot choices replay exactly
static int vfg_forced_rand = -1; // >= 0: the next draws return this value (ob_sort_progress)
extern "C" int rand() noexcept { return vfg_forced_rand >= 0 ? vfg_forced_rand : (int)(vf_nondet_u32() & 0x7fffffffu); }

namespace {
constexpr unsigned MAXN = 7;
typedef vf16::Store<uint8_t> S;
typedef vf16::It<uint8_t> It;
typedef std::pair<It, It> Range;

struct KeyLess {
  bool operator()(uint8_t a, uint8_t b) const { return (a >> 1) < (b >> 1); }
};
bool lt(uint8_t a, uint8_t b) { return KeyLess()(a, b); }

void make_array(unsigned n, uint8_t* copy) {
  S::n = n;
  vf16::unrolled<MAXN>(n, [&](unsigned i) {
    S::v[i] = vf_nondet_u8();
    copy[i] = S::v[i];
  });
}
void check_permutation(const uint8_t* a, const uint8_t* b, unsigned n) {
  vf16::unrolled<MAXN>(n, [&](unsigned i) {
    unsigned ca = 0, cb = 0;
    vf16::unrolled<MAXN>(n, [&](unsigned j) {
      ca += a[j] == b[i];
      cb += b[j] == b[i];
    });
    VF_CHECKM(ca == cb, "the range is a permutation of its input");
  });
}
void check_sorted(const uint8_t* a, unsigned lo, unsigned hi) {
  vf16::unrolled<MAXN>(hi, [&](unsigned i) {
    if (i > lo) VF_CHECKM(!lt(a[i], a[i - 1]), "range sorted with respect to the comparator");
  });
}

struct RecCtx {
  Range p[3];
  unsigned k = 0;
  template <typename... A>
  void push(A&&... a) {
    VF_CHECKM(k < 2, "at most two sub-ranges are pushed");
    if (k < 3) p[k++] = Range(std::forward<A>(a)...);
  }
};
} // namespace

OB(sort_step) {
  unsigned n = vf_param(0), tot = n + 2;
  vf16::init(1, 2, 2, false);
  uint8_t in[MAXN];
  make_array(tot, in);
  const int first = 1, second = (int)n + 1;
  galois::ParallelSTL::sort_helper<KeyLess> h((KeyLess()));
  RecCtx ctx;
  h(Range(It(first), It(second)), ctx);
  VF_CHECKM(S::v[0] == in[0] && S::v[n + 1] == in[n + 1], "elements outside the range are untouched");
  check_permutation(S::v, in, tot);
  if (n <= 2) {
    VF_CHECKM(ctx.k == 0, "base case pushes nothing");
    check_sorted(S::v, first, second);
    return;
  }
  // reconstruct [first,p1) and [p2,second) from the pushes
  int p1 = first, p2 = second;
  bool haveL = false, haveU = false;
  if (ctx.k == 2) {
    haveL = haveU = true;
    VF_CHECKM(ctx.p[0].first.i == first && ctx.p[1].second.i == second, "lower sub-range starts at first, upper ends at second");
    p1 = ctx.p[0].second.i;
    p2 = ctx.p[1].first.i;
  } else if (ctx.k == 1) {
    if (ctx.p[0].second.i == second) {
      haveU = true;
      p2    = ctx.p[0].first.i;
    } else {
      haveL = true;
      VF_CHECKM(ctx.p[0].first.i == first, "lower sub-range starts at first");
      p1 = ctx.p[0].second.i;
      p2 = second; // nothing above the pivot class
    }
  }
  VF_CHECKM(first <= p1 && p1 <= p2 && p2 <= second, "sub-ranges inside the range, disjoint, in order");
  if (haveL) VF_CHECKM(p1 > first, "pushed lower sub-range is non-empty");
  if (haveU) VF_CHECKM(p2 < second, "pushed upper sub-range is non-empty");
  if (!haveL) VF_CHECKM(p1 == first, "no lower push only when nothing is below the pivot");
  VF_CHECKM(p1 - first < (int)n, "lower sub-range strictly smaller than the range");
  // ordering relative to the pivot class
  vf16::unrolled<MAXN>(tot, [&](unsigned i) {
    vf16::unrolled<MAXN>(tot, [&](unsigned j) {
      int a = (int)i, b = (int)j;
      if (a >= first && a < p1 && b >= p1 && b < second)
        VF_CHECKM(lt(S::v[a], S::v[b]), "every element of the lower sub-range is less than every element right of it");
      if (a >= p1 && a < p2 && b >= p1 && b < p2)
        VF_CHECKM(!lt(S::v[a], S::v[b]) && !lt(S::v[b], S::v[a]), "the elements between the sub-ranges are equivalent");
      if (a >= p1 && a < p2 && b >= p2 && b < second)
        VF_CHECKM(!lt(S::v[b], S::v[a]), "no element of the upper sub-range is less than the pivot class");
    });
  });
  if (second - p2 >= (int)n) {
    // the only case without progress
    VF_CHECKM(p2 == first && !haveL, "upper sub-range as large as the range only when it IS the range");
    vf16::unrolled<MAXN>(tot, [&](unsigned i) { VF_CHECKM(S::v[i] == in[i], "re-pushed whole range: array unchanged"); });
  }
}

OB(sort_progress) {
  unsigned n = 3 + vf_param(0), tot = n + 2;
  vf16::init(1, 2, 2, false);
  uint8_t in[MAXN];
  make_array(tot, in);
  const int first = 1, second = (int)n + 1;
  bool progress = false;
  vf16::unrolled<5>(n, [&](unsigned draw) {
    vf16::unrolled<MAXN>(tot, [&](unsigned i) { S::v[i] = in[i]; });
    vfg_forced_rand = (int)draw;
    galois::ParallelSTL::sort_helper<KeyLess> h((KeyLess()));
    RecCtx ctx;
    h(Range(It(first), It(second)), ctx);
    bool smaller = true;
    for (unsigned k = 0; k < ctx.k && k < 2; ++k)
      if (ctx.p[k].second.i - ctx.p[k].first.i >= (int)n) smaller = false;
    if (smaller) progress = true;
  });
  vfg_forced_rand = -1;
  VF_CHECKM(progress, "no pivot draw makes progress on this range: the same range is re-pushed whatever rand() returns (the sort never terminates on this input)");
}
