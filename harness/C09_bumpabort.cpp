// UNIT: id=C09 validate=0 validate_reason="the obligation drives BumpHeap::allocate into its documented std::abort(): the real C++ build kills the process there while the translated C ends the path, so the two native builds cannot be compared run by run (the same code is validated natively by unit C09_heaps on the non-aborting inputs)"
// ASSUME: same small source heap (AllocSize=128) and pre-state construction as unit C09_heaps
// ASSUME: std::abort() inside BumpHeap::allocate(size) is the documented reaction to a request that cannot fit a fresh block ('doesn't support allocations greater than a page'); it ends the path (vf_set_fatal_assume), every RETURNING call must satisfy the full contract
// OB: ob_bump1_any tier=quick unwind=6 timeout=300 bounds="BumpHeap<SmallSrc>::allocate(size): any valid pre-state, size symbolic 1..2^32 (far beyond AllocSize)" desc="the call either aborts or returns a block satisfying the full contract; it returns only if round8(size)+8 <= AllocSize, i.e. an oversized request is never answered with a too-small block"
#include "C09_common.h"

OB(bump1_any) {
  Bump h;
  bool empty    = vf_nondet_bool();
  unsigned off  = 8u * vf_nondet_u8();
  uint64_t size = vf_nondet_u64();
  vf_assume(size >= 1 && size <= ((uint64_t)1 << 32));
  unsigned prevOff = make_prestate(h, empty, off);
  char* prevBlk    = (char*)h.head;
  vf_set_fatal_assume(1);
  char* p = (char*)h.allocate(size);
  vf_set_fatal_assume(0);
  VF_CHECKM(round8(size) + 8 <= A, "allocate returned although the request cannot fit a fresh block");
  check_bump_grant(h, p, size, round8(size), prevBlk, prevOff);
  if (round8(size) + 8 <= A) {
    p[0]        = 1;
    p[size - 1] = 2;
  }
}
