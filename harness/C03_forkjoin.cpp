// UNIT: id=C03 checks=min threads=3 hb=1 vf_maxloc=6 vf_maxpay=6 plain=invisible validate=0 validate_reason="concurrent unit: the schedule is a solver variable of the sequentialised step machine"
// ASSUME: threads are sequentialised by ir2c: every atomic access is a scheduling point; plain accesses are glued (wbegin/wend of a mailbox are written by the parent before wakeup() and read by the owner after wait(); the ghost clocks check exactly that ordering through the payload variables)
// ASSUME: CBMC's per-dereference pointer checks are off in this unit (checks=min: they multiply the formula beyond memory); harness assertions, deadlock probe, step-bound and unwinding assertions are on
// ASSUME: values follow SC interleavings; ghost vector clocks honour the memory orders in the IR
// ASSUME: the pool object is a harness fake (signals[] point to each modelled thread's real thread_local my_box; mi.maxThreads=3); the master body replicates ThreadPool::runInternal and the worker body ThreadPool::threadLoop with the std::function 'work' replaced by a direct call; per_signal::wait/wakeup, cascade() and decascade() are the real code; 'fast mode' (burnPower) only - the mutex/condition-variable mode is not encoded
// ASSUME: workers run exactly as many loop iterations as regions in which they are woken (a worker that is never woken again stays in wait() forever in the real pool; here it ends)
// OB: ob_fork_join_fast tier=attic unwind=90 timeout=2400 solver=cadical bounds="T=3 pool threads, two consecutive regions with num=3 then num=2, fast mode, 70 steps" desc="the work function runs exactly once on each tid < num and on no other; the master returns only after all of them finished; the second region is unaffected by the first; no deadlock; region entry and return are happens-before edges for plain data"
// OB: ob_fork_join_T2 tier=attic unwind=60 timeout=1200 solver=cadical mem_gb=8 bounds="pool threads 0 and 1, ONE region with num=2, fast mode, 40 steps" desc="the work function runs exactly once on tid 0 and tid 1; the master returns only after the worker finished; region entry (master's writes -> worker) and region exit (worker's writes -> master after the join) are happens-before edges for plain data under the C++ memory orders in the code; no deadlock"
#include "vf.h"
#include "vf_nodie.h"
#include <condition_variable>
#include <mutex>
#include "galois/substrate/ThreadPool.h"

// the whole real source file: only what the thread bodies reach (per_signal::wait/wakeup, cascade, decascade) is translated
#include "../src/ThreadPool.cpp"

namespace galois {
namespace substrate {
// a TYPED, never-constructed pool object (a raw byte buffer would make every pointer stored in it - e.g. the
// signals vector - a byte-level value that CBMC cannot constant-propagate)
union VfFakePool {
  ThreadPool tp;
  VfFakePool() {}
  ~VfFakePool() {}
};
static VfFakePool vf_fake_pool;
static ThreadPool& pool() { return vf_fake_pool.tp; }
} // namespace substrate
} // namespace galois

using namespace galois::substrate;

extern "C" void vf_sched_fj(unsigned n, unsigned steps);
extern "C" void vf_sched_fj2(unsigned n, unsigned steps);

namespace {
constexpr unsigned R = 2;
unsigned vfg_num[R]      = {3, 2};         // ghost: threads requested per region
unsigned vfg_regions[3]  = {2, 2, 1};      // ghost: regions in which each thread takes part
unsigned vfg_count[3][R];                  // ghost: invocations of the work function
int vfg_in[R];                             // plain payload: written by the master before the region, read by every worker in it
int vfg_out[3][R];                         // plain payload: written by each worker in the region, read by the master after it
ThreadPool::per_signal* vfg_box[3];

inline void work(unsigned tid, unsigned r) {
  ++vfg_count[tid][r];
  vf_hb_read(&vfg_in[r]);
  vf_assert(vfg_in[r] == (int)(r + 1), "worker does not see data written by the master before the region");
  vf_hb_write(&vfg_out[tid][r]);
  vfg_out[tid][r] = (int)(10 * tid + r);
}
} // namespace

extern "C" void vf_tinit_fj(unsigned tid) {
  auto& me       = ThreadPool::my_box;
  me.topo.tid    = tid;
  me.done        = 1; // state after ThreadPool::initThread
  me.fastRelease = 0;
  me.wbegin = me.wend = 0;
  vfg_box[tid]        = &me;
  pool().signals[tid] = &me; // ThreadPool::initThread: signals[tid] = &my_box
  vf_hb_register(&me.done);
  vf_hb_register(&me.fastRelease);
}

extern "C" void vf_thread_fj(unsigned tid) {
  ThreadPool& tp = pool();
  auto& me       = ThreadPool::my_box;
  if (tid == 0) {
    for (unsigned r = 0; r < R; ++r) {
      vf_hb_write(&vfg_in[r]);
      vfg_in[r] = (int)(r + 1);
      // --- ThreadPool::runInternal(num), fast mode
      me.wbegin = 1;
      me.wend   = vfg_num[r];
      tp.cascade(true);
      work(0, r);
      tp.decascade();
      // ---
      for (unsigned u = 0; u < 3; ++u) {
        vf_assert(vfg_count[u][r] == (u < vfg_num[r] ? 1u : 0u), "when the master returns, the work function ran exactly once on each tid < num and on no other");
        if (u < vfg_num[r]) {
          vf_hb_read(&vfg_out[u][r]);
          vf_assert(vfg_out[u][r] == (int)(10 * u + r), "master does not see data written by a worker in the region");
        }
      }
    }
  } else {
    for (unsigned k = 0; k < vfg_regions[tid]; ++k) {
      // --- one iteration of ThreadPool::threadLoop, fast mode
      me.wait(true);
      tp.cascade(true);
      work(tid, k);
      tp.decascade();
      // ---
    }
  }
}

extern "C" void vf_tinit_fj2(unsigned tid) {
  auto& me       = ThreadPool::my_box;
  me.topo.tid    = tid;
  me.done        = 1; // state after ThreadPool::initThread
  me.fastRelease = 0;
  me.wbegin = me.wend = 0;
  vfg_box[tid]        = &me;
  pool().signals[tid] = &me; // ThreadPool::initThread: signals[tid] = &my_box
  vf_hb_register(&me.done);
  vf_hb_register(&me.fastRelease);
}

extern "C" void vf_thread_fj2(unsigned tid) {
  ThreadPool& tp = pool();
  auto& me       = ThreadPool::my_box;
  if (tid == 0) {
    vf_hb_write(&vfg_in[0]);
    vfg_in[0] = 1;
    // --- ThreadPool::runInternal(2), fast mode
    me.wbegin = 1;
    me.wend   = 2;
    tp.cascade(true);
    work(0, 0);
    tp.decascade();
    // ---
    for (unsigned u = 0; u < 2; ++u) {
      vf_assert(vfg_count[u][0] == 1u, "when the master returns, the work function ran exactly once on each tid < num");
      vf_hb_read(&vfg_out[u][0]);
      vf_assert(vfg_out[u][0] == (int)(10 * u), "master does not see data written by a worker in the region");
    }
  } else if (tid == 1) {
    me.wait(true);
    // the mailbox range is checked and then re-written with the checked constants: to the solver the plain fields are
    // 'old or new value depending on the schedule', and signals[me.wbegin] would be a symbolic-index dereference
    vf_assert(me.wbegin == 2 && me.wend == 2, "the woken thread's mailbox does not hold the sub-range its parent assigned (2..2 for tid 1 of 2)");
    me.wbegin = 2;
    me.wend   = 2;
    tp.cascade(true);
    work(1, 0);
    tp.decascade();
  }
}

OB(fork_join_T2) {
  ThreadPool& tp   = pool();
  tp.mi.maxThreads = 2;
  new (&tp.signals) std::vector<ThreadPool::per_signal*>();
  tp.signals.resize(3);
  vf_sched_fj2(2, 40);
  for (unsigned u = 0; u < 2; ++u) VF_CHECKM(vfg_count[u][0] == 1u, "exactly once per tid < num");
}

OB(fork_join_fast) {
  ThreadPool& tp   = pool();
  tp.mi.maxThreads = 3;
  new (&tp.signals) std::vector<ThreadPool::per_signal*>();
  tp.signals.resize(3);
  // the mailboxes are thread-locals of the modelled threads; vf_tinit_fj publishes them in signals[] before the threads start
  vf_sched_fj(3, 70);
  for (unsigned r = 0; r < R; ++r)
    for (unsigned u = 0; u < 3; ++u) VF_CHECKM(vfg_count[u][r] == (u < vfg_num[r] ? 1u : 0u), "exactly once per tid < num over both regions");
}
