/* External-function models for the C17_ser_linear unit (same models in all three C17 serialisation units). */
#include "vf_rt.h"
#ifndef VF_C17_SER_STUBS_H
#define VF_C17_SER_STUBS_H
/* <iostream> static initialiser object: no observable effect */
/* std::out_of_range(const char*): the exception object is never inspected; the throw that follows is a fatal path */
#define VF_HAVE_x__ZNSt12out_of_rangeC1EPKc
VF_X void x__ZNSt12out_of_rangeC1EPKc(char* self, char* msg) { }
#define VF_HAVE_x__ZNSt12out_of_rangeD1Ev
VF_X void x__ZNSt12out_of_rangeD1Ev(char* self) { }
/* std::string::_M_mutate (reallocating growth): strings in this unit stay within the 15-character small-string
 * capacity, so reaching it means the bound was exceeded (reported as BOUND, never a pass) */
#define VF_HAVE_x__ZNSt7__cxx1112basic_stringIcSt11char_traitsIcESaIcEE9_M_mutateEmmPKcm
VF_X void x__ZNSt7__cxx1112basic_stringIcSt11char_traitsIcESaIcEE9_M_mutateEmmPKcm(char* self, uint64_t pos, uint64_t len1, char* s, uint64_t len2) {
  VF_BOUND_ASSERT(0, "std::string grows beyond the small-string capacity");
  VF_ASSUME(0);
}
#endif
