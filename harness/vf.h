// vf.h -- harness-side interface (C++). Calls to these functions are recognised by ir2c.
#pragma once
#include <cstdint>
#include <cstddef>
extern "C" {
void vf_assert(bool c, const char* msg);
void vf_assume(bool c);
uint64_t vf_nondet_u64();
uint32_t vf_nondet_u32();
uint16_t vf_nondet_u16();
uint8_t vf_nondet_u8();
uint8_t vf_nondet_bool();
void vf_set_fatal_assume(unsigned v);
void vf_hb_register(void* p);
void vf_hb_write(void* p);
void vf_hb_read(void* p);
void vf_yield();
unsigned vf_param(unsigned i);
}
#define VF_STR2(x) #x
#define VF_STR(x) VF_STR2(x)
#define VF_CHECK(c) vf_assert((c), __FILE__ ":" VF_STR(__LINE__) ": " #c)
#define VF_CHECKM(c, m) vf_assert((c), __FILE__ ":" VF_STR(__LINE__) ": " m)
#define OB(name) extern "C" __attribute__((noinline)) void ob_##name()
static inline uint32_t vf_range(uint32_t lo, uint32_t hi) { uint32_t v = vf_nondet_u32(); vf_assume(v >= lo && v <= hi); return v; }
