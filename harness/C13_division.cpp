// UNIT: id=C13
// ASSUME: prefix sums are arbitrary monotone arrays with entries < 2^20 (so weights cannot overflow 64 bits); the prefix-sum container is a plain array wrapper
// OB: ob_block_range_small tier=quick unwind=10 timeout=600 bounds="block_range<uint32_t>: num<=8 parts, size<=40, all (b,e,id) symbolic; checks A_0=b, B_last=e, B_id=A_{id+1}, monotone" desc="CBMC cross-check of block_range at small widths (full width is decided by the integer back end)"
// OB: ob_block_range_iter tier=quick unwind=10 timeout=600 bounds="block_range<int*>: num<=4 parts, array<=9" desc="iterator overload equals the integer overload"
// OB: ob_corner_case tier=quick unwind=8 timeout=600 bounds="unitRangeCornerCaseHandle: units<=5, begin<=end<2^31 symbolic" desc="corner-case unit ranges start at begin, end at end, are monotone"
// OB: ob_divide_nodes tier=quick unwind=8 timeout=900 bounds="divideNodesBinarySearch: nodes<=5, parts<=4, monotone prefix sum < 2^20, weights<=4 (not both 0), all ids in one query" desc="node and edge ranges of consecutive divisions tile [0,numNodes) and [0,numEdges)"
// OB: ob_divide_nodes_scale tier=quick unwind=8 timeout=900 bounds="as above with a symbolic scale-factor vector (entries 0..3, sum>=1), parts<=3" desc="scale-factor division tiles the ranges"
// OB: ob_unit_ranges_prefix tier=quick unwind=8 timeout=900 bounds="determineUnitRangesFromPrefixSum(begin,end): nodes<=5, units<=4, sub-range symbolic" desc="unit ranges over a sub-range: ranges[0]=begin, ranges[units]=end, monotone"
#include "vf.h"
#include "galois/gstl.h"
#include "galois/graphs/GraphHelpers.h"
#include "../../repo/libgalois/src/GraphHelpers.cpp"

namespace {
struct PS { // prefix-sum object
  uint64_t a[8];
  uint64_t operator[](uint64_t i) const { return a[i]; }
  size_t size() const { return 8; }
};

void make_prefix(PS& ps, unsigned n) {
  uint64_t prev = 0;
  for (unsigned i = 0; i < 8; ++i) {
    uint64_t v = vf_nondet_u32();
    vf_assume(v >= prev && v < (1u << 20));
    ps.a[i] = v;
    prev    = v;
  }
  (void)n;
}
} // namespace

OB(block_range_small) {
  uint32_t b = vf_nondet_u32(), e = vf_nondet_u32();
  unsigned num = vf_nondet_u32(), id = vf_nondet_u32();
  vf_assume(b <= e && e - b <= 40 && b < (1u << 30));
  vf_assume(num >= 1 && num <= 8 && id < num);
  auto r = galois::block_range(b, e, id, num);
  VF_CHECK(b <= r.first && r.first <= r.second && r.second <= e);
  if (id == 0) VF_CHECK(r.first == b);
  if (id == num - 1) VF_CHECK(r.second == e);
  if (id + 1 < num) {
    auto s = galois::block_range(b, e, id + 1, num);
    VF_CHECKM(s.first == r.second, "consecutive pieces are adjacent");
  }
}

OB(block_range_iter) {
  static int arr[10];
  unsigned len = vf_nondet_u32(), num = vf_nondet_u32(), id = vf_nondet_u32();
  vf_assume(len <= 9 && num >= 1 && num <= 4 && id < num);
  auto r = galois::block_range(arr + 0, arr + len, id, num);
  auto q = galois::block_range((size_t)0, (size_t)len, id, num);
  VF_CHECK(r.first == arr + q.first && r.second == arr + q.second);
}

OB(corner_case) {
  uint32_t units = vf_nondet_u32(), b = vf_nondet_u32(), e = vf_nondet_u32();
  vf_assume(units >= 1 && units <= 5 && b <= e && e < (1u << 31));
  std::vector<uint32_t> r;
  r.resize(units + 1);
  bool handled = galois::graphs::internal::unitRangeCornerCaseHandle(units, b, e, r);
  if (handled) {
    VF_CHECKM(r[0] == b, "ranges[0] == begin");
    VF_CHECKM(r[units] == e, "ranges[units] == end");
    for (uint32_t i = 0; i < units; ++i) VF_CHECKM(r[i] <= r[i + 1], "ranges monotone");
  } else {
    VF_CHECK(b != e && units != 1 && units <= e - b);
  }
}

static void divide_all(bool withScale) {
  PS ps;
  uint32_t numNodes = vf_nondet_u32();
  unsigned total = vf_nondet_u32();
  size_t nw = vf_nondet_u8(), ew = vf_nondet_u8();
  vf_assume(numNodes <= 5 && total >= 1 && total <= (withScale ? 3u : 4u));
  vf_assume(nw <= 4 && ew <= 4 && (nw != 0 || ew != 0));
  make_prefix(ps, numNodes);
  uint64_t numEdges = numNodes ? ps.a[numNodes - 1] : 0;
  std::vector<unsigned> scale;
  if (withScale) {
    unsigned sum = 0;
    for (unsigned i = 0; i < total; ++i) {
      unsigned s = vf_nondet_u8();
      vf_assume(s <= 3);
      scale.push_back(s);
      sum += s;
    }
    vf_assume(sum >= 1);
  }
  uint64_t nodeCursor = 0, edgeCursor = 0;
  for (unsigned id = 0; id < total; ++id) {
    auto r = galois::graphs::divideNodesBinarySearch<PS, uint32_t>(numNodes, numEdges, nw, ew, id, total, ps, scale, 0, 0);
    uint64_t nl = *r.first.first, nu = *r.first.second, el = *r.second.first, eu = *r.second.second;
    VF_CHECKM(nl <= nu && nu <= numNodes, "node range ordered and inside");
    if (numNodes == 0) continue;
    VF_CHECKM(nl == nodeCursor, "node ranges of consecutive divisions are adjacent (disjoint, in order)");
    nodeCursor = nu;
    if (nl != nu) {
      VF_CHECKM(el == edgeCursor, "edge ranges of consecutive non-empty divisions are adjacent");
      VF_CHECKM(el <= eu && eu <= numEdges, "edge range ordered and inside");
      VF_CHECKM(el == (nl ? ps.a[nl - 1] : 0) && eu == ps.a[nu - 1], "edge range is exactly the edges of the node range");
      edgeCursor = eu;
    }
  }
  if (numNodes) {
    VF_CHECKM(nodeCursor == numNodes, "divisions cover all nodes");
    VF_CHECKM(edgeCursor == numEdges, "divisions cover all edges");
  }
}
OB(divide_nodes) { divide_all(false); }
OB(divide_nodes_scale) { divide_all(true); }

OB(unit_ranges_prefix) {
  PS ps;
  make_prefix(ps, 5);
  uint32_t units = vf_nondet_u32(), b = vf_nondet_u32(), e = vf_nondet_u32(), alpha = vf_nondet_u8();
  vf_assume(units >= 1 && units <= 4 && b <= e && e <= 5 && alpha <= 2);
  std::vector<uint32_t> r = galois::graphs::determineUnitRangesFromPrefixSum(units, ps, b, e, alpha);
  VF_CHECK(r.size() == units + 1);
  VF_CHECKM(r[0] == b, "ranges[0] == begin");
  VF_CHECKM(r[units] == e, "ranges[units] == end");
  for (uint32_t i = 0; i < units; ++i) VF_CHECKM(r[i] <= r[i + 1], "ranges monotone");
}
