// UNIT: id=C13
// ASSUME: prefix sums are arbitrary monotone arrays with entries < 2^10 (so weights cannot overflow 64 bits); the prefix-sum container is a plain array wrapper
// OB: ob_block_range_small tier=quick unwind=10 timeout=600 bounds="block_range<uint32_t>: num<=8 parts, size<=40, all (b,e,id) symbolic; checks A_0=b, B_last=e, B_id=A_{id+1}, monotone" desc="CBMC cross-check of block_range at small widths (full width is decided by the integer back end)"
// OB: ob_block_range_iter tier=quick unwind=10 timeout=600 bounds="block_range<int*>: num<=4 parts, array<=9" desc="iterator overload equals the integer overload"
// OB: ob_corner_case tier=quick unwind=8 timeout=600 params=5 bounds="unitRangeCornerCaseHandle: units 1..5 (one query each), begin<=end<2^31 symbolic" desc="corner-case unit ranges start at begin, end at end, are monotone"
// OB: ob_divide_nodes tier=quick unwind=6 timeout=900 solver=kissat params=4 bounds="divideNodesBinarySearch: nodes<=5, parts 1..4 (one query each), symbolic id (pieces id, id+1), monotone prefix sum < 2^10, weights<=4 (not both 0)" desc="node ranges of consecutive divisions tile [0,numNodes); edge range = edges of node range"
// OB: ob_divide_nodes_scale tier=quick unwind=6 timeout=900 solver=kissat params=4 bounds="as above with a symbolic scale-factor vector (entries 0..3, sum>=1)" desc="scale-factor division tiles the ranges"
// OB: ob_divide_nodes_offsets tier=quick unwind=6 timeout=900 solver=kissat params=4 bounds="as above with symbolic nodeOffset<=2 and the matching edgeOffset (partial prefix sum)" desc="division of a sub-range of a global prefix sum"
// OB: ob_unit_ranges_prefix tier=quick unwind=6 timeout=900 solver=kissat params=4 bounds="determineUnitRangesFromPrefixSum(begin,end): nodes<=5, units 1..4 (one query each), sub-range symbolic" desc="unit ranges over a sub-range: ranges[0]=begin, ranges[units]=end, monotone"
// SMT: name=block_range_u64 kernel=k_block_range_u64 spec=C13_block_range_u64.smt2 tier=quick bounds="block_range<uint64_t>: ALL b<=e<2^64, 1<=num<2^32, id<num with (e-b)+2*num < 2^64 (the overflow threshold; the side obligations prove no multiplication wraps below it)" desc="pieces id and id+1 adjacent, first starts at b, last ends at e, all inside [b,e] -- full width, integer back end"
// SMT: name=block_range_u32 kernel=k_block_range_u32 spec=C13_block_range_u32.smt2 tier=quick bounds="block_range<uint32_t>: ALL b<=e<2^32, 1<=num, id<num with (e-b)+2*num < 2^32" desc="same statement for 32-bit integers"
#include "vf.h"
#include "galois/gstl.h"
#include "galois/graphs/GraphHelpers.h"
#include "../src/GraphHelpers.cpp"

extern "C" __attribute__((noinline)) void k_block_range_u64(uint64_t b, uint64_t e, unsigned id, unsigned num, uint64_t* A, uint64_t* B) {
  auto r = galois::block_range(b, e, id, num);
  *A = r.first;
  *B = r.second;
}
extern "C" __attribute__((noinline)) void k_block_range_u32(uint32_t b, uint32_t e, unsigned id, unsigned num, uint32_t* A, uint32_t* B) {
  auto r = galois::block_range(b, e, id, num);
  *A = r.first;
  *B = r.second;
}

#ifndef VF_PS_MAX
#define VF_PS_MAX (1u << 10)
#endif
namespace {
struct PS { // prefix-sum object
  uint64_t a[8];
  uint64_t operator[](uint64_t i) const { return a[i]; }
  size_t size() const { return 8; }
};

void make_prefix(PS& ps, unsigned n) {
  uint64_t prev = 0;
  for (unsigned i = 0; i < 5; ++i) {
    uint64_t v = vf_nondet_u32();
    vf_assume(v >= prev && v < VF_PS_MAX);
    ps.a[i] = v;
    prev    = v;
  }
  (void)n;
}
} // namespace

OB(block_range_small) {
  uint32_t b = vf_nondet_u32(), e = vf_nondet_u32();
  unsigned num = vf_nondet_u32(), id = vf_nondet_u32();
  vf_assume(b <= e && e - b <= 40 && b < (1u << 30));
  vf_assume(num >= 1 && num <= 8 && id < num);
  auto r = galois::block_range(b, e, id, num);
  VF_CHECK(b <= r.first && r.first <= r.second && r.second <= e);
  if (id == 0) VF_CHECK(r.first == b);
  if (id == num - 1) VF_CHECK(r.second == e);
  if (id + 1 < num) {
    auto s = galois::block_range(b, e, id + 1, num);
    VF_CHECKM(s.first == r.second, "consecutive pieces are adjacent");
  }
}

OB(block_range_iter) {
  static int arr[10];
  unsigned len = vf_nondet_u32(), num = vf_nondet_u32(), id = vf_nondet_u32();
  vf_assume(len <= 9 && num >= 1 && num <= 4 && id < num);
  auto r = galois::block_range(arr + 0, arr + len, id, num);
  auto q = galois::block_range((size_t)0, (size_t)len, id, num);
  VF_CHECK(r.first == arr + q.first && r.second == arr + q.second);
}

OB(corner_case) {
  uint32_t units = vf_param(0) + 1, b = vf_nondet_u32(), e = vf_nondet_u32();
  vf_assume(b <= e && e < (1u << 31));
  std::vector<uint32_t> r;
  r.resize(units + 1);
  bool handled = galois::graphs::internal::unitRangeCornerCaseHandle(units, b, e, r);
  if (handled) {
    VF_CHECKM(r[0] == b, "ranges[0] == begin");
    VF_CHECKM(r[units] == e, "ranges[units] == end");
    for (uint32_t i = 0; i < units; ++i) VF_CHECKM(r[i] <= r[i + 1], "ranges monotone");
  } else {
    VF_CHECK(b != e && units != 1 && units <= e - b);
  }
}

struct DivOut { uint64_t nl, nu, el, eu; };
static DivOut call_divide(PS& ps, uint32_t numNodes, uint64_t numEdges, size_t nw, size_t ew, size_t id, size_t total,
                          const unsigned* scale, unsigned nscale, uint64_t eoff, uint64_t noff) {
  std::vector<unsigned> sf;
  for (unsigned i = 0; i < nscale; ++i) sf.push_back(scale[i]);
  auto r = galois::graphs::divideNodesBinarySearch<PS, uint32_t>(numNodes, numEdges, nw, ew, id, total, ps, sf, eoff, noff);
  return DivOut{*r.first.first, *r.first.second, *r.second.first, *r.second.second};
}

// Symbolic division index: pieces id and id+1 are adjacent, piece 0 starts at 0, the last piece ends at numNodes,
// and the edge range of a non-empty piece is exactly the edges of its nodes.  By induction over id this is the
// disjoint in-order cover of [0,numNodes) and [0,numEdges) for every part count within the bound.
static void divide_step(bool withScale, bool withOffsets) {
  PS ps;
  uint32_t numNodes = vf_nondet_u32();
  unsigned total = vf_param(0) + 1, id = vf_nondet_u32();
  size_t nw = vf_nondet_u8(), ew = vf_nondet_u8();
  uint32_t noff = withOffsets ? vf_nondet_u8() : 0;
  vf_assume(numNodes <= 5 && noff <= 2 && numNodes + noff <= 5 && id < total);
  vf_assume(nw <= 4 && ew <= 4 && (nw != 0 || ew != 0));
  make_prefix(ps, 5);
  uint64_t eoff = noff ? ps.a[noff - 1] : 0;
  uint64_t numEdges = numNodes ? ps.a[numNodes + noff - 1] - eoff : 0;
  unsigned scale[4];
  unsigned nscale = 0;
  if (withScale) {
    unsigned sum = 0;
    for (unsigned i = 0; i < 4; ++i) {
      scale[i] = vf_nondet_u8();
      vf_assume(scale[i] <= 3);
      if (i < total) sum += scale[i];
    }
    vf_assume(sum >= 1);
    nscale = total;
  }
  DivOut r = call_divide(ps, numNodes, numEdges, nw, ew, id, total, scale, nscale, eoff, noff);
  VF_CHECKM(r.nl <= r.nu && r.nu <= numNodes, "node range ordered and inside [0,numNodes]");
  if (numNodes == 0) return;
  if (id == 0) VF_CHECKM(r.nl == 0, "first division starts at node 0");
  if (id == total - 1) VF_CHECKM(r.nu == numNodes, "last division ends at numNodes");
  if (r.nl != r.nu) {
    uint64_t lo = (r.nl + noff) ? ps.a[r.nl + noff - 1] - eoff : 0;
    VF_CHECKM(r.el == lo && r.eu == ps.a[r.nu + noff - 1] - eoff, "edge range is exactly the edges of the node range");
    VF_CHECKM(r.el <= r.eu && r.eu <= numEdges, "edge range ordered and inside [0,numEdges]");
  }
  if (id + 1 < total) {
    DivOut q = call_divide(ps, numNodes, numEdges, nw, ew, id + 1, total, scale, nscale, eoff, noff);
    VF_CHECKM(q.nl == r.nu, "consecutive divisions are adjacent (disjoint, in order, no gap)");
  }
}
OB(divide_nodes) { divide_step(false, false); }
OB(divide_nodes_scale) { divide_step(true, false); }
OB(divide_nodes_offsets) { divide_step(false, true); }

OB(unit_ranges_prefix) {
  PS ps;
  make_prefix(ps, 5);
  uint32_t units = vf_param(0) + 1, b = vf_nondet_u32(), e = vf_nondet_u32(), alpha = vf_nondet_u8();
  vf_assume(b <= e && e <= 5 && alpha <= 2);
  std::vector<uint32_t> r = galois::graphs::determineUnitRangesFromPrefixSum(units, ps, b, e, alpha);
  VF_CHECK(r.size() == units + 1);
  VF_CHECKM(r[0] == b, "ranges[0] == begin");
  VF_CHECKM(r[units] == e, "ranges[units] == end");
  for (uint32_t i = 0; i < units; ++i) VF_CHECKM(r[i] <= r[i + 1], "ranges monotone");
}
