// UNIT: id=C19 include="libcusp/include"
// ASSUME: GenericPartitioners.h and BasePolicies.h are the real headers; their include of libcusp DistributedGraph.h (MPI, boost::archive, file I/O, the whole runtime) is cut by pre-defining its include guard; the harness supplies declarations only for the names the policy classes mention (BufferedGraph forward declaration, boost::archive stand-ins used by the never-called serializePartition, empty gPrint/gDebug)
// ASSUME: gid2host is an arbitrary partition of [0,N) into H contiguous, possibly empty, blocks in host order (what the C13 division functions produce); gids passed to the policies are < N
// ASSUME: sqrt is only reached as sqrt((double)numHosts); model = table of the correctly rounded IEEE results for the integers 0..16 (C19_policies_stubs.h), libm natively; any other argument is reported as a bound violation
// OB: ob_read_master tier=quick solver=cadical unwind=6 timeout=120 params=4 bounds="ReadMasterAssignment::retrieveMaster: H=1..4 hosts (one query each), N<=2^32-1 symbolic, symbolic block boundaries, symbolic gid<N" desc="every gid has exactly one master, it is < H and is the host whose read block contains the gid"
// OB: ob_owner_nocomm_hvc tier=quick solver=cadical unwind=6 timeout=120 params=4 bounds="NoCommunication and GenericHVC getEdgeOwner: H=1..4, symbolic partition, symbolic src,dst<N, symbolic out-degree" desc="owner < H; edge-cut owner is master(src) (only masters own out-edges); hybrid cut owner is master(dst) above the degree threshold 1000, master(src) otherwise"
// OB: ob_owner_cvc tier=quick solver=cadical unwind=6 timeout=180 params=4,4 bounds="GenericCVC getEdgeOwner: H=1..4, hostID=0..H-1 (one query per pair), symbolic partition and dst" desc="owner < H, owner lies in the grid row of the calling host and in the grid column of master(dst); rows*cols == H"
// OB: ob_owner_cvc_flip tier=quick solver=cadical unwind=6 timeout=180 params=4,4 bounds="GenericCVCColumnFlip getEdgeOwner: H=1..4, hostID=0..H-1, symbolic partition and dst" desc="as ob_owner_cvc for the column-flipped grid"
// OB: ob_factorize tier=quick solver=cadical unwind=8 timeout=180 params=16 bounds="GenericCVC/GenericCVCColumnFlip factorizeHosts: H=1..16 (one query each), symbolic hostID<H" desc="rows*cols == H, rows >= cols (cols >= rows when flipped), grid row/column of every host inside the grid, isVertexCut as documented"
#include "vf.h"
#include <cstdint>
#include <cstddef>
#include <cassert>
#include <cmath>
#include <tuple>
#include <vector>
#include <unordered_map>
#include "galois/AtomicWrapper.h"
#include "galois/AtomicHelpers.h"
#include "galois/PODResizeableArray.h"

// ---- the cut: everything DistributedGraph.h would have brought in, reduced to the names the policies mention
#define _GALOIS_DIST_HGRAPH_H_
namespace boost {
namespace archive {
struct binary_oarchive {
  template <typename T>
  binary_oarchive& operator<<(const T&) { return *this; }
};
struct binary_iarchive {
  template <typename T>
  binary_iarchive& operator>>(T&) { return *this; }
};
} // namespace archive
} // namespace boost
namespace galois {
template <typename... A>
void gPrint(A&&...) {}
template <typename... A>
void gDebug(A&&...) {}
template <typename... A>
void gDie_stub(A&&...) { abort(); }
namespace graphs {
template <typename EdgeTy>
class BufferedGraph;
}
} // namespace galois
#define GALOIS_DIE(...) galois::gDie_stub(__VA_ARGS__)
#include "galois/graphs/GenericPartitioners.h"

namespace {
constexpr unsigned MAXH = 4;

// symbolic contiguous partition of [0,N) into H blocks; returns N
uint64_t make_partition(std::vector<std::pair<uint64_t, uint64_t>>& g, unsigned H, uint64_t* bound) {
  uint64_t N = vf_nondet_u32();
  uint64_t prev = 0;
  bound[0]      = 0;
  for (unsigned h = 0; h < H; ++h) {
    uint64_t e = (h + 1 == H) ? N : (uint64_t)vf_nondet_u32();
    vf_assume(e >= prev && e <= N);
    g.push_back(std::make_pair(prev, e));
    prev         = e;
    bound[h + 1] = e;
  }
  return N;
}

// model: the unique h with bound[h] <= gid < bound[h+1]
unsigned model_master(const uint64_t* bound, unsigned H, uint64_t gid) {
  unsigned m = H, cnt = 0;
  for (unsigned h = 0; h < H; ++h)
    if (gid >= bound[h] && gid < bound[h + 1]) {
      m = h;
      ++cnt;
    }
  VF_CHECKM(cnt == 1, "exactly one read block contains the gid");
  return m;
}
} // namespace

OB(read_master) {
  unsigned H = vf_param(0) + 1;
  std::vector<std::pair<uint64_t, uint64_t>> g;
  uint64_t bound[MAXH + 1];
  uint64_t N = make_partition(g, H, bound);
  galois::graphs::ReadMasterAssignment p(vf_nondet_u32() % H, H, N, vf_nondet_u64());
  p.saveGIDToHost(g);
  uint32_t gid = vf_nondet_u32();
  vf_assume(gid < N);
  uint32_t m = p.retrieveMaster(gid);
  VF_CHECKM(m < H, "master is a valid host");
  VF_CHECKM(m == model_master(bound, H, gid), "master is the host whose block contains the gid");
  // uniqueness: no other host's block contains it
  for (unsigned h = 0; h < H; ++h)
    if (h != m) VF_CHECKM(!(gid >= g[h].first && gid < g[h].second), "no second master");
}

OB(owner_nocomm_hvc) {
  unsigned H = vf_param(0) + 1;
  std::vector<std::pair<uint64_t, uint64_t>> g;
  uint64_t bound[MAXH + 1];
  uint64_t N    = make_partition(g, H, bound);
  uint32_t host = vf_nondet_u32() % H;
  uint32_t src = vf_nondet_u32(), dst = vf_nondet_u32();
  uint64_t deg = vf_nondet_u64();
  vf_assume(src < N && dst < N);
  {
    NoCommunication p(host, H, N, vf_nondet_u64());
    p.saveGIDToHost(g);
    uint32_t o = p.getEdgeOwner(src, dst, deg);
    VF_CHECKM(o < H, "owner is a valid host");
    VF_CHECKM(o == model_master(bound, H, src), "edge cut: the owner of an edge is the master of its source");
    VF_CHECK(p.noCommunication() && !p.isVertexCut());
  }
  {
    GenericHVC p(host, H, N, vf_nondet_u64());
    p.saveGIDToHost(g);
    uint32_t o = p.getEdgeOwner(src, dst, deg);
    VF_CHECKM(o < H, "owner is a valid host");
    VF_CHECKM(o == model_master(bound, H, deg > 1000 ? dst : src), "hybrid cut: master(dst) above the threshold, master(src) otherwise");
  }
}

template <typename P, bool FLIP>
static void cvc_owner() {
  unsigned H = vf_param(0) + 1, host = vf_param(1);
  vf_assume(host < H);
  std::vector<std::pair<uint64_t, uint64_t>> g;
  uint64_t bound[MAXH + 1];
  uint64_t N = make_partition(g, H, bound);
  P p(host, H, N, vf_nondet_u64());
  p.saveGIDToHost(g);
  auto grid     = p.cartesianGrid();
  unsigned rows = grid.first, cols = grid.second;
  VF_CHECKM(rows * cols == H && rows >= 1 && cols >= 1, "grid covers all hosts");
  uint32_t src = vf_nondet_u32(), dst = vf_nondet_u32();
  vf_assume(src < N && dst < N);
  uint32_t o = p.getEdgeOwner(src, dst, vf_nondet_u64());
  VF_CHECKM(o < H, "owner is a valid host");
  VF_CHECKM(o / cols == host / cols, "owner is in the grid row of the host that read the edge");
  VF_CHECKM(o % cols == model_master(bound, H, dst) % cols, "owner is in the grid column of master(dst)");
}
OB(owner_cvc) { cvc_owner<GenericCVC, false>(); }
OB(owner_cvc_flip) { cvc_owner<GenericCVCColumnFlip, true>(); }

OB(factorize) {
  unsigned H    = vf_param(0) + 1;
  unsigned host = vf_nondet_u32();
  vf_assume(host < H);
  {
    GenericCVC p(host, H, vf_nondet_u32(), vf_nondet_u64());
    auto grid = p.cartesianGrid();
    VF_CHECKM(grid.first * grid.second == H, "rows*cols == numHosts");
    VF_CHECKM(grid.first >= grid.second && grid.second >= 1, "rows >= cols >= 1");
    VF_CHECK(p.gridRowID() < grid.first && p.gridColumnID() < grid.second);
    VF_CHECK(p._h_offset + grid.second <= H);
    VF_CHECK(p.isVertexCut() == (grid.first != 1 && grid.second != 1));
  }
  {
    GenericCVCColumnFlip p(host, H, vf_nondet_u32(), vf_nondet_u64());
    auto grid = p.cartesianGrid();
    VF_CHECKM(grid.first * grid.second == H, "rows*cols == numHosts (flipped)");
    VF_CHECKM(grid.second >= grid.first && grid.first >= 1, "cols >= rows >= 1 (flipped)");
    VF_CHECK(p.gridRowID() < grid.first && p.gridColumnID() < grid.second);
    VF_CHECK(p._h_offset + grid.second <= H);
    VF_CHECK(p.isVertexCut() == !(grid.first == 1 && grid.second == 1));
  }
}
