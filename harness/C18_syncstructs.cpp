// UNIT: id=C18 include="libgluon/include libdist/include"
// ASSUME: FRAGMENT: only the per-field reduction algebra of SyncStructures.h (non-GPU macro bodies) is decided. The sync ORCHESTRATION is an abstract loop written in the harness after GluonSubstrate::extractWrapper<syncReduce> / reduce / broadcast: every written mirror extracts its value and is reset, the master reduces the received values in an arbitrary (symbolic) arrival order, the master's value is broadcast with setVal to every mirror. Which halves a partitioning policy may skip, the wire encodings, the update-bitset bookkeeping and asynchronous mode are NOT covered.
// ASSUME: one node with H<=3 proxies (proxy 0 = master, proxies 1..H-1 = mirrors on distinct hosts); each proxy has its own NodeData (node-field families) or its own slot of the global field array (the _ARRAY families)
// ASSUME: integer add is modular (uint32_t / uint64_t), so the sum is order independent; floating-point add is not examined (order dependent by nature); pair-wise average is examined for a single contribution only (not associative by design)
// ASSUME: enforcedDataMode (a global defined in GluonSubstrate.cpp) is defined by the harness; get_data_mode is examined with enforcedDataMode == noData (no enforced mode) and with an enforced mode
// OB: ob_sync_add_u32 tier=quick unwind=5 timeout=120 bounds="GALOIS_SYNC_STRUCTURE_REDUCE_ADD on uint32_t and on std::atomic<uint32_t> fields; H in 1..3 symbolic, old values, written flags, arrival order symbolic" desc="master = old master + sum of exactly the written mirrors; written mirrors reset to 0 (identity: re-reducing them changes nothing); all proxies equal the master after broadcast; a second sync with no writes changes nothing"
// OB: ob_sync_min tier=quick unwind=5 timeout=120 bounds="GALOIS_SYNC_STRUCTURE_REDUCE_MIN on int32_t, uint64_t and std::atomic<uint32_t> fields; H in 1..3" desc="master = min(old master, written mirrors); reduce() returns true iff the master changed; re-reducing changes nothing; second sync with arbitrary flags and no new writes changes nothing"
// OB: ob_sync_max tier=quick unwind=5 timeout=120 bounds="GALOIS_SYNC_STRUCTURE_REDUCE_MAX on int32_t, uint64_t and std::atomic<uint32_t> fields; H in 1..3" desc="master = max(old master, written mirrors); reduce() returns true iff the master changed"
// OB: ob_sync_set tier=quick unwind=5 timeout=120 bounds="GALOIS_SYNC_STRUCTURE_REDUCE_SET on uint32_t and double fields; H in 1..3" desc="master = value of the last arriving written mirror (its own old value if none was written); all proxies equal it after broadcast; second sync with no new writes changes nothing"
// OB: ob_sync_arrays tier=quick unwind=5 timeout=120 bounds="GALOIS_SYNC_STRUCTURE_REDUCE_{ADD,SET,MIN}_ARRAY on a global uint32_t field array indexed by local id; H in 1..3; proxy local ids symbolic distinct in 0..3" desc="the _ARRAY families obey the same laws and touch only the addressed slot"
// OB: ob_sync_pairwise_add tier=quick unwind=5 timeout=120 bounds="GALOIS_SYNC_STRUCTURE_REDUCE_PAIR_WISE_ADD_ARRAY on std::array<uint32_t,2>; H in 1..3, old values, flags, order symbolic" desc="element-wise add obeys the add laws per element; reset zeroes every element"
// OB: ob_sync_pairwise_avg tier=quick unwind=5 timeout=120 solver=cadical bounds="GALOIS_SYNC_STRUCTURE_REDUCE_PAIR_WISE_AVG_ARRAY on std::array<double,2>: master and ONE contribution, values = all integers in [-2^15,2^15) as doubles (symbolic IEEE division is the cost driver)" desc="average of master and one contribution is (a+b)/2.0 per element (same IEEE expression); reset zeroes every element; setVal copies bit-exactly"
// OB: ob_sync_edges tier=quick unwind=5 timeout=120 bounds="GALOIS_SYNC_STRUCTURE_ADD_EDGES on uint32_t edge data; H in 1..3" desc="edge add-reduction obeys the add laws"
// OB: ob_bitvector_status tier=quick unwind=3 timeout=60 bounds="all 4 BITVECTOR_STATUS values; FieldFlags setters/clearers in a symbolic sequence of 3 calls" desc="make_src_invalid/make_dst_invalid set exactly their half and never clear the other; src_invalid/dst_invalid decode it; FieldFlags read-flags equal a 4-boolean model"
// OB: ob_data_mode tier=quick unwind=3 timeout=120 bounds="get_data_mode<uint32_t>, <uint64_t>, <uint8_t>: num_selected <= num_total < 2^32 symbolic" desc="noData iff nothing selected, onlyData iff everything selected, otherwise the encoding with the smaller size formula (offsets on a tie); the size formulas do not overflow; an enforced mode is returned unchanged"
#include "vf.h"
#include <array>
#include <atomic>
#include <cstring>
#include "galois/config.h"
#include "galois/runtime/SyncStructures.h"
#include "../src/SyncStructures.cpp" // resolved through -I<repo>/libgluon/include

DataCommMode enforcedDataMode = noData;

struct NodeData {
  uint32_t add32;
  std::atomic<uint32_t> add32a;
  int32_t min32;
  uint64_t min64;
  std::atomic<uint32_t> min32a;
  int32_t max32;
  uint64_t max64;
  std::atomic<uint32_t> max32a;
  uint32_t set32;
  double setd;
  std::array<uint32_t, 2> pwadd;
  std::array<double, 2> pwavg;
};

// global field arrays for the _ARRAY families (indexed by local id)
static uint32_t arr_add[4];
static uint32_t arr_set[4];
static uint32_t arr_min[4];

GALOIS_SYNC_STRUCTURE_REDUCE_ADD(add32, uint32_t);
GALOIS_SYNC_STRUCTURE_REDUCE_ADD(add32a, uint32_t);
GALOIS_SYNC_STRUCTURE_REDUCE_MIN(min32, int32_t);
GALOIS_SYNC_STRUCTURE_REDUCE_MIN(min64, uint64_t);
GALOIS_SYNC_STRUCTURE_REDUCE_MIN(min32a, uint32_t);
GALOIS_SYNC_STRUCTURE_REDUCE_MAX(max32, int32_t);
GALOIS_SYNC_STRUCTURE_REDUCE_MAX(max64, uint64_t);
GALOIS_SYNC_STRUCTURE_REDUCE_MAX(max32a, uint32_t);
GALOIS_SYNC_STRUCTURE_REDUCE_SET(set32, uint32_t);
GALOIS_SYNC_STRUCTURE_REDUCE_SET(setd, double);
GALOIS_SYNC_STRUCTURE_REDUCE_ADD_ARRAY(arr_add, uint32_t);
GALOIS_SYNC_STRUCTURE_REDUCE_SET_ARRAY(arr_set, uint32_t);
GALOIS_SYNC_STRUCTURE_REDUCE_MIN_ARRAY(arr_min, uint32_t);
typedef std::array<uint32_t, 2> U32x2;
typedef std::array<double, 2> F64x2;
GALOIS_SYNC_STRUCTURE_REDUCE_PAIR_WISE_ADD_ARRAY(pwadd, U32x2);
GALOIS_SYNC_STRUCTURE_REDUCE_PAIR_WISE_AVG_ARRAY(pwavg, F64x2);
GALOIS_SYNC_STRUCTURE_ADD_EDGES(uint32_t);

namespace {
constexpr unsigned MAXH = 3;
NodeData P[4]; // proxy storage; proxy h uses local id lid[h] (node-field families ignore the id)
unsigned lid[MAXH];

template <typename T>
T nd();
template <>
uint32_t nd<uint32_t>() { return vf_nondet_u32(); }
template <>
int32_t nd<int32_t>() { return (int32_t)vf_nondet_u32(); }
template <>
uint64_t nd<uint64_t>() { return vf_nondet_u64(); }
template <>
double nd<double>() {
  uint64_t b = vf_nondet_u64();
  double d;
  std::memcpy(&d, &b, 8);
  vf_assume(d == d);
  return d;
}

enum Kind { ADD, MIN, MAX, SET };

template <Kind K, typename V>
V model(V acc, V y) {
  switch (K) {
  case ADD: return (V)(acc + y);
  case MIN: return y < acc ? y : acc;
  case MAX: return y > acc ? y : acc;
  case SET: return y;
  }
  return acc;
}

// field accessors (the oracle reads and writes the storage directly, never through the sync structure)
#define FIELD_ACC(NAME, FIELD, V)                                                                                      \
  struct NAME {                                                                                                        \
    static V get(unsigned h) { return (V)P[lid[h]].FIELD; }                                                            \
    static void put(unsigned h, V v) { P[lid[h]].FIELD = v; }                                                          \
  }
#define ARRAY_ACC(NAME, ARR, V)                                                                                        \
  struct NAME {                                                                                                        \
    static V get(unsigned h) { return ARR[lid[h]]; }                                                                   \
    static void put(unsigned h, V v) { ARR[lid[h]] = v; }                                                              \
  }
FIELD_ACC(AccAdd32, add32, uint32_t);
FIELD_ACC(AccAdd32a, add32a, uint32_t);
FIELD_ACC(AccMin32, min32, int32_t);
FIELD_ACC(AccMin64, min64, uint64_t);
FIELD_ACC(AccMin32a, min32a, uint32_t);
FIELD_ACC(AccMax32, max32, int32_t);
FIELD_ACC(AccMax64, max64, uint64_t);
FIELD_ACC(AccMax32a, max32a, uint32_t);
FIELD_ACC(AccSet32, set32, uint32_t);
FIELD_ACC(AccSetd, setd, double);
ARRAY_ACC(AccArrAdd, arr_add, uint32_t);
ARRAY_ACC(AccArrSet, arr_set, uint32_t);
ARRAY_ACC(AccArrMin, arr_min, uint32_t);

void pick_lids(bool symbolic) {
  for (unsigned h = 0; h < MAXH; ++h) lid[h] = h;
  if (symbolic) {
    for (unsigned h = 0; h < MAXH; ++h) {
      lid[h] = vf_nondet_u8();
      vf_assume(lid[h] < 4);
    }
    vf_assume(lid[0] != lid[1] && lid[0] != lid[2] && lid[1] != lid[2]);
  }
}

// One abstract sync of one node over H proxies.  wr[m]: mirror m was written since the last sync.
// Returns through *expect the oracle value.  Checks the master after the reduce phase and every proxy after broadcast.
template <typename Fn, typename Acc, Kind K>
void sync_once(unsigned H, const bool* wr, bool swapOrder, bool checkIdentity) {
  typedef typename Fn::ValTy V;
  V old[MAXH], msg[MAXH];
  for (unsigned h = 0; h < MAXH; ++h) old[h] = Acc::get(h);
  // mirrors: extract then reset (GluonSubstrate::extractWrapper<FnTy, syncReduce>)
  for (unsigned m = 1; m < MAXH; ++m)
    if (m < H && wr[m]) {
      msg[m] = Fn::extract(lid[m], P[lid[m]]);
      VF_CHECKM(msg[m] == old[m], "extract returns the proxy's field value");
      Fn::reset(lid[m], P[lid[m]]);
      if (K == ADD)
        VF_CHECKM(Acc::get(m) == (V)0, "add: a sent mirror is reset to 0");
      else
        VF_CHECKM(Acc::get(m) == old[m], "min/max/set: reset leaves the mirror's value");
      if (Fn::reset_batch(0, 0)) VF_CHECKM(Acc::get(m) == old[m], "reset_batch()==true (per-element reset skipped by Gluon) is only right if reset is a no-op");
    }
  // master: reduce in arrival order
  V expect = old[0];
  for (unsigned k = 1; k < MAXH; ++k) {
    unsigned m = swapOrder ? MAXH - k : k;
    if (m < H && wr[m]) {
      V before     = Acc::get(0);
      bool changed = Fn::reduce(lid[0], P[lid[0]], msg[m]);
      expect       = model<K, V>(expect, old[m]);
      if (!changed) VF_CHECKM(Acc::get(0) == before, "reduce() returned false although the master changed (its update bit would be lost)");
      if (K == MIN || K == MAX) VF_CHECKM(changed == (Acc::get(0) != before), "min/max: reduce() returns true iff the master changed");
    }
  }
  VF_CHECKM(Acc::get(0) == expect, "master = reduction of its old value and exactly the written mirrors");
  for (unsigned m = 1; m < MAXH; ++m)
    if (!(m < H && wr[m])) VF_CHECKM(Acc::get(m) == old[m], "an unwritten mirror (or a proxy outside the sync) is untouched by the reduce phase");
  if (checkIdentity && K != SET) {
    // the reset value is the identity: reducing the (reset, not rewritten) mirrors once more changes nothing
    for (unsigned m = 1; m < MAXH; ++m)
      if (m < H && wr[m]) {
        Fn::reduce(lid[0], P[lid[0]], Fn::extract(lid[m], P[lid[m]]));
        VF_CHECKM(Acc::get(0) == expect, "re-reducing a mirror that was reset and not rewritten changes the master (reset value is not the identity)");
      }
  }
  // broadcast
  V v = Fn::extract(lid[0], P[lid[0]]);
  for (unsigned m = 1; m < MAXH; ++m)
    if (m < H) Fn::setVal(lid[m], P[lid[m]], v);
  for (unsigned h = 0; h < MAXH; ++h) {
    if (h < H)
      VF_CHECKM(Acc::get(h) == expect, "after broadcast every proxy holds the reduced value");
    else
      VF_CHECKM(Acc::get(h) == old[h], "storage outside the synchronised proxies is untouched");
  }
}

template <typename Fn, typename Acc, Kind K>
void sync_family(bool symbolicLids) {
  typedef typename Fn::ValTy V;
  pick_lids(symbolicLids);
  unsigned H = vf_range(1, MAXH);
  bool wr[MAXH];
  for (unsigned h = 0; h < MAXH; ++h) {
    Acc::put(h, nd<V>());
    wr[h] = h > 0 && vf_nondet_bool();
  }
  sync_once<Fn, Acc, K>(H, wr, vf_nondet_bool(), true);
  // second sync, nothing written in between.  For idempotent reductions the flags may be arbitrary (stale update
  // bits are harmless); for add only "no flags" is meaningful.
  bool wr2[MAXH];
  for (unsigned h = 0; h < MAXH; ++h) wr2[h] = (K != ADD) && h > 0 && vf_nondet_bool();
  V snap[MAXH];
  for (unsigned h = 0; h < MAXH; ++h) snap[h] = Acc::get(h);
  sync_once<Fn, Acc, K>(H, wr2, vf_nondet_bool(), false);
  for (unsigned h = 0; h < MAXH; ++h) VF_CHECKM(Acc::get(h) == snap[h], "a second sync without new writes changes nothing");
  // the batch entry points of the non-GPU build all decline
  VF_CHECK(!Fn::extract_batch(0, (uint8_t*)0) && !Fn::extract_reset_batch(0, (uint8_t*)0) && !Fn::reduce_batch(0, (uint8_t*)0, onlyData) &&
           !Fn::reduce_mirror_batch(0, (uint8_t*)0, onlyData) && !Fn::setVal_batch(0, (uint8_t*)0, onlyData));
}
} // namespace

OB(sync_add_u32) {
  sync_family<Reduce_add_add32, AccAdd32, ADD>(false);
  sync_family<Reduce_add_add32a, AccAdd32a, ADD>(false);
}
OB(sync_min) {
  sync_family<Reduce_min_min32, AccMin32, MIN>(false);
  sync_family<Reduce_min_min64, AccMin64, MIN>(false);
  sync_family<Reduce_min_min32a, AccMin32a, MIN>(false);
}
OB(sync_max) {
  sync_family<Reduce_max_max32, AccMax32, MAX>(false);
  sync_family<Reduce_max_max64, AccMax64, MAX>(false);
  sync_family<Reduce_max_max32a, AccMax32a, MAX>(false);
}
OB(sync_set) {
  sync_family<Reduce_set_set32, AccSet32, SET>(false);
  sync_family<Reduce_set_setd, AccSetd, SET>(false);
}
OB(sync_arrays) {
  sync_family<Reduce_add_arr_add, AccArrAdd, ADD>(true);
  sync_family<Reduce_set_arr_set, AccArrSet, SET>(true);
  sync_family<Reduce_min_arr_min, AccArrMin, MIN>(true);
}

OB(sync_pairwise_add) {
  pick_lids(false);
  { // element-wise add over H proxies
    typedef Reduce_pair_wise_add_array_pwadd Fn;
    unsigned H = vf_range(1, MAXH);
    bool wr[MAXH];
    U32x2 old[MAXH], msg[MAXH];
    for (unsigned h = 0; h < MAXH; ++h) {
      old[h][0] = vf_nondet_u32();
      old[h][1] = vf_nondet_u32();
      P[h].pwadd = old[h];
      wr[h]      = h > 0 && h < H && vf_nondet_bool();
    }
    for (unsigned m = 1; m < MAXH; ++m)
      if (wr[m]) {
        msg[m] = Fn::extract(m, P[m]);
        Fn::reset(m, P[m]);
        VF_CHECKM(P[m].pwadd[0] == 0 && P[m].pwadd[1] == 0, "pair-wise add: reset zeroes every element");
      }
    U32x2 expect  = old[0];
    bool swapOrder = vf_nondet_bool();
    for (unsigned k = 1; k < MAXH; ++k) {
      unsigned m = swapOrder ? MAXH - k : k;
      if (wr[m]) {
        VF_CHECK(Fn::reduce(0, P[0], msg[m]));
        expect[0] += old[m][0];
        expect[1] += old[m][1];
      }
    }
    VF_CHECKM(P[0].pwadd == expect, "pair-wise add: master = element-wise sum of old master and the written mirrors");
    for (unsigned m = 1; m < MAXH; ++m)
      if (wr[m]) {
        Fn::reduce(0, P[0], Fn::extract(m, P[m]));
        VF_CHECKM(P[0].pwadd == expect, "pair-wise add: re-reducing a reset mirror changes nothing");
      }
    U32x2 v = Fn::extract(0, P[0]);
    for (unsigned m = 1; m < H; ++m) Fn::setVal(m, P[m], v);
    for (unsigned h = 0; h < MAXH; ++h) VF_CHECKM(P[h].pwadd == (h < H ? expect : old[h]), "pair-wise add: all proxies equal after broadcast");
  }
}

OB(sync_pairwise_avg) {
  pick_lids(false);
  { // pair-wise average: one contribution
    typedef Reduce_pair_wise_avg_array_pwavg Fn;
    F64x2 a, b;
    for (unsigned i = 0; i < 2; ++i) {
      a[i] = (double)(int16_t)vf_nondet_u16();
      b[i] = (double)(int16_t)vf_nondet_u16();
    }
    P[0].pwavg = a;
    P[1].pwavg = b;
    F64x2 msg  = Fn::extract(1, P[1]);
    Fn::reset(1, P[1]);
    VF_CHECKM(P[1].pwavg[0] == 0.0 && P[1].pwavg[1] == 0.0, "pair-wise average: reset zeroes every element");
    VF_CHECK(Fn::reduce(0, P[0], msg));
    for (unsigned i = 0; i < 2; ++i) {
      double e = (a[i] + b[i]) / 2.0;
      VF_CHECKM(P[0].pwavg[i] == e || (e != e && P[0].pwavg[i] != P[0].pwavg[i]), "pair-wise average: element i is (master_i + mirror_i)/2");
    }
    Fn::setVal(1, P[1], Fn::extract(0, P[0]));
    for (unsigned i = 0; i < 2; ++i) VF_CHECK(std::memcmp(&P[1].pwavg[i], &P[0].pwavg[i], 8) == 0);
  }
}

OB(sync_edges) {
  typedef EdgeAddReduce Fn;
  unsigned H = vf_range(1, MAXH);
  uint32_t e[MAXH], old[MAXH], msg[MAXH];
  bool wr[MAXH];
  for (unsigned h = 0; h < MAXH; ++h) {
    old[h] = e[h] = vf_nondet_u32();
    wr[h]         = h > 0 && h < H && vf_nondet_bool();
  }
  for (unsigned m = 1; m < MAXH; ++m)
    if (wr[m]) {
      msg[m] = Fn::extract(m, e[m]);
      Fn::reset(m, e[m]);
      VF_CHECK(e[m] == 0);
    }
  uint32_t expect = old[0];
  bool swapOrder  = vf_nondet_bool();
  for (unsigned k = 1; k < MAXH; ++k) {
    unsigned m = swapOrder ? MAXH - k : k;
    if (wr[m]) {
      VF_CHECK(Fn::reduce(0, e[0], msg[m]));
      expect += old[m];
    }
  }
  VF_CHECKM(e[0] == expect, "edge add: master = old + written mirrors");
  for (unsigned m = 1; m < MAXH; ++m)
    if (wr[m]) {
      Fn::reduce(0, e[0], Fn::extract(m, e[m]));
      VF_CHECKM(e[0] == expect, "edge add: re-reducing a reset mirror changes nothing");
    }
  uint32_t v = Fn::extract(0, e[0]);
  for (unsigned m = 1; m < H; ++m) Fn::setVal(m, e[m], v);
  for (unsigned h = 0; h < MAXH; ++h) VF_CHECK(e[h] == (h < H ? expect : old[h]));
}

OB(bitvector_status) {
  using namespace galois::runtime;
  unsigned s = vf_nondet_u8();
  vf_assume(s < 4);
  BITVECTOR_STATUS st = (BITVECTOR_STATUS)s;
  bool srcBad = (st == SRC_INVALID || st == BOTH_INVALID), dstBad = (st == DST_INVALID || st == BOTH_INVALID);
  VF_CHECK(src_invalid(st) == srcBad && dst_invalid(st) == dstBad);
  for (unsigned i = 0; i < 2; ++i) {
    if (vf_nondet_bool()) {
      make_src_invalid(&st);
      srcBad = true;
    } else {
      make_dst_invalid(&st);
      dstBad = true;
    }
    VF_CHECKM(src_invalid(st) == srcBad && dst_invalid(st) == dstBad, "make_*_invalid sets exactly its half");
  }
  FieldFlags f;
  bool s2s = false, s2d = false, d2s = false, d2d = false;
  VF_CHECK(f.bitvectorStatus == NONE_INVALID);
  for (unsigned i = 0; i < 3; ++i) {
    unsigned op = vf_nondet_u8();
    vf_assume(op < 7);
    switch (op) {
    case 0: f.set_write_src(); s2s = s2d = true; break;
    case 1: f.set_write_dst(); d2s = d2d = true; break;
    case 2: f.set_write_any(); s2s = s2d = d2s = d2d = true; break;
    case 3: f.clear_read_src(); s2s = d2s = false; break;
    case 4: f.clear_read_dst(); s2d = d2d = false; break;
    case 5: f.clear_read_any(); s2s = s2d = d2s = d2d = false; break;
    case 6: f.clear_all(); s2s = s2d = d2s = d2d = false; break;
    }
    VF_CHECKM(f.src_to_src() == s2s && f.src_to_dst() == s2d && f.dst_to_src() == d2s && f.dst_to_dst() == d2d,
              "FieldFlags: a write at X marks X->src and X->dst dirty; a read at Y clears src->Y and dst->Y");
  }
}

template <typename T>
static void data_mode_check() {
  uint64_t sel = vf_nondet_u64(), tot = vf_nondet_u64();
  vf_assume(tot < (1ull << 32) && sel <= tot);
  enforcedDataMode = noData;
  DataCommMode m   = get_data_mode<T>(sel, tot);
  // size formulas over the mathematical integers (no overflow below 2^32 elements: all terms < 2^36)
  uint64_t bitsetSize  = sel * sizeof(T) + ((tot + 63) / 64) * 8 + 16 + 8;
  uint64_t offsetsSize = sel * sizeof(T) + sel * 4 + 8 + 8;
  if (sel == 0)
    VF_CHECKM(m == noData, "nothing selected -> noData");
  else if (sel == tot)
    VF_CHECKM(m == onlyData, "everything selected -> onlyData");
  else {
    VF_CHECKM(m == bitsetData || m == offsetsData, "partial selection -> bitset or offsets encoding");
    VF_CHECKM((m == bitsetData) == (bitsetSize < offsetsSize), "the smaller encoding is chosen (offsets on a tie)");
  }
  VF_CHECKM((m == noData) == (sel == 0), "noData iff nothing selected");
  unsigned forced = vf_nondet_u8();
  vf_assume(forced >= 1 && forced <= 4);
  enforcedDataMode = (DataCommMode)forced;
  VF_CHECKM(get_data_mode<T>(sel, tot) == (DataCommMode)forced, "an enforced mode is returned unchanged");
  enforcedDataMode = noData;
}
OB(data_mode) {
  data_mode_check<uint32_t>();
  data_mode_check<uint64_t>();
  data_mode_check<uint8_t>();
}
