// UNIT: id=C11 cxxflags="-ffunction-sections -fdata-sections" ldflags="-Wl,--gc-sections"
// ASSUME: same environment as C11_csr: one modelled thread (do_all sequential, on_each once), enumerated out-index with symbolic destinations/data, exact-size LargeArray blocks (nullptr for 0 bytes), FileGraph::fromArrays input with mmap as a heap block, no runtime context installed, StatTimer does nothing
// ASSUME: sortInEdgesByDst / sortAllInEdgesByDst are NOT covered: the in-edge ranges depend on the symbolic destinations, and std::sort over ranges with symbolic bounds did not finish symbolic execution in 300 s
// ASSUME: one solver query covers a group of 5 consecutive out-index arrays
// OB: ob_csc_in_shared tier=quick unwind=14 unwindfn=vf_byte_:26 timeout=300 solver=cadical params=7 bounds="LC_CSR_CSC_Graph<int,uint32_t> (in-edges share the out-edge's data cell): 35 out-index arrays (nodes<=3, edges<=3); destinations, data symbolic" desc="readGraph + constructIncomingEdges: out-edges are the input; in-edge ranges tile [0,E) with the right in-degrees; in-edges map one-to-one onto out-edges (u->v appears as in-edge of v with source u) and getInEdgeData is the very cell of that out-edge"
// OB: ob_csc_in_shared_e4 tier=thorough unwind=14 unwindfn=vf_byte_:26 timeout=600 solver=cadical params=5 bounds="the 21 out-index arrays with 4 edges" desc="CSR+CSC with shared edge data (4 edges)"
// OB: ob_csc_in_value tier=thorough unwind=14 unwindfn=vf_byte_:26 timeout=300 solver=cadical params=7,2 bounds="LC_CSR_CSC_Graph<int,uint32_t,true> (in-edges own a copy of the data) and <int,void>: 35 out-index arrays (edges<=3)" desc="readGraph + constructIncomingEdges: in-edges are a permutation of the reversed edge multiset with each edge's data"
// OB: ob_csc_in_value_e4 tier=thorough unwind=14 unwindfn=vf_byte_:26 timeout=600 solver=cadical params=5,2 bounds="the 21 out-index arrays with 4 edges" desc="CSR+CSC with copied edge data / void (4 edges)"
#include "C11_common.h"
#include "galois/graphs/LC_CSR_CSC_Graph.h"
#include "galois/graphs/ReadGraph.h"

typedef galois::graphs::LC_CSR_CSC_Graph<int, uint32_t> GraphS;       // shared edge data
typedef galois::graphs::LC_CSR_CSC_Graph<int, uint32_t, true> GraphC; // copied edge data
typedef galois::graphs::LC_CSR_CSC_Graph<int, void> GraphV;
using galois::MethodFlag;

namespace {
constexpr unsigned E4 = 35;
template <typename G>
constexpr bool has_data = !std::is_void<typename G::edge_data_type>::value;

template <typename G>
G& build(const Model& m) {
  FileGraph& f = build_file(m, has_data<G>);
  G& g         = *new G;
  galois::graphs::readGraph(g, f);
  g.constructIncomingEdges();
  return g;
}

template <typename G>
void check_out(G& g, const Model& m) {
  VF_CHECK(g.size() == m.n && g.sizeEdges() == m.e);
  for (unsigned k = 0; k < m.n; ++k) {
    VF_CHECKM(*g.edge_begin(k, MethodFlag::UNPROTECTED) == m.begin(k), "edge_begin equals the input's out-index");
    VF_CHECKM(*g.edge_end(k, MethodFlag::UNPROTECTED) == m.idx[k], "edge_end equals the input's out-index");
  }
  for (unsigned x = 0; x < m.e; ++x) {
    typename G::edge_iterator jj(x);
    VF_CHECKM(g.getEdgeDst(jj) == m.dst[x], "out-edge destination differs");
    if constexpr (has_data<G>) VF_CHECKM(g.getEdgeData(jj) == m.data[x], "out-edge data differs");
  }
}

// in-edge ranges tile [0,e), in-degree of k = number of input edges into k; returns the owner node of every in-edge
template <typename G>
void check_in_ranges(G& g, const Model& m, unsigned* owner) {
  uint64_t prev = 0;
  uint64_t te[MAXN + 1];
  for (unsigned k = 0; k < m.n; ++k) {
    uint64_t b = *g.in_edge_begin(k, MethodFlag::UNPROTECTED);
    te[k]      = *g.in_edge_end(k, MethodFlag::UNPROTECTED);
    VF_CHECKM(b == prev, "in-edge ranges of consecutive nodes are adjacent");
    VF_CHECKM(te[k] >= b && te[k] <= m.e, "in-edge range inside [0,numEdges)");
    unsigned indeg = 0;
    for (unsigned x = 0; x < m.e; ++x)
      if (m.dst[x] == k) ++indeg;
    VF_CHECKM(te[k] - b == indeg, "in-degree");
    VF_CHECK(g.getInDegree(k) == indeg);
    prev = te[k];
  }
  VF_CHECKM(prev == m.e, "in-edge ranges cover [0,numEdges)");
  for (unsigned y = 0; y < m.e; ++y) {
    unsigned s = 0;
    for (unsigned k = 0; k < m.n; ++k)
      if (te[k] <= y) ++s;
    owner[y] = s;
  }
}

// shared flavour: in-edge y refers to out-edge ref[y]; the references are a bijection onto [0,e) and each in-edge is
// the reverse of the out-edge it refers to; getInEdgeData(y) IS that out-edge's data cell
void check_in_shared(GraphS& g, const Model& m, const unsigned* owner) {
  bool used[MAXE + 1] = {false, false, false, false, false};
  for (unsigned y = 0; y < m.e; ++y) {
    GraphS::edge_iterator jj(y);
    uint64_t x = g.inEdgeData[y];
    VF_CHECKM(x < m.e, "in-edge refers to no out-edge");
    unsigned xs = x < MAXE ? x : MAXE;
    VF_CHECKM(!used[xs], "two in-edges refer to the same out-edge");
    used[xs] = true;
    VF_CHECKM(m.dst[xs] == owner[y], "in-edge listed under a node that is not the out-edge's destination");
    VF_CHECKM(g.getInEdgeDst(jj) == m.src(xs), "in-edge's source is not the out-edge's source");
    VF_CHECKM(&g.getInEdgeData(jj) == &g.getEdgeData(GraphS::edge_iterator(x)), "in-edge and out-edge do not share the data cell");
    VF_CHECKM(g.getInEdgeData(jj) == m.data[xs], "in-edge data differs");
  }
}

// value/void flavour: the in-edges (owner, source, data) are the reversed input multiset
template <typename G>
void check_in_multiset(G& g, const Model& m, const unsigned* owner) {
  unsigned isrc[MAXE + 1], idat[MAXE + 1], msrc[MAXE + 1];
  for (unsigned y = 0; y < m.e; ++y) {
    typename G::edge_iterator jj(y);
    isrc[y] = g.getInEdgeDst(jj);
    if constexpr (has_data<G>)
      idat[y] = g.getInEdgeData(jj);
    else
      idat[y] = 0;
    msrc[y] = m.src(y);
  }
  for (unsigned x = 0; x < m.e; ++x) {
    unsigned a = 0, b = 0;
    for (unsigned y = 0; y < m.e; ++y) {
      if (msrc[y] == msrc[x] && m.dst[y] == m.dst[x] && (!has_data<G> || m.data[y] == m.data[x])) ++a;
      if (owner[y] == m.dst[x] && isrc[y] == msrc[x] && (!has_data<G> || idat[y] == m.data[x])) ++b;
    }
    VF_CHECKM(a == b, "in-edges are not the reversed edge multiset (edge missing, duplicated, or carrying another edge's data)");
  }
}

NOINL void in_shared(unsigned shape) {
  Model m;
  make_model(m, shape);
  GraphS& g = build<GraphS>(m);
  unsigned owner[MAXE + 1];
  check_out(g, m);
  check_in_ranges(g, m, owner);
  check_in_shared(g, m, owner);
}

template <typename G>
NOINL void in_value(unsigned shape) {
  Model m;
  make_model(m, shape);
  G& g = build<G>(m);
  unsigned owner[MAXE + 1];
  check_out(g, m);
  check_in_ranges(g, m, owner);
  check_in_multiset(g, m, owner);
}
} // namespace

#define BY_TYPE(fn) (vf_param(1) == 0 ? fn<GraphC>(s) : fn<GraphV>(s))
OB(csc_in_shared) { for_group(0, E4, [](unsigned s) { in_shared(s); }); }
OB(csc_in_shared_e4) { for_group(E4, 56, [](unsigned s) { in_shared(s); }); }
OB(csc_in_value) { for_group(0, E4, [](unsigned s) { BY_TYPE(in_value); }); }
OB(csc_in_value_e4) { for_group(E4, 56, [](unsigned s) { BY_TYPE(in_value); }); }
