// UNIT: id=C05 threads=3 hb=0 plain=invisible validate=0 validate_reason="concurrent unit: the schedule is a solver variable of the sequentialised step machine; native runs only smoke-test the translated machine"
// ASSUME: threads are sequentialised by ir2c: every atomic/volatile access is a scheduling point; a spin iteration that reaches asm(pause) is pruned in run mode and counted as 'blocked' in the deadlock probe (after one complete fresh iteration)
// ASSUME: plain (non-atomic) accesses are glued to the preceding scheduling point: sound if they are data-race free (per-thread sense slots and fields only written by reinit()); the thorough unit C05_barriers_pv repeats T=2 with every plain access that may alias a write as a scheduling point
// ASSUME: values follow SC interleavings (store-buffering between relaxed atomics is outside the claim)
// ASSUME: ThreadPool::getTID() is the thread-local my_box.topo.tid, set by each modelled thread to its id; barrier objects are built by their real constructor/reinit() in the sequential prologue
// OB: ob_counting_T2 tier=quick unwind=82 timeout=900 solver=cadical bounds="CountingBarrier: T=2 x 2 phases, 24 steps" desc="no thread leaves its k-th wait before all entered it; all return; no deadlock"
// OB: ob_counting_T3 tier=thorough unwind=82 timeout=3000 solver=cadical bounds="CountingBarrier: T=3 x 2 phases, 36 steps" desc="same, three threads (fast thread can re-enter while slow ones leave)"
// OB: ob_counting_reinit tier=quick unwind=82 timeout=1500 solver=cadical bounds="CountingBarrier: region of T=2 x 1 phase, reinit(3), region of T=3 x 1 phase" desc="re-initialisation to a different participant count between regions"
// OB: ob_mcs_T2 tier=quick unwind=82 timeout=1500 solver=cadical bounds="MCSBarrier: T=2 x 2 phases, 50 steps" desc="phase separation, no deadlock"
// OB: ob_mcs_T3 tier=thorough unwind=82 timeout=3000 solver=cadical bounds="MCSBarrier: T=3 x 2 phases, 80 steps" desc="phase separation, no deadlock"
// OB: ob_dissem_T2 tier=quick unwind=82 timeout=900 solver=cadical bounds="DisseminationBarrier: T=2 x 3 phases (both parities), 20 steps" desc="phase separation, no deadlock"
// OB: ob_dissem_T3 tier=attic unwind=82 unwindfn=_reinit:110 timeout=3000 solver=cadical bounds="DisseminationBarrier: T=3 x 2 phases, 50 steps" desc="phase separation, no deadlock"
// OB: ob_single_thread tier=quick unwind=82 timeout=300 bounds="T=1, 3 phases, Counting/MCS/Dissemination" desc="degenerate participant count: wait() returns"
#include "C05_common.h"
