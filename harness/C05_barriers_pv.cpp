// UNIT: id=C05 threads=3 hb=0 validate=0 validate_reason="concurrent unit: the schedule is a solver variable of the sequentialised step machine; native runs only smoke-test the translated machine"
// ASSUME: threads are sequentialised by ir2c: every atomic/volatile access is a scheduling point; a spin iteration that reaches asm(pause) is pruned in run mode and counted as 'blocked' in the deadlock probe (after one complete fresh iteration)
// ASSUME: every plain access that may alias a write of a thread body (TBAA / field analysis) is a scheduling point too; loads of data no thread body writes are not
// ASSUME: values follow SC interleavings (store-buffering between relaxed atomics is outside the claim)
// ASSUME: ThreadPool::getTID() is the thread-local my_box.topo.tid, set by each modelled thread to its id; barrier objects are built by their real constructor/reinit() in the sequential prologue
// OB: ob_counting_T2 tier=thorough unwind=82 timeout=900 solver=cadical bounds="CountingBarrier: T=2 x 2 phases, 40 steps" desc="no thread leaves its k-th wait before all entered it; all return; no deadlock"
// OB: ob_counting_T3 tier=attic unwind=82 timeout=3000 solver=cadical bounds="CountingBarrier: T=3 x 2 phases, 36 steps" desc="same, three threads (fast thread can re-enter while slow ones leave)"
// OB: ob_counting_reinit tier=thorough unwind=82 timeout=1500 solver=cadical bounds="CountingBarrier: region of T=2 x 1 phase, reinit(3), region of T=3 x 1 phase" desc="re-initialisation to a different participant count between regions"
// OB: ob_mcs_T2 tier=thorough unwind=82 timeout=1500 solver=cadical bounds="MCSBarrier: T=2 x 2 phases, 70 steps" desc="phase separation, no deadlock"
// OB: ob_mcs_T3 tier=attic unwind=82 timeout=3000 solver=cadical bounds="MCSBarrier: T=3 x 2 phases, 80 steps" desc="phase separation, no deadlock"
// OB: ob_dissem_T2 tier=attic unwind=82 timeout=900 solver=cadical bounds="DisseminationBarrier: T=2 x 3 phases (both parities), 64 steps" desc="phase separation, no deadlock"
// OB: ob_dissem_T3 tier=attic unwind=82 timeout=3000 solver=cadical bounds="DisseminationBarrier: T=3 x 2 phases, 50 steps" desc="phase separation, no deadlock"
// OB: ob_single_thread tier=thorough unwind=82 timeout=300 bounds="T=1, 3 phases, Counting/MCS/Dissemination" desc="degenerate participant count: wait() returns"
#define S_COUNT2 40
#define S_COUNT3 60
#define S_MCS2 70
#define S_MCS3 100
#define S_DIS2 64
#define S_DIS3 70
#include "C05_common.h"
