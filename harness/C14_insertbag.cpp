// UNIT: id=C14 cxxflags="-DGALOIS_FORCE_STANDALONE -DVF_PTS_BYTES=256"
// ASSUME: environment C15_env.h: fake ThreadPool object with 2 threads, REAL PerThreadStorage.cpp over 256-byte per-thread blocks; 'running on thread t' is switched by hand, whole operations of the two threads alternate (insertions of different threads touch different per-thread lists; interleavings inside an operation are outside this unit)
// ASSUME: GALOIS_FORCE_STANDALONE (the repository's own switch) routes the bag's FixedSizeHeap to malloc, so every block is a separate heap object of exactly BlockSize bytes (CBMC / ASan bounds checks apply to it); the page-pool flavour (BlockSize = 0) and the parallel clear() (an on_each) are not run
// OB: ob_insertbag tier=quick cbmc="--max-field-sensitivity-array-size 300" unwind=13 unwindfn=_M_default_append:34 timeout=300 params=4,6 bounds="InsertBag<T,96>: element size 4, 8, 24 or 40 bytes (sizes that divide the 32-byte block header, one that does not, one that exceeds it), 1..6 insertions: the first four by thread 0 (two or more blocks for the larger sizes), the rest by thread 1, element contents symbolic" desc="every inserted element is enumerated exactly once with its contents intact, thread 0's elements first in insertion order then thread 1's; the local iterators give each thread its own; nothing is written outside a block; after clear_serial() the bag is empty and can be filled again"
#include "C15_env.h"
#include "galois/gIO.h"
#include "galois/Bag.h"
#include "vf_standalone.h"
#include <utility>

namespace {
template <unsigned N>
struct Rec {
  int v[N];
};
// loop-free (fold expressions): harness loops nested in the insertion loop would share one unwinding counter
template <unsigned N, size_t... I>
bool same_impl(const Rec<N>& a, const Rec<N>& b, std::index_sequence<I...>) {
  return (... & (a.v[I] == b.v[I]));
}
template <unsigned N>
bool same(const Rec<N>& a, const Rec<N>& b) {
  return same_impl(a, b, std::make_index_sequence<N>());
}
template <unsigned N, size_t... I>
void fill_impl(Rec<N>& a, std::index_sequence<I...>) {
  ((a.v[I] = (int)vf_nondet_u32()), ...);
}
template <unsigned N>
void fill(Rec<N>& a) {
  fill_impl(a, std::make_index_sequence<N>());
}

// the first four insertions come from thread 0 (more than one block for every element size), the rest from thread 1
inline unsigned thr(unsigned k) { return k < 4 ? 0 : 1; }

template <unsigned N>
void run(unsigned pushes) {
  typedef Rec<N> T;
  vfenv::init(2);
  galois::InsertBag<T, 96>& bag = *new galois::InsertBag<T, 96>();
  static T in[6];
  for (unsigned k = 0; k < pushes; ++k) {
    fill(in[k]);
    vfenv::enter(thr(k));
    T& r = bag.push(in[k]);
    VF_CHECKM(same(r, in[k]), "push returns a reference to the stored copy");
  }
  vfenv::enter(0);
  // global enumeration: thread 0's elements (even k) in insertion order, then thread 1's (odd k)
  unsigned order[6], n = 0, mine[2] = {0, 0};
  for (unsigned t = 0; t < 2; ++t)
    for (unsigned k = 0; k < pushes; ++k)
      if (thr(k) == t) {
        order[n++] = k;
        ++mine[t];
      }
  unsigned seen = 0;
  for (auto it = bag.begin(), e = bag.end(); it != e && seen < 7; ++it, ++seen)
    if (seen < n) VF_CHECKM(same(*it, in[order[seen]]), "enumeration yields another element, or an element whose contents were overwritten");
  VF_CHECKM(seen == pushes, "enumeration does not yield every inserted element exactly once");
  VF_CHECKM(bag.empty() == (pushes == 0), "empty()");
  // each thread's local range
  unsigned at = 0;
  for (unsigned t = 0; t < 2; ++t) {
    vfenv::enter(t);
    unsigned c = 0;
    for (auto it = bag.local_begin(), e = bag.local_end(); it != e && c < 7; ++it, ++c)
      if (c < mine[t]) VF_CHECKM(same(*it, in[order[at + c]]), "local enumeration yields another thread's element or a damaged one");
    VF_CHECKM(c == mine[t], "local enumeration does not yield exactly the caller's elements");
    at += mine[t];
  }
  vfenv::enter(0);
  bag.clear_serial();
  VF_CHECKM(bag.begin() == bag.end() && bag.empty(), "after clear_serial() the bag is empty");
  T& again = bag.push(in[0]);
  VF_CHECKM(same(again, in[0]) && same(*bag.begin(), in[0]), "the bag can be filled again after clear_serial()");
}
} // namespace

OB(insertbag) {
  unsigned pushes = 1 + vf_param(1);
  switch (vf_param(0)) {
  case 0: run<1>(pushes); break;
  case 1: run<2>(pushes); break;
  case 2: run<6>(pushes); break;
  default: run<10>(pushes); break;
  }
}
