// UNIT: id=C15
// ASSUME: the Reducible family runs over the REAL substrate::PerThreadStorage/PerBackend (PerThreadStorage.cpp included) inside a harness-built environment (C15_env.h): getThreadPool() is a fake object with only maxThreads set; substrate::allocSize/allocPages (page allocator, C09) are 512-byte calloc blocks; GALOIS_DIE = abort() without the iostream message
// ASSUME: "update u runs on pool thread t" is simulated by setting the thread-local tid and ptsBase by hand before the update. Updates only touch the caller's slot, so the ASSIGNMENT of updates to threads (symbolic here) - not the interleaving - is the whole quantifier for the parallel region; reduce()/reset() run on thread 0 outside the region, as documented
// ASSUME: unwind=32 because PerBackend() resizes its free-list table to 30 entries; every other loop runs at most 4 times
// ASSUME: thread count T = 1..4 is enumerated (vf_param), values and the update-to-thread assignment are solver variables
// ASSUME: int32 sums are bounded (|v| < 2^26) so the signed additions of the real code cannot overflow; uint64 sums are full width (modular); floating-point ADDITION order is outside (not associative), doubles are examined for max/min only (all non-NaN bit patterns incl. negatives, zeros, infinities, denormals)
// OB: ob_red_sum_i32 tier=quick solver=cadical unwind=32 timeout=120 params=4 bounds="GAccumulator<int>: T=1..4 (one query each), 3 updates += with symbolic values (|v|<2^26) on symbolic threads, reduce, 1 more update, reduce, reset, 1 update, reduce" desc="reduce() equals the sum of all updates however they were assigned to threads; a second reduce() after more updates is again exact; reset() restores 0"
// OB: ob_red_sum_u64 tier=quick solver=cadical unwind=32 timeout=120 params=4 bounds="GAccumulator<uint64_t>: as above, full 64-bit values" desc="sum of unsigned 64-bit updates (modular)"
// OB: ob_red_minus tier=quick solver=cadical unwind=32 timeout=120 params=4 bounds="GAccumulator<int>: T=1..4, one += a and one -= b on symbolic threads (|a|,|b| < 2^26)" desc="the -= form subtracts: reduce() == a - b"
// OB: ob_red_max_i32 tier=quick solver=cadical unwind=32 timeout=120 params=4 bounds="GReduceMax<int> and GReduceMin<int>: T=1..4, 3 updates with ANY int32 values (incl. all-negative, INT_MIN/INT_MAX) on symbolic threads, reduce, reset, 1 update, reduce" desc="reduce() is the max / min of the updates"
// OB: ob_red_max_u64 tier=quick solver=cadical unwind=32 timeout=120 params=4 bounds="GReduceMax<uint64_t> and GReduceMin<uint64_t>: T=1..4, 3 updates, any values" desc="reduce() is the max / min of the updates"
// OB: ob_red_max_f64 tier=quick solver=cadical unwind=32 timeout=180 params=4 bounds="GReduceMax<double>: T=1..4, 2 updates with any non-NaN doubles (incl. all-negative inputs) on symbolic threads" desc="reduce() is the max of the updates (the statement names all-negative floating-point inputs explicitly)"
// OB: ob_red_min_f64 tier=quick solver=cadical unwind=32 timeout=180 params=4 bounds="GReduceMin<double>: T=1..4, 2 updates with any non-NaN doubles on symbolic threads" desc="reduce() is the min of the updates"
// OB: ob_red_min_f64_finite tier=quick solver=cadical unwind=32 timeout=180 params=4 bounds="GReduceMin<double>: as ob_red_min_f64 restricted to FINITE doubles" desc="reduce() is the min of the updates for finite inputs (delimits the failure of ob_red_min_f64 to +infinity)"
// OB: ob_red_max_f64_normalpos tier=quick solver=cadical unwind=32 timeout=180 params=4 bounds="GReduceMax<double>: as ob_red_max_f64 restricted to doubles in [DBL_MIN, DBL_MAX] (normal, positive)" desc="reduce() is the max of the updates when every input is >= numeric_limits<double>::min() (delimits the failure of ob_red_max_f64 to inputs below the wrong identity)"
// OB: ob_red_identity tier=quick solver=cadical unwind=32 timeout=120 bounds="std::plus/identity_value_zero, gmax/identity_value_min, gmin/identity_value_max on int32 and uint64; ALL x" desc="MergeFunc(x, IdFunc()) == x for all x (the relation Reduction.h documents), integer instantiations"
// OB: ob_red_identity_fmin tier=quick solver=cadical unwind=32 timeout=120 bounds="gmin<T>/identity_value_max<T> for T = float, double (the pair GReduceMin<T> instantiates); symbolic non-NaN x incl. infinities" desc="MergeFunc(x, IdFunc()) == x for all x for the floating-point minimum"
// OB: ob_red_identity_fmax tier=quick solver=cadical unwind=32 timeout=120 bounds="gmax<T>/identity_value_min<T> for T = float, double (the pair GReduceMax<T> instantiates); symbolic non-NaN x" desc="MergeFunc(x, IdFunc()) == x for all x for the floating-point maximum"
// OB: ob_red_logical tier=quick solver=cadical unwind=32 timeout=120 params=4 bounds="GReduceLogicalAnd / GReduceLogicalOr: T=1..4, 3 symbolic bool updates on symbolic threads, reduce, reset, reduce" desc="and / or of all updates; empty reduction gives true / false"
// OB: ob_red_user tier=quick solver=cadical unwind=32 timeout=120 params=4 bounds="make_reducible with a user merge (moving form T&(T&,T&&)) and identity over struct {xor, count, max}: T=1..4, 3 updates on symbolic threads, reduce, reset, 1 update, reduce; and a by-value lambda merge (bit-or)" desc="user-defined merge with identity: reduce() equals the fold of all updates"
#include "C15_env.h"
#include <cstdint>
#include <limits>
#include "galois/Reduction.h"

namespace {
unsigned T;

void setup() {
  T = vf_param(0) + 1;
  vfenv::init(T);
}
// the next update runs on a solver-chosen pool thread
void on_some_thread() {
  unsigned t = vf_nondet_u8();
  vf_assume(t < T);
  vfenv::enter(t);
}
void outside_region() { vfenv::enter(0); }

int32_t small_i32() {
  int32_t v = (int32_t)vf_nondet_u32();
  vf_assume(v > -(1 << 26) && v < (1 << 26));
  return v;
}
double any_f64() {
  uint64_t b = vf_nondet_u64();
  double d;
  std::memcpy(&d, &b, 8);
  vf_assume(d == d);
  return d;
}

double finite_f64() {
  double d = any_f64();
  vf_assume(d >= -std::numeric_limits<double>::max() && d <= std::numeric_limits<double>::max());
  return d;
}
double normal_positive_f64() {
  double d = any_f64();
  vf_assume(d >= std::numeric_limits<double>::min() && d <= std::numeric_limits<double>::max());
  return d;
}

template <typename V, typename Gen>
void sum_scenario(Gen gen) {
  setup();
  galois::GAccumulator<V> acc;
  outside_region();
  VF_CHECKM(acc.reduce() == (V)0, "a fresh accumulator reduces to 0");
  V total = 0;
  for (unsigned i = 0; i < 3; ++i) {
    V v = gen();
    on_some_thread();
    acc += v;
    total = (V)(total + v);
  }
  outside_region();
  VF_CHECKM(acc.reduce() == total, "reduce() equals the sum of all updates, however they were assigned to threads");
  VF_CHECKM(acc.reduce() == total, "reduce() is repeatable");
  for (unsigned i = 0; i < 1; ++i) {
    V v = gen();
    on_some_thread();
    acc += v;
    total = (V)(total + v);
  }
  outside_region();
  VF_CHECKM(acc.reduce() == total, "a second reduce() after more updates is exact (per-thread slots were re-identified)");
  acc.reset();
  VF_CHECKM(acc.reduce() == (V)0, "reset() restores the identity");
  V v = gen();
  on_some_thread();
  acc += v;
  outside_region();
  VF_CHECKM(acc.reduce() == v, "after reset() only new updates count");
}

template <typename V, typename Gen>
void maxmin_scenario(Gen gen, unsigned nupd, bool doMax, bool doMin) {
  setup();
  galois::GReduceMax<V> mx;
  galois::GReduceMin<V> mn;
  V emax = 0, emin = 0;
  for (unsigned i = 0; i < nupd; ++i) {
    V v = gen();
    on_some_thread();
    if (doMax) mx.update(v);
    if (doMin) mn.update(v);
    emax = (i == 0 || v > emax) ? v : emax;
    emin = (i == 0 || v < emin) ? v : emin;
  }
  outside_region();
  if (doMax) VF_CHECKM(mx.reduce() == emax, "GReduceMax: reduce() is the maximum of the updates");
  if (doMin) VF_CHECKM(mn.reduce() == emin, "GReduceMin: reduce() is the minimum of the updates");
  mx.reset();
  mn.reset();
  V v = gen();
  on_some_thread();
  if (doMax) mx.update(v);
  if (doMin) mn.update(v);
  outside_region();
  if (doMax) VF_CHECKM(mx.reduce() == v, "GReduceMax: after reset() only new updates count");
  if (doMin) VF_CHECKM(mn.reduce() == v, "GReduceMin: after reset() only new updates count");
}

// user-defined reduction: moving merge form
struct Stat {
  uint32_t x;   // xor of all values
  uint32_t cnt; // number of updates
  uint32_t top; // maximum
};
struct StatMerge {
  Stat& operator()(Stat& l, Stat&& r) const {
    l.x ^= r.x;
    l.cnt += r.cnt;
    if (r.top > l.top) l.top = r.top;
    return l;
  }
};
struct StatId {
  Stat operator()() const { return Stat{0, 0, 0}; }
};

template <typename M, typename I, typename X>
void identity_law(X x) {
  M m;
  I id;
  VF_CHECKM(m(x, id()) == x, "MergeFunc(x, IdFunc()) == x");
  VF_CHECKM(m(id(), x) == x, "MergeFunc(IdFunc(), x) == x");
}
} // namespace

OB(red_sum_i32) { sum_scenario<int32_t>(small_i32); }
OB(red_sum_u64) { sum_scenario<uint64_t>(vf_nondet_u64); }

OB(red_minus) {
  setup();
  galois::GAccumulator<int32_t> acc;
  int32_t a = small_i32(), b = small_i32();
  on_some_thread();
  acc += a;
  on_some_thread();
  acc -= b;
  outside_region();
  VF_CHECKM(acc.reduce() == a - b, "GAccumulator: += a then -= b reduces to a - b");
}

OB(red_max_i32) {
  maxmin_scenario<int32_t>([] { return (int32_t)vf_nondet_u32(); }, 3, true, true);
}
OB(red_max_u64) { maxmin_scenario<uint64_t>(vf_nondet_u64, 3, true, true); }
OB(red_max_f64) { maxmin_scenario<double>(any_f64, 2, true, false); }
OB(red_min_f64) { maxmin_scenario<double>(any_f64, 2, false, true); }
OB(red_min_f64_finite) { maxmin_scenario<double>(finite_f64, 2, false, true); }
OB(red_max_f64_normalpos) { maxmin_scenario<double>(normal_positive_f64, 2, true, false); }

OB(red_identity) {
  int32_t i  = (int32_t)vf_nondet_u32();
  uint64_t u = vf_nondet_u64();
  identity_law<std::plus<int32_t>, galois::identity_value_zero<int32_t>>(i);
  identity_law<std::plus<uint64_t>, galois::identity_value_zero<uint64_t>>(u);
  identity_law<galois::gmax<int32_t>, galois::identity_value_min<int32_t>>(i);
  identity_law<galois::gmin<int32_t>, galois::identity_value_max<int32_t>>(i);
  identity_law<galois::gmax<uint64_t>, galois::identity_value_min<uint64_t>>(u);
  identity_law<galois::gmin<uint64_t>, galois::identity_value_max<uint64_t>>(u);
}

OB(red_identity_fmin) {
  double d    = any_f64();
  uint32_t fb = vf_nondet_u32();
  float f;
  std::memcpy(&f, &fb, 4);
  vf_assume(f == f);
  identity_law<galois::gmin<double>, galois::identity_value_max<double>>(d);
  identity_law<galois::gmin<float>, galois::identity_value_max<float>>(f);
}

OB(red_identity_fmax) {
  double d    = any_f64();
  uint32_t fb = vf_nondet_u32();
  float f;
  std::memcpy(&f, &fb, 4);
  vf_assume(f == f);
  identity_law<galois::gmax<double>, galois::identity_value_min<double>>(d);
  identity_law<galois::gmax<float>, galois::identity_value_min<float>>(f);
}

OB(red_logical) {
  setup();
  galois::GReduceLogicalAnd a;
  galois::GReduceLogicalOr o;
  outside_region();
  VF_CHECKM(a.reduce() == true && o.reduce() == false, "empty and = true, empty or = false");
  bool ea = true, eo = false;
  for (unsigned i = 0; i < 3; ++i) {
    bool v = vf_nondet_bool();
    on_some_thread();
    a.update(v);
    o.update(v);
    ea = ea && v;
    eo = eo || v;
  }
  outside_region();
  VF_CHECKM(a.reduce() == ea, "GReduceLogicalAnd: conjunction of all updates");
  VF_CHECKM(o.reduce() == eo, "GReduceLogicalOr: disjunction of all updates");
  a.reset();
  o.reset();
  VF_CHECKM(a.reduce() == true && o.reduce() == false, "reset() restores the identities");
}

OB(red_user) {
  setup();
  auto r = galois::make_reducible(StatMerge(), StatId());
  auto orr = galois::make_reducible([](uint32_t l, uint32_t r) { return l | r; }, [] { return (uint32_t)0; });
  Stat e{0, 0, 0};
  uint32_t eor = 0;
  for (unsigned i = 0; i < 3; ++i) {
    uint32_t v = vf_nondet_u32();
    on_some_thread();
    r.update(Stat{v, 1, v});
    orr.update(v);
    e.x ^= v;
    e.cnt += 1;
    if (v > e.top) e.top = v;
    eor |= v;
  }
  outside_region();
  Stat& got = r.reduce();
  VF_CHECKM(got.x == e.x && got.cnt == e.cnt && got.top == e.top, "user merge: reduce() equals the fold of all updates");
  VF_CHECKM(orr.reduce() == eor, "user lambda merge: reduce() equals the fold of all updates");
  r.reset();
  orr.reset();
  uint32_t v = vf_nondet_u32();
  on_some_thread();
  r.update(Stat{v, 1, v});
  outside_region();
  Stat& g2 = r.reduce();
  VF_CHECKM(g2.x == v && g2.cnt == 1 && g2.top == v, "user merge: after reset() only new updates count");
  VF_CHECKM(orr.reduce() == 0, "user lambda merge: reset() restores the identity");
}
