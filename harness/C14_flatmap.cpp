// UNIT: id=C14
// ASSUME: inductive step: the pre-state is ANY strictly key-sorted vector of n pairs (the invariant every operation is checked to re-establish: the post-state must equal a strictly sorted model), n and the spare capacity are enumerated (vf_param), keys and values are unconstrained 32-bit solver variables
// ASSUME: operation KIND is enumerated as separate solver queries (vf_param); keys, values and iterator positions are solver variables
// ASSUME: at(k) for an absent key must throw (as std::map::at): checked by declaring the throw path a cut and asserting that the call does not return
// ASSUME: upper_bound()/equal_range() and operator==/operator< are not exercised: they do not compile for flat_map<int,int> (comparator called with (key, pair); private member access from a non-friend) -- reported, not encodable
// OB: ob_flatmap_step quick_limit=24 tier=quick unwind=8 timeout=180 params=13,3,2 bounds="flat_map<int,int>: arbitrary strictly sorted pre-state of n=p1 in 0..2 pairs with spare capacity 0 or 2 (p2), ONE op of 13 kinds {insert(pair), emplace, [] const&, [] &&, erase(key), erase(iterator), erase(range), at (+const), clear, copy construct/assign + const traversal, move construct/assign, swap, insert(range of 2; n=0 only)}; then size/empty, forward+reverse traversal, find/count/lower_bound (+const) of a symbolic key" desc="flat_map: one step from an arbitrary sorted state equals a sorted-array map model"
// OB: ob_flatmap_step_big tier=thorough unwind=8 timeout=300 params=12,2,2 bounds="as ob_flatmap_step with n=3+p1 in {3,4}, 12 kinds (without insert(range))" desc="flat_map: one step from an arbitrary sorted state equals a sorted-array map model (larger states)"
// OB: ob_flatmap_range_ctor tier=quick unwind=8 timeout=180 params=4 bounds="flat_map<int,int>(first,last) from an array of p0 in 0..3 pairs with symbolic keys (duplicates allowed)" desc="flat_map: range constructor equals std::map's (one entry per distinct key)"
#include "vf.h"
#include <tuple>
#include "galois/FlatMap.h"

namespace {
typedef galois::flat_map<int, int> M;
constexpr unsigned CAP = 8;

struct Model {
  int k[CAP], v[CAP];
  unsigned n;
  unsigned lower(int key) const { // first index with k[i] >= key
    unsigned i = 0;
    while (i < n && k[i] < key) ++i;
    return i;
  }
  bool has(int key, unsigned& i) const {
    i = lower(key);
    return i < n && k[i] == key;
  }
  void ins(unsigned i, int key, int val) {
    for (unsigned j = n; j > i; --j) { k[j] = k[j - 1]; v[j] = v[j - 1]; }
    k[i] = key; v[i] = val; ++n;
  }
  void del(unsigned i) {
    for (unsigned j = i; j + 1 < n; ++j) { k[j] = k[j + 1]; v[j] = v[j + 1]; }
    --n;
  }
};

template <typename Map>
void check_equal(Map& m, const Model& md) {
  unsigned n = md.n;
  VF_CHECK(m.size() == n);
  VF_CHECK(m.empty() == (n == 0));
  unsigned i = 0;
  for (auto it = m.begin(); it != m.end(); ++it, ++i) {
    VF_CHECKM(i < n, "forward traversal yields more entries than the model");
    if (i >= n) return;
    VF_CHECKM(it->first == md.k[i], "forward traversal: key differs from sorted model");
    VF_CHECKM(it->second == md.v[i], "forward traversal: value differs from model");
  }
  VF_CHECKM(i == n, "forward traversal length");
  unsigned q = 0;
  for (auto it = m.rbegin(); it != m.rend(); ++it, ++q) {
    VF_CHECKM(q < n, "reverse traversal yields more entries than the model");
    if (q >= n) return;
    VF_CHECKM(it->first == md.k[n - 1 - q] && it->second == md.v[n - 1 - q], "reverse traversal differs from model");
  }
  VF_CHECKM(q == n, "reverse traversal length");
}

void lookups(M& m, const Model& md) {
  int key = (int)vf_nondet_u32();
  unsigned i;
  bool present = md.has(key, i);
  auto f = m.find(key);
  VF_CHECKM((f != m.end()) == present, "find() hit iff the key is in the model");
  if (present && f != m.end()) {
    VF_CHECK(f - m.begin() == (long)i);
    VF_CHECK(f->first == key && f->second == md.v[i]);
  }
  VF_CHECK(m.count(key) == (present ? 1u : 0u));
  VF_CHECKM(m.lower_bound(key) - m.begin() == (long)md.lower(key), "lower_bound position");
  const M& cm = m;
  VF_CHECK((cm.find(key) != cm.end()) == present);
  VF_CHECK(cm.lower_bound(key) - cm.begin() == (long)md.lower(key));
}

void arbitrary(M& m, Model& md, unsigned n, unsigned slack) {
  md.n = 0;
  if (n + slack) m._data.reserve(n + slack);
  for (unsigned j = 0; j < n; ++j) {
    int key = (int)vf_nondet_u32(), val = (int)vf_nondet_u32();
    if (j) vf_assume(key > md.k[j - 1]);
    m._data.emplace_back(key, val);
    md.k[j] = key; md.v[j] = val; md.n = j + 1;
  }
}

void one_op(M& m, Model& md, unsigned op) {
  int key = (int)vf_nondet_u32(), val = (int)vf_nondet_u32();
  unsigned i;
  bool present = md.has(key, i);
  switch (op) {
  case 0: case 1: { // insert(pair) / emplace(k, v)
    std::pair<M::iterator, bool> r = op == 0 ? m.insert(std::make_pair(key, val)) : m.emplace(key, val);
    VF_CHECKM(r.second == !present, "insert reports whether the key was new");
    if (!present) md.ins(i, key, val);
    VF_CHECKM(r.first - m.begin() == (long)i, "insert returns an iterator to the entry with the key");
    VF_CHECK(r.first->first == key && r.first->second == md.v[i]);
    break;
  }
  case 2: case 3: { // operator[]
    int k2 = key;
    int& ref = op == 2 ? m[key] : m[std::move(k2)];
    if (!present) md.ins(i, key, 0);
    VF_CHECKM(ref == md.v[i], "operator[] yields the stored value, or a value-initialised one for a new key");
    VF_CHECKM(&ref == &(m.begin() + i)->second, "operator[] refers to the entry in sorted position");
    ref = val;
    md.v[i] = val;
    break;
  }
  case 4: { // erase(key)
    M::size_type c = m.erase(key);
    VF_CHECKM(c == (present ? 1u : 0u), "erase(key) returns the number of removed entries");
    if (present) md.del(i);
    break;
  }
  case 5: { // erase(iterator) / erase(const_iterator)
    vf_assume(md.n > 0);
    unsigned p = vf_nondet_u8();
    vf_assume(p < md.n);
    M::iterator r;
    if (vf_nondet_bool()) r = m.erase(m.begin() + p);
    else r = m.erase(m.cbegin() + p);
    md.del(p);
    VF_CHECKM(r - m.begin() == (long)p, "erase(iterator) returns the iterator following the removed entry");
    break;
  }
  case 6: { // erase(first, last)
    unsigned a = vf_nondet_u8(), b = vf_nondet_u8();
    vf_assume(a <= b);
    vf_assume(b <= md.n);
    M::iterator r = m.erase(m.cbegin() + a, m.cbegin() + b);
    for (unsigned c = a; c < b; ++c) md.del(a);
    VF_CHECK(r - m.begin() == (long)a);
    break;
  }
  case 7: { // at()
    const M& cm = m;
    if (present) {
      VF_CHECK(m.at(key) == md.v[i]);
      VF_CHECK(cm.at(key) == md.v[i]);
      m.at(key) = val;
      md.v[i] = val;
    } else {
      vf_set_fatal_assume(1);
      try {
        if (vf_nondet_bool()) (void)m.at(key);
        else (void)cm.at(key);
        VF_CHECKM(false, "at(k) for an absent key returned instead of throwing");
      } catch (const std::out_of_range&) {
        vf_assume(false);
      }
    }
    break;
  }
  case 8:
    m.clear();
    md.n = 0;
    break;
  case 9: { // copy construct / copy assign
    M c(m);
    check_equal(c, md);
    check_equal(m, md);
    M d;
    d[key] = val;
    d = m;
    check_equal(d, md);
    const M& cm = m; // const traversal
    check_equal(cm, md);
    break;
  }
  case 10: { // move construct / move assign
    M c(std::move(m));
    VF_CHECKM(m.empty() && m.begin() == m.end(), "moved-from map is empty");
    check_equal(c, md);
    m[key] = val; // moved-from map is usable
    VF_CHECK(m.size() == 1 && m.begin()->first == key);
    m = std::move(c);
    VF_CHECKM(c.empty(), "move assignment leaves the source empty");
    break;
  }
  case 11: { // swap with a one-entry map
    M o;
    o[key] = val;
    if (vf_nondet_bool()) m.swap(o);
    else std::swap(m, o);
    check_equal(o, md);
    md.n = 0;
    md.ins(0, key, val);
    break;
  }
  case 12: { // insert(first, last) of two pairs
    std::pair<int, int> src[2] = {{key, val}, {(int)vf_nondet_u32(), (int)vf_nondet_u32()}};
    m.insert(src, src + 2);
    if (!present) md.ins(i, key, val);
    unsigned i2;
    if (!md.has(src[1].first, i2)) md.ins(i2, src[1].first, src[1].second);
    break;
  }
  }
}
} // namespace

static void flatmap_step(unsigned op, unsigned n, unsigned slack) {
  // insert(first,last) is a loop of two inserts: the second runs on a vector of symbolic size, affordable from the empty map only
  if (op == 12) vf_assume(n == 0);
  M m;
  Model md;
  arbitrary(m, md, n, slack);
  one_op(m, md, op);
  check_equal(m, md);
  lookups(m, md);
}
OB(flatmap_step) { flatmap_step(vf_param(0), vf_param(1), vf_param(2) ? 2 : 0); }
OB(flatmap_step_big) { flatmap_step(vf_param(0), 3 + vf_param(1), vf_param(2) ? 2 : 0); }

OB(flatmap_range_ctor) {
  unsigned cnt = vf_param(0);
  std::pair<int, int> src[3];
  Model md;
  md.n = 0;
  for (unsigned j = 0; j < cnt; ++j) {
    src[j].first = (int)vf_nondet_u32();
    src[j].second = (int)vf_nondet_u32();
    unsigned i;
    if (!md.has(src[j].first, i)) md.ins(i, src[j].first, src[j].second); // std::map: the first of equal keys wins
  }
  M m(src, src + cnt);
  VF_CHECKM(m.size() == md.n, "range constructor keeps one entry per distinct key");
  unsigned i = 0;
  for (auto it = m.begin(); it != m.end(); ++it, ++i) {
    if (i >= md.n) return;
    VF_CHECKM(it->first == md.k[i], "range constructor: keys differ from std::map's");
    VF_CHECKM(it->second == md.v[i], "range constructor: values differ from std::map's");
  }
}
