// UNIT: id=C16 cxxflags="-DGALOIS_FORCE_STANDALONE -DGALOIS_PSTL_CUTOFF=vf_pstl_cutoff -DGALOIS_PSTL_BLOCK=vf_pstl_block"
// ASSUME: the serial cut-off and the partition block size (literal 1024 in ParallelSTL.h, overridable only under GALOIS_VERIF) are set per obligation through the variables vf_pstl_cutoff / vf_pstl_block; the shipped relation cut-off == block size is kept
// ASSUME: partition() runs over the on_each stand-in of C16_env.h: the T modelled workers run partition_helper::operator() ONE AFTER ANOTHER (worker 0 does all the block claiming, later workers find both cursors exhausted); interleavings of takeLow/takeHigh between workers are not covered here. The thread pool / on_each themselves are C03's subject
// ASSUME: array lengths, block size and T are enumerated (vf_param, table COMBOS in the file); element i is (i << 1 | bit_i) with a solver-chosen predicate bit (pred(v) = v & 1), so the elements are pairwise distinct and the permutation check is exact; dual_partition is also run on fully symbolic bytes
// ASSUME: unwindset only tightens the bound of the three loops of dual_partition (<= block+1 iterations); unwinding assertions stay on, a stale loop id falls back to the global bound
// ASSUME: the algorithms are templates over the iterator; they are instantiated with a harness random-access iterator that addresses a fixed array by index (vf16::It) and reports any dereference outside [first,last) as a failure; ob_partition_ptr instantiates raw pointers into a heap block of exactly n bytes (smaller bound, pointer comparisons are expensive for the solver)
// OB: ob_dual_partition tier=quick solver=cadical unwind=5 timeout=120 params=4,4 bounds="dual_partition on two disjoint blocks of n1,n2 = 0..3 elements (16 queries) separated by one untouched element; ALL element values" desc="returned cursors lie inside their blocks, at least one block is exhausted, everything before the low cursor satisfies the predicate, everything from the high cursor on does not, the two blocks together are a permutation of their input, nothing else is written"
// OB: ob_pstate_take tier=quick solver=cadical unwind=4 timeout=120 bounds="partition_helper_state over a 4096-element range: symbolic cursors first<=last, symbolic block size 1..1024; one takeLow or takeHigh (solver's choice)" desc="takeLow/takeHigh return a block of min(block size, remaining) elements that is a prefix/suffix of the unclaimed span, leave exactly the rest, and never touch the other cursor or the leftover span"
// OB: ob_pstate_update tier=quick solver=cadical unwind=4 timeout=120 bounds="partition_helper_state::update with symbolic leftover span and two symbolic (possibly empty) blocks inside a 4096-element range" desc="update() grows the leftover span [rfirst,rlast) to the convex hull of itself and every NON-empty block; empty blocks are ignored; claim cursors untouched"
// OB: ob_partition tier=quick solver=cadical unwind=7 unwindset=g__ZN6galois11ParallelSTL14dual_partitionIN4vf162ItIhEEN12_GLOBAL__N_17OddPredEEESt4pairIT_S8_ES8_S8_S8_S8_T0_.0:4,g__ZN6galois11ParallelSTL14dual_partitionIN4vf162ItIhEEN12_GLOBAL__N_17OddPredEEESt4pairIT_S8_ES8_S8_S8_S8_T0_.1:4,g__ZN6galois11ParallelSTL14dual_partitionIN4vf162ItIhEEN12_GLOBAL__N_17OddPredEEESt4pairIT_S8_ES8_S8_S8_S8_T0_.2:4 timeout=180 params=13 bounds="ParallelSTL::partition, 13 (n, block, T) combinations: block = cut-off = 1 with n = 0..4, block 2 with n = 2..6 (T = 1 worker); T = 2 workers in sequence for (n,block) = (4,2),(5,2),(3,1); ALL 2^n predicate-bit vectors" desc="the result is a valid partition point (everything before satisfies the predicate, nothing from it on does) and the array is a permutation of the input; no access outside the array"
// OB: ob_partition_b3 tier=quick solver=cadical unwind=8 unwindset=g__ZN6galois11ParallelSTL14dual_partitionIN4vf162ItIhEEN12_GLOBAL__N_17OddPredEEESt4pairIT_S8_ES8_S8_S8_S8_T0_.0:5,g__ZN6galois11ParallelSTL14dual_partitionIN4vf162ItIhEEN12_GLOBAL__N_17OddPredEEESt4pairIT_S8_ES8_S8_S8_S8_T0_.1:5,g__ZN6galois11ParallelSTL14dual_partitionIN4vf162ItIhEEN12_GLOBAL__N_17OddPredEEESt4pairIT_S8_ES8_S8_S8_S8_T0_.2:5 timeout=180 params=3 bounds="as ob_partition for block = cut-off = 3 with n = 4, 6, 7, one worker" desc="valid partition point and permutation with blocks of three elements (n = 6: both sides exhausted together; n = 7: short middle block)"
// OB: ob_partition_leftover tier=quick solver=cadical unwind=7 unwindset=g__ZN6galois11ParallelSTL14dual_partitionIN4vf162ItIhEEN12_GLOBAL__N_17OddPredEEESt4pairIT_S8_ES8_S8_S8_S8_T0_.0:4,g__ZN6galois11ParallelSTL14dual_partitionIN4vf162ItIhEEN12_GLOBAL__N_17OddPredEEESt4pairIT_S8_ES8_S8_S8_S8_T0_.1:4,g__ZN6galois11ParallelSTL14dual_partitionIN4vf162ItIhEEN12_GLOBAL__N_17OddPredEEESt4pairIT_S8_ES8_S8_S8_S8_T0_.2:4 timeout=180 params=13 bounds="as ob_partition, restricted to runs in which the workers leave at least one partially processed block (leftover span non-empty after on_each)" desc="delimits the failure of ob_partition: whenever a leftover span exists the serial clean-up yields a valid partition point and a permutation"
// OB: ob_partition_b3_leftover tier=quick solver=cadical unwind=8 unwindset=g__ZN6galois11ParallelSTL14dual_partitionIN4vf162ItIhEEN12_GLOBAL__N_17OddPredEEESt4pairIT_S8_ES8_S8_S8_S8_T0_.0:5,g__ZN6galois11ParallelSTL14dual_partitionIN4vf162ItIhEEN12_GLOBAL__N_17OddPredEEESt4pairIT_S8_ES8_S8_S8_S8_T0_.1:5,g__ZN6galois11ParallelSTL14dual_partitionIN4vf162ItIhEEN12_GLOBAL__N_17OddPredEEESt4pairIT_S8_ES8_S8_S8_S8_T0_.2:5 timeout=180 params=3 bounds="as ob_partition_b3, restricted to runs with a non-empty leftover span" desc="delimits the failure of ob_partition_b3"
// OB: ob_partition_ptr tier=quick solver=cadical unwind=6 timeout=300 bounds="ParallelSTL::partition over uint8_t* into a heap block of exactly n = 4 bytes, block size = cut-off = 2, one worker; ALL element values" desc="raw-pointer instantiation: valid partition point, permutation, no access outside the heap block"
#include "C16_env.h"
#include "vf_standalone.h"
#include <cstdlib>

namespace {
struct OddPred {
  bool operator()(uint8_t v) const { return v & 1; }
};
constexpr unsigned MAXN = 8;
typedef vf16::Store<uint8_t> S;
typedef vf16::It<uint8_t> It;

// the harness array holds n symbolic elements; a copy is kept
void make_array(unsigned n, uint8_t* copy, bool tagged) {
  S::n = n;
  vf16::unrolled<MAXN>(n, [&](unsigned i) {
    S::v[i] = tagged ? (uint8_t)((i << 1) | (vf_nondet_bool() ? 1 : 0)) : vf_nondet_u8();
    copy[i] = S::v[i];
  });
}
// multiset equality of a[0..n) and b[0..n)
void check_permutation(const uint8_t* a, const uint8_t* b, unsigned n) {
  vf16::unrolled<MAXN>(n, [&](unsigned i) {
    unsigned ca = 0, cb = 0;
    vf16::unrolled<MAXN>(n, [&](unsigned j) {
      ca += a[j] == b[i];
      cb += b[j] == b[i];
    });
    VF_CHECKM(ca == cb, "the array is a permutation of the input");
  });
}
void check_partitioned(const uint8_t* a, unsigned n, long k) {
  VF_CHECKM(0 <= k && k <= (long)n, "partition point inside [first,last]");
  vf16::unrolled<MAXN>(n, [&](unsigned i) {
    if ((long)i < k)
      VF_CHECKM((a[i] & 1) == 1, "every element before the partition point satisfies the predicate");
    else
      VF_CHECKM((a[i] & 1) == 0, "no element from the partition point on satisfies the predicate");
  });
}

typedef galois::ParallelSTL::partition_helper<It, OddPred> PH;
typedef PH::partition_helper_state PState;

bool g_require_leftover;
void observe_workers(void* fn) {
  PState* s = static_cast<PH*>(fn)->state;
  // the claimed region after all workers have returned
  VF_CHECKM(0 <= s->first.i && s->first.i <= s->last.i && s->last.i <= S::n, "claim cursors stay ordered inside the array");
  VF_CHECKM(s->first == s->last, "workers return only when every block has been claimed");
  if (g_require_leftover) vf_assume(!(s->rfirst.i == S::n && s->rlast.i == 0));
}

// (n, block size = cut-off, T); the last three rows (block 3) are run by the _b3 obligations
const uint8_t COMBOS[16][3] = {{0, 1, 1}, {1, 1, 1}, {2, 1, 1}, {3, 1, 1}, {4, 1, 1}, {2, 2, 1}, {3, 2, 1}, {4, 2, 1},
                               {5, 2, 1}, {6, 2, 1}, {4, 2, 2}, {5, 2, 2}, {3, 1, 2}, {4, 3, 1}, {6, 3, 1}, {7, 3, 1}};

void partition_scenario(bool requireLeftover, unsigned base) {
  unsigned c = base + vf_param(0);
  unsigned n = COMBOS[c][0], block = COMBOS[c][1], T = COMBOS[c][2];
  vf16::init(T, block, block, false);
  uint8_t in[MAXN];
  make_array(n, in, true);
  g_require_leftover = requireLeftover;
  vf16::post_on_each = observe_workers;
  It p               = galois::ParallelSTL::partition(It(0), It(n), OddPred());
  check_partitioned(S::v, n, p.i);
  check_permutation(S::v, in, n);
}
} // namespace

OB(dual_partition) {
  unsigned n1 = vf_param(0), n2 = vf_param(1), n = n1 + 1 + n2;
  uint8_t in[MAXN];
  make_array(n, in, false);
  It f1(0), l1(n1), f2(n1 + 1), l2(n);
  auto r = galois::ParallelSTL::dual_partition(f1, l1, f2, l2, OddPred());
  VF_CHECKM(f1 <= r.first && r.first <= l1, "low cursor inside the low block");
  VF_CHECKM(f2 <= r.second && r.second <= l2, "high cursor inside the high block");
  VF_CHECKM(r.first == l1 || r.second == f2, "at least one block is exhausted");
  long k1 = r.first.i, k2 = r.second.i;
  vf16::unrolled<MAXN>(n, [&](unsigned i) {
    if ((long)i < k1) VF_CHECKM(S::v[i] & 1, "everything before the low cursor satisfies the predicate");
    if ((long)i >= k2) VF_CHECKM(!(S::v[i] & 1), "nothing from the high cursor on satisfies the predicate");
  });
  VF_CHECKM(S::v[n1] == in[n1], "the element between the blocks is untouched");
  // the blocks together are a permutation of their input (the separator is unchanged, so compare whole arrays)
  check_permutation(S::v, in, n);
}

OB(pstate_take) {
  long f = vf_nondet_u32(), l = vf_nondet_u32(), rf = vf_nondet_u32(), rl = vf_nondet_u32();
  long block = vf_nondet_u32();
  vf_assume(f <= l && l <= 4096 && rf <= 4096 && rl <= 4096 && block >= 1 && block <= 1024);
  vf_pstl_block = block;
  PState s(It(0), It(4096), OddPred());
  s.first   = It(f);
  s.last    = It(l);
  s.rfirst  = It(rf);
  s.rlast   = It(rl);
  long want = (l - f) < block ? (l - f) : block;
  if (vf_nondet_bool()) {
    PH::RP r = s.takeLow();
    VF_CHECKM(r.first.i == f && r.second - r.first == want, "takeLow returns the first min(block, remaining) unclaimed elements");
    VF_CHECKM(s.first == r.second && s.last.i == l, "takeLow leaves exactly the rest: [old first + BS, last)");
  } else {
    PH::RP r = s.takeHigh();
    VF_CHECKM(r.second.i == l && r.second - r.first == want, "takeHigh returns the last min(block, remaining) unclaimed elements");
    VF_CHECKM(s.last == r.first && s.first.i == f, "takeHigh leaves exactly the rest: [first, old last - BS)");
  }
  VF_CHECKM(s.first <= s.last, "cursors stay ordered");
  VF_CHECKM(s.rfirst.i == rf && s.rlast.i == rl, "leftover span untouched by take");
  VF_CHECKM(s.Lock.is_locked() == false, "lock released");
}

OB(pstate_update) {
  long rf = vf_nondet_u32(), rl = vf_nondet_u32();
  long a0 = vf_nondet_u32(), a1 = vf_nondet_u32(), b0 = vf_nondet_u32(), b1 = vf_nondet_u32();
  vf_assume(rf <= 4096 && rl <= 4096 && a0 <= a1 && a1 <= 4096 && b0 <= b1 && b1 <= 4096);
  PState s(It(0), It(4096), OddPred());
  // fresh state: empty leftover span encoded as rfirst = last, rlast = first
  VF_CHECKM(s.rfirst.i == 4096 && s.rlast.i == 0 && s.first.i == 0 && s.last.i == 4096, "constructor");
  s.rfirst = It(rf);
  s.rlast  = It(rl);
  s.update(PH::RP(It(a0), It(a1)), PH::RP(It(b0), It(b1)));
  long ef = rf, el = rl;
  if (a0 != a1) {
    if (a0 < ef) ef = a0;
    if (a1 > el) el = a1;
  }
  if (b0 != b1) {
    if (b0 < ef) ef = b0;
    if (b1 > el) el = b1;
  }
  VF_CHECKM(s.rfirst.i == ef && s.rlast.i == el, "leftover span = hull of the old span and every non-empty block");
  VF_CHECKM(s.first.i == 0 && s.last.i == 4096, "claim cursors untouched by update");
  VF_CHECKM(s.Lock.is_locked() == false, "lock released");
}

OB(partition) { partition_scenario(false, 0); }
OB(partition_leftover) { partition_scenario(true, 0); }
OB(partition_b3) { partition_scenario(false, 13); }
OB(partition_b3_leftover) { partition_scenario(true, 13); }

OB(partition_ptr) {
  const unsigned n = 4;
  vf16::init(1, 2, 2, false);
  vf16::post_on_each = nullptr;
  uint8_t in[MAXN];
  uint8_t* a = (uint8_t*)std::malloc(n);
  vf16::unrolled<4>(n, [&](unsigned i) {
    a[i]  = vf_nondet_u8();
    in[i] = a[i];
  });
  uint8_t* p = galois::ParallelSTL::partition(a, a + n, OddPred());
  VF_CHECKM(a <= p && p <= a + n, "partition point inside [first,last]");
  check_partitioned(a, n, p - a);
  check_permutation(a, in, n);
  std::free(a);
}
