#include "vf_rt.h"
/* CBMC 6.11 reports a spurious "arithmetic overflow on signed -" for every NEGATIVE same-object pointer difference
 * (repro: char*b=malloc(60),*p=b,*q=b+59; p-q).  Local replacement of the runtime macro for this unit only: the
 * difference of the two offsets, with the same-object requirement asserted explicitly. */
#ifdef __CPROVER__
#undef VF_PTRDIFF
#define VF_PTRDIFF(p, q) ((p) == (q) ? (uint64_t)0 : \
  (__CPROVER_assert(__CPROVER_POINTER_OBJECT(p) == __CPROVER_POINTER_OBJECT(q), "pointer difference: operands point into different objects"), \
   (uint64_t)((int64_t)__CPROVER_POINTER_OFFSET(p) - (int64_t)__CPROVER_POINTER_OFFSET(q))))
#endif
