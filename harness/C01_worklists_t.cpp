// UNIT: id=C01 cxxflags="-DGALOIS_FORCE_STANDALONE -DVF_PTS_BYTES=256"
// ASSUME: environment C01_env.h: getThreadPool() is a fake ThreadPool object whose topology records (tid, socket, socketLeader, cumulativeMaxSocket) are written by hand; the thread-local my_box/ptsBase/pssBase are switched by hand ('running on pool thread t'); REAL PerThreadStorage.cpp / SimpleLock.cpp; page allocator (C09) = 256-byte calloc blocks; GALOIS_DIE = abort() without the iostream text
// ASSUME: substrate::PtrLock<T> is replaced by C01_ptrlock_model.h (pointer and lock flag in two fields, same interface, lock discipline CHECKED): CBMC cannot constant-propagate a pointer through (uintptr_t)p|1 / &~1, the packed word is examined by C06 and by the concurrent hand-off obligations
// ASSUME: GALOIS_FORCE_STANDALONE (the repository's own switch) routes FixedSizeAllocator to malloc; the Galois heaps are C09's subject
// ASSUME: ONE worker thread operates on the worklist (chunk hand-off between workers, the executor and the abort path are separate obligations); pool configuration 0 = 1 thread, 1 = 2 threads on 2 sockets with the worker being thread 1, 2 = 2 threads on 1 socket with the worker being thread 1; the worklist object is constructed on thread 0 as for_each_impl does
// ASSUME: operation KINDS are enumerated as separate solver queries (vf_param); item values are solver variables in 0..3; --max-field-sensitivity-array-size 300 lets CBMC track the 256-byte per-thread blocks per byte (otherwise pointers stored there are never constant-propagated)
// OB: ob_wl_chunk_all4 tier=thorough solver=cadical unwind=32 timeout=600 cbmc="--max-field-sensitivity-array-size 300" params=5,4,4,4,4,3 param_limit=300 bounds="ChunkFIFO/ChunkLIFO/PerSocketChunkFIFO/PerSocketChunkLIFO/PerSocketChunkBag <2>: sequences of 4 ops from {push, push range, pop, flush} x 3 pool configurations: 300 of the 3840 (type, kind sequence, configuration) combinations, chosen by VERIF_SEED" desc="work conservation, one worker, sampled kind sequences"
// OB: ob_wl_ptchunk_all4 tier=thorough solver=cadical unwind=32 timeout=600 cbmc="--max-field-sensitivity-array-size 300" params=2,3,3,3,3,3 param_limit=120 bounds="PerThreadChunkFIFO/LIFO <2>: sequences of 4 ops from {push, push range, pop} x 3 pool configurations: 120 of the 486 combinations, chosen by VERIF_SEED" desc="work conservation, one worker, sampled kind sequences"
// OB: ob_wl_chunk_rows tier=thorough solver=cadical unwind=32 timeout=600 cbmc="--max-field-sensitivity-array-size 300" params=6,3 bounds="the five ChunkMaster worklists <2>, all 6 rows of SEQ_F x 3 pool configurations" desc="work conservation, one worker"
// OB: ob_wl_ptchunk_rows tier=thorough solver=cadical unwind=32 timeout=600 cbmc="--max-field-sensitivity-array-size 300" params=5,3 bounds="PerThreadChunkFIFO/LIFO <2>, all 5 rows of SEQ_N x 3 pool configurations" desc="work conservation, one worker"
// OB: ob_wl_chunk3 tier=thorough solver=cadical unwind=32 timeout=600 cbmc="--max-field-sensitivity-array-size 300" params=5,6,1 bounds="the five ChunkMaster worklists with chunk size 3, table SEQ_F" desc="work conservation, one worker, chunk size 3"
#include "C01_wl_common.h"
#include "galois/worklists/Chunk.h"
#include "galois/worklists/PerThreadChunk.h"
#include "vf_standalone.h"

namespace c01 {
template <typename T, template <typename, bool> class QT, bool D, bool S, int CS, bool C>
struct Ops<galois::worklists::internal::ChunkMaster<T, QT, D, S, CS, C>> {
  typedef galois::worklists::internal::ChunkMaster<T, QT, D, S, CS, C> WL;
  static constexpr bool has_flush = true;
  static void start(WL&, Bag&) {}
  static void push(WL& wl, int v) { wl.push(v); }
  static void push2(WL& wl, int* b, int* e) { wl.push(b, e); }
  static galois::optional<int> pop(WL& wl) { return wl.pop(); }
  static void flush(WL& wl) { wl.flush(); }
};
} // namespace c01

using namespace galois::worklists;
namespace c01 {
// chunk size 3: longer fills
static const unsigned char SEQ_F3[][SEQLEN] = {
    {1, 1, 2, 2, 2, 2, 9},       // 3 + 1 items: overflow into a second chunk, pop across the boundary
    {1, 0, 3, 0, 2, 1, 2, 9},    // flush a full chunk, keep pushing
    {1, 1, 1, 2, 0, 3, 2, 9},    // two full chunks
    {2, 0, 2, 2, 1, 3, 1, 1, 9}, // empty pops, flush between range pushes
    {0, 2, 0, 2, 0, 2, 9},
    {1, 0, 3, 1, 0, 3, 2, 2, 0, 9},
};
} // namespace c01
// thorough tier: vf_param(0) selects the worklist type, the remaining parameters are the kind sequence + configuration
OB(wl_chunk_all4) {
  switch (vf_param(0)) {
  case 0: c01::conserve<ChunkFIFO<2>, 4>(1); break;
  case 1: c01::conserve<ChunkLIFO<2>, 4>(1); break;
  case 2: c01::conserve<PerSocketChunkFIFO<2>, 4>(1); break;
  case 3: c01::conserve<PerSocketChunkLIFO<2>, 4>(1); break;
  default: c01::conserve<PerSocketChunkBag<2>, 4>(1); break;
  }
}
OB(wl_ptchunk_all4) {
  if (vf_param(0) == 0)
    c01::conserve<PerThreadChunkFIFO<2>, 4>(1);
  else
    c01::conserve<PerThreadChunkLIFO<2>, 4>(1);
}
OB(wl_chunk3) {
  switch (vf_param(0)) {
  case 0: c01::conserve_table<ChunkFIFO<3>>(c01::SEQ_F3, 6, 1); break;
  case 1: c01::conserve_table<ChunkLIFO<3>>(c01::SEQ_F3, 6, 1); break;
  case 2: c01::conserve_table<PerSocketChunkFIFO<3>>(c01::SEQ_F3, 6, 1); break;
  case 3: c01::conserve_table<PerSocketChunkLIFO<3>>(c01::SEQ_F3, 6, 1); break;
  default: c01::conserve_table<PerSocketChunkBag<3>>(c01::SEQ_F3, 6, 1); break;
  }
}
OB(wl_chunk_rows) {
  c01::conserve_table<ChunkFIFO<2>, ChunkLIFO<2>, PerSocketChunkFIFO<2>, PerSocketChunkLIFO<2>, PerSocketChunkBag<2>>(c01::SEQ_F, 6);
}
OB(wl_ptchunk_rows) { c01::conserve_table<PerThreadChunkFIFO<2>, PerThreadChunkLIFO<2>>(c01::SEQ_N, 5); }
