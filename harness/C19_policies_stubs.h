#include "vf_rt.h"
/* External models for unit C19_policies.
 * sqrt: only called as sqrt((double)numHosts) by factorizeHosts.  CBMC's generic sqrt model costs ~50 s per query,
 * so within the bound (integer arguments 0..16) the model is the table of correctly rounded IEEE double results
 * (natively: libm, which the translator validation compares against).  Any other argument is out of bound
 * (reported as BOUND = inconclusive, never a pass). */
#ifndef VF_C19_POLICIES_STUBS_H
#define VF_C19_POLICIES_STUBS_H
#define VF_HAVE_x_sqrt
#ifdef __CPROVER__
VF_X double x_sqrt(double x) {
  static const double tab[17] = {0.0, 1.0, 1.4142135623730951, 1.7320508075688772, 2.0, 2.2360679774997898,
                                 2.4494897427831779, 2.6457513110645907, 2.8284271247461903, 3.0,
                                 3.1622776601683795, 3.3166247903553998, 3.4641016151377544, 3.6055512754639891,
                                 3.7416573867739413, 3.8729833462074170, 4.0};
  int k = (x >= 0.0 && x <= 16.0) ? (int)x : -1;
  int ok = k >= 0 && (double)k == x;
  VF_BOUND_ASSERT(ok, "sqrt argument outside the modelled table (integers 0..16)");
  VF_ASSUME(ok);
  return tab[k];
}
#else
VF_X double x_sqrt(double x) { return sqrt(x); }
#endif
#endif
