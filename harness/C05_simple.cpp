// UNIT: id=C05 checks=min threads=3 hb=0 plain=invisible validate=0 validate_reason="concurrent unit: the schedule is a solver variable of the sequentialised step machine"
// ASSUME: threads are sequentialised by ir2c; std::mutex / std::condition_variable are contract models (rt/vf_externs.h): lock blocks while held, wait = unlock + block until the notification count changes + re-lock, notify wakes every waiter, no spurious wake-ups; every such call is a scheduling point
// ASSUME: plain accesses (the OneWayBarrier counters) are glued to the preceding scheduling point - they are meant to be protected by the mutex; an access outside the mutex is therefore atomic with its neighbours here (SimpleBarrier's unlocked reinit() is such an access)
// ASSUME: CBMC's per-dereference pointer checks are off in this unit (checks=min)
// ASSUME: values follow SC interleavings
// OB: ob_simple_T2 tier=quick unwind=90 timeout=2400 solver=cadical mem_gb=12 cbmc="--max-field-sensitivity-array-size 300" bounds="SimpleBarrier (two OneWayBarriers over mutex/condition variable): T=2 x 1 phase (one wait() = two one-way barriers), 40 steps" desc="no thread leaves its k-th wait before all entered it; all return; no deadlock"
#include "vf.h"
#include "vf_nodie.h"
#include <condition_variable>
#include <mutex>
#include "galois/substrate/ThreadPool.h"
#include "galois/substrate/Barrier.h"
namespace galois {
namespace substrate {
thread_local ThreadPool::per_signal ThreadPool::my_box;
}
} // namespace galois
#include "../src/Barrier.cpp"
#include "../src/Barrier_Simple.cpp"

extern "C" void vf_sched_simple(unsigned n, unsigned steps);
namespace {
unsigned vfg_phase[3], vfg_n;
SimpleBarrier* vfg_sb;
} // namespace
extern "C" void vf_tinit_simple(unsigned tid) { galois::substrate::ThreadPool::my_box.topo.tid = tid; }
extern "C" void vf_thread_simple(unsigned tid) {
  for (unsigned k = 1; k <= 1; ++k) {
    vfg_phase[tid] = k;
    vfg_sb->SimpleBarrier::wait();
    for (unsigned u = 0; u < vfg_n; ++u)
      vf_assert(vfg_phase[u] >= k, "a thread returned from its k-th wait before every participant had entered its k-th wait");
  }
}
OB(simple_T2) {
  vfg_sb = new SimpleBarrier(2);
  vfg_n  = 2;
  vf_sched_simple(2, 40);
  for (unsigned u = 0; u < 2; ++u) VF_CHECKM(vfg_phase[u] == 1, "every participant completed the phase");
}
