// UNIT: id=C15
// ASSUME: DynamicBitset.h is the real header; its include of galois/Galois.h (the whole parallel runtime) is cut by pre-defining the include guard. The harness supplies galois::iterate / do_all / on_each / getActiveThreads as SEQUENTIAL stand-ins (do_all = a for loop over the range, on_each = the body once per simulated thread id in increasing order); do_all/on_each themselves are C03's subject. count() still uses the real GAccumulator over the real PerThreadStorage (environment of C15_env.h, 1 pool thread)
// ASSUME: num_bits is enumerated (vf_param) because it is an allocation size; begin/end/bit indices and the bit contents are solver variables. Arbitrary contents are written word-wise through get_vec() with the bits above num_bits clear (the invariant set() maintains)
// ASSUME: (cut) getOffsets() is not examined: it returns a std::vector whose size is the symbolic bit count (allocation of symbolic size); bitwise_or/and/xor are one-line word loops over do_all and are not examined
// ASSUME: sequential obligations only; concurrent set/reset on one word is a separate unit
// OB: ob_bits_reset_range tier=quick solver=cadical unwind=8 timeout=120 params=12 bounds="DynamicBitSet::reset(begin,end): num_bits in {1,2,63,64,65,100,127,128,129,190,191,192} (one query each), ALL begin<=end<num_bits symbolic, symbolic contents, solver-chosen probe bit" desc="reset(begin,end) clears exactly the bits begin..end (inclusive) and leaves every other bit, at every word alignment"
// OB: ob_bits_reset_range_all tier=thorough solver=cadical unwind=8 timeout=120 params=192 bounds="as ob_bits_reset_range for every num_bits 1..192" desc="reset(begin,end) clears exactly the bits begin..end"
// OB: ob_bits_setreset tier=quick solver=cadical unwind=8 timeout=120 params=6 bounds="num_bits in {1,64,65,128,129,192}: symbolic contents, 3 operations each symbolically set(i)/reset(i)/test(i) with symbolic i<num_bits, then resize to a symbolic-choice of the same sizes" desc="set/reset return the old bit and change exactly that bit; test reads it; size(); resize() gives the new size with all bits clear; reset() clears all"
// OB: ob_bits_count tier=quick solver=cadical unwind=34 timeout=180 params=6 bounds="num_bits in {1,64,65,128,129,192}: symbolic contents" desc="count() equals the number of set bits (popcount per word summed through the real GAccumulator); oracle = bit-by-bit sum for one-word bitsets, sum of per-word popcount intrinsics for larger ones"
#include "C15_env.h"
#include "C15_galois_cut.h"

namespace {
constexpr unsigned MAXW = 3;
const unsigned SIZES12[12] = {1, 2, 63, 64, 65, 100, 127, 128, 129, 190, 191, 192};
const unsigned SIZES6[6]   = {1, 64, 65, 128, 129, 192};

// fill with arbitrary contents (bits >= n clear); the model is the word array
void fill(galois::DynamicBitSet& bs, unsigned n, uint64_t* w) {
  bs.resize(n);
  unsigned nw = (n + 63) / 64;
  VF_CHECK(bs.size() == n && bs.get_vec().size() == nw);
  for (unsigned i = 0; i < MAXW; ++i) {
    w[i] = 0;
    if (i < nw) {
      VF_CHECKM(bs.get_vec()[i].load() == 0, "resize() leaves all bits clear");
      uint64_t v = vf_nondet_u64();
      if (i == nw - 1 && n % 64) v &= (((uint64_t)1 << (n % 64)) - 1);
      w[i]            = v;
      bs.get_vec()[i] = v;
    }
  }
}
bool mbit(const uint64_t* w, uint64_t i) { return (w[i / 64] >> (i % 64)) & 1; }
} // namespace

static void reset_range(unsigned n) {
  galois::DynamicBitSet bs;
  uint64_t w[MAXW];
  fill(bs, n, w);
  uint64_t b = vf_nondet_u64(), e = vf_nondet_u64(), k = vf_nondet_u64();
  vf_assume(b <= e && e < n && k < n);
  bs.reset(b, e);
  bool expect = (k >= b && k <= e) ? false : mbit(w, k);
  VF_CHECKM(bs.test(k) == expect, "reset(begin,end) clears exactly the bits begin..end and keeps all others");
  // nothing above num_bits appears
  unsigned nw = (n + 63) / 64;
  if (n % 64) VF_CHECKM((bs.get_vec()[nw - 1].load() >> (n % 64)) == 0, "bits above num_bits stay clear");
}
OB(bits_reset_range) { reset_range(SIZES12[vf_param(0)]); }
OB(bits_reset_range_all) { reset_range(vf_param(0) + 1); }

OB(bits_setreset) {
  unsigned n = SIZES6[vf_param(0)];
  galois::DynamicBitSet bs;
  uint64_t w[MAXW];
  fill(bs, n, w);
  for (unsigned s = 0; s < 3; ++s) {
    uint64_t i = vf_nondet_u64(), k = vf_nondet_u64();
    vf_assume(i < n && k < n);
    unsigned op = vf_nondet_u8();
    vf_assume(op < 3);
    bool old = mbit(w, i);
    if (op == 0) {
      VF_CHECKM(bs.set(i) == old, "set returns the old value of the bit");
      w[i / 64] |= (uint64_t)1 << (i % 64);
    } else if (op == 1) {
      VF_CHECKM(bs.reset(i) == old, "reset(index) returns the old value of the bit");
      w[i / 64] &= ~((uint64_t)1 << (i % 64));
    } else {
      VF_CHECKM(bs.test(i) == old, "test reads the bit");
    }
    VF_CHECKM(bs.test(k) == mbit(w, k), "exactly the addressed bit changed");
  }
  VF_CHECK(bs.size() == n);
  uint64_t k = vf_nondet_u64();
  vf_assume(k < n);
  bs.reset();
  VF_CHECKM(!bs.test(k), "reset() clears every bit");
  unsigned n2 = SIZES6[vf_nondet_u8() % 6];
  bs.set(k);
  bs.resize(n2);
  uint64_t j = vf_nondet_u64();
  vf_assume(j < n2);
  VF_CHECKM(bs.size() == n2 && !bs.test(j), "resize() gives the new size with every bit clear");
}

OB(bits_count) {
  vfenv::init(1);
  unsigned n = SIZES6[vf_param(0)];
  galois::DynamicBitSet bs;
  uint64_t w[MAXW];
  fill(bs, n, w);
  uint64_t pc = 0;
#define VF_B1(x, i) (((x) >> (i)) & 1)
#define VF_B4(x, i) (VF_B1(x, i) + VF_B1(x, i + 1) + VF_B1(x, i + 2) + VF_B1(x, i + 3))
#define VF_B16(x, i) (VF_B4(x, i) + VF_B4(x, i + 4) + VF_B4(x, i + 8) + VF_B4(x, i + 12))
  for (unsigned i = 0; i < MAXW; ++i) {
    uint64_t x = w[i];
    // per-word popcount: the intrinsic's model (vf_rt.h vf_ctpop) is shared with the code under test; what count()
    // adds is the summation over words through do_all + GAccumulator.  An independent bit-by-bit sum is used where the
    // solver can still prove the equivalence (bitsets of one word); two-word equivalence already exceeds 180 s.
    pc += (n <= 64) ? VF_B16(x, 0) + VF_B16(x, 16) + VF_B16(x, 32) + VF_B16(x, 48) : (uint64_t)__builtin_popcountll(x);
  }
  VF_CHECKM(bs.count() == pc, "count() is the number of set bits");
}
