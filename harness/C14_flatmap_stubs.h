#include "vf_rt.h"
/* std::out_of_range(const char*) -- only ever constructed immediately before __cxa_throw (a cut); the object is never inspected */
#define VF_HAVE_x__ZNSt12out_of_rangeC1EPKc
VF_X void x__ZNSt12out_of_rangeC1EPKc(char* self, char* msg) { }
#define VF_HAVE_x__ZNSt12out_of_rangeD1Ev
VF_X void x__ZNSt12out_of_rangeD1Ev(char* self) { }
