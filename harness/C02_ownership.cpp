// UNIT: id=C02 checks=min threads=3 hb=1 vf_maxloc=3 vf_maxpay=3 plain=invisible validate=0 validate_reason="concurrent unit: the schedule is a solver variable of the sequentialised step machine"
// ASSUME: threads are sequentialised by ir2c: every atomic access is a scheduling point; plain accesses are glued (the lockable's 'next' link and the context's 'locks' list are only touched by the owner; the ghost owner stamps would expose a violation of that)
// ASSUME: CBMC's per-dereference pointer checks are off in this unit (checks=min: they multiply the formula beyond memory); harness assertions, deadlock probe, step-bound and unwinding assertions are on
// ASSUME: values follow SC interleavings; ghost vector clocks honour the memory orders in the IR; compare_exchange never fails spuriously
// ASSUME: GALOIS_DIE/GALOIS_ASSERT keep their fatal exit but drop the formatted message
// ASSUME: the conflict path is the default GALOIS_USE_LONGJMP_ABORT one: signalConflict() longjmps to the setjmp in the modelled worker (modelled as a local goto inside the inlined thread body)
// OB: ob_own_T2 tier=attic unwind=40 timeout=1500 solver=cadical bounds="T=2 contexts, 2 lockables, each context performs 2 acquire() calls with symbolic target and flag in {READ, WRITE, UNPROTECTED, PREVIOUS} (re-acquisition allowed), then commit; a conflict cancels; 30 steps" desc="never two owners; ALREADY_OWNER only for the true owner; commit/cancel frees everything; hand-over is happens-before; no deadlock"
// OB: ob_own_T3 tier=attic unwind=60 timeout=3600 solver=cadical bounds="T=3 contexts, 2 lockables, 2 acquires each, 45 steps" desc="same with three contexts"
// OB: ob_seq3 checks=std tier=quick unwind=12 timeout=300 params=6,6,6 param_limit=72 bounds="two contexts, two lockables, 72 of the 216 sequences of 3 operations from {A.acquire, B.acquire, A.commit, B.commit, A.abort, B.abort} (VERIF_SEED; all 216 in the thorough tier); acquire target and flag symbolic; operations are atomic (interleaving at operation granularity)" desc="owner words, lock bits, neighbourhood lists equal an ownership model after every operation; a conflict leaves everything unchanged; commit/abort release exactly the caller's lockables"
// OB: ob_seq3_all checks=std tier=thorough unwind=12 timeout=300 params=6,6,6 bounds="all 216 sequences of 3 operations" desc="same, complete"
// OB: ob_seq4 checks=std tier=thorough unwind=12 timeout=300 params=6,6,6,6 param_limit=400 bounds="400 of the 1296 sequences of 4 operations" desc="same, deeper"
// OB: ob_flags checks=std tier=quick unwind=10 timeout=300 bounds="one context, symbolic flag incl. optional high bits" desc="UNPROTECTED/PREVIOUS never touch the owner word; READ and WRITE both take ownership"
#include "vf.h"
#include <csetjmp>
#include "vf_nodie.h"
#include "galois/runtime/Context.h"
#include "../src/Context.cpp"
#include "../src/PtrLock.cpp"

using namespace galois::runtime;
extern "C" void vf_sched_own(unsigned n, unsigned steps);

namespace {
Lockable vfs_L[2];
SimpleRuntimeContext* vfs_C[3];
unsigned vfg_target[3][2];            // ghost: plan (which lockable each acquire() names)
galois::MethodFlag vfg_flag[3][2];    // ghost: plan (method flags)
unsigned vfg_owner[2];                // ghost: owner stamp (tid+1) written by the 'operator' into objects it owns
int vfg_pay[2];                       // plain payload protected by ownership (race-checked by the ghost clocks)
unsigned vfg_done;

inline LockManagerBase* ownerOf(unsigned l) { return vfs_L[l].owner.getValue(); }
} // namespace

extern "C" void vf_thread_own(unsigned tid) {
  SimpleRuntimeContext* ctx = vfs_C[tid];
  setThreadContext(ctx);
  bool held[2] = {false, false};
  ctx->startIteration();
  if (_setjmp(execFrame) == 0) {
    for (unsigned k = 0; k < 2; ++k) {
      unsigned l            = vfg_target[tid][k];
      galois::MethodFlag fl = vfg_flag[tid][k];
      galois::runtime::acquire(&vfs_L[l], fl);
      if (shouldLock(fl)) {
        // acquire() returned normally: the iteration now believes it owns lockable l
        vf_assert(vfg_owner[l] == 0 || vfg_owner[l] == tid + 1, "two iterations own the same lockable at the same time");
        vfg_owner[l] = tid + 1;
        held[l]      = true;
        vf_hb_write(&vfg_pay[l]); // data of the object: ordered after the previous owner's accesses?
        vfg_pay[l] = (int)tid;
      }
    }
    for (unsigned l = 0; l < 2; ++l)
      if (held[l]) {
        vf_assert(vfg_owner[l] == tid + 1, "ownership lost before commit");
        vf_hb_read(&vfg_pay[l]);
        vf_assert(vfg_pay[l] == (int)tid, "object data changed while owned");
        vfg_owner[l] = 0;
      }
    ctx->commitIteration();
  } else {
    // conflict: the iteration is aborted, everything it acquired is released
    for (unsigned l = 0; l < 2; ++l)
      if (held[l]) {
        vf_assert(vfg_owner[l] == tid + 1, "ownership lost before abort");
        vfg_owner[l] = 0;
      }
    ctx->cancelIteration();
  }
  for (unsigned l = 0; l < 2; ++l)
    vf_assert(ownerOf(l) != ctx, "a lockable is still owned by an iteration that has committed or aborted");
  vf_assert(ctx->locks == nullptr, "neighbourhood list not empty after commit/abort");
  setThreadContext(nullptr);
  ++vfg_done;
}

static void setup(unsigned n) {
  for (unsigned t = 0; t < n; ++t) {
    vfs_C[t] = new SimpleRuntimeContext();
    for (unsigned k = 0; k < 2; ++k) {
      unsigned l = vf_nondet_u8();
      vf_assume(l < 2);
      vfg_target[t][k] = l;
      unsigned f       = vf_nondet_u8();
      vf_assume(f < 4);
      vfg_flag[t][k] = f == 0 ? galois::MethodFlag::UNPROTECTED : f == 1 ? galois::MethodFlag::READ : f == 2 ? galois::MethodFlag::WRITE : galois::MethodFlag::PREVIOUS;
    }
  }
  vf_hb_register(&vfs_L[0]);
  vf_hb_register(&vfs_L[1]);
}

OB(own_T2) {
  setup(2);
  vf_sched_own(2, 30);
  VF_CHECK(vfg_done == 2);
  for (unsigned l = 0; l < 2; ++l) {
    VF_CHECKM(vfs_L[l].owner.getValue() == nullptr && !vfs_L[l].owner.is_locked(), "no lockable is left owned when all iterations are done");
    VF_CHECKM(vfs_L[l].next == nullptr, "lockable unlinked");
  }
}
OB(own_T3) {
  setup(3);
  vf_sched_own(3, 45);
  VF_CHECK(vfg_done == 3);
  for (unsigned l = 0; l < 2; ++l) VF_CHECK(vfs_L[l].owner.getValue() == nullptr && !vfs_L[l].owner.is_locked());
}

OB(flags) {
  SimpleRuntimeContext ctx;
  setThreadContext(&ctx);
  Lockable x;
  unsigned raw = vf_nondet_u8();
  galois::MethodFlag m = (galois::MethodFlag)raw;
  unsigned base = raw & (unsigned)galois::MethodFlag::INTERNAL_MASK;
  vf_assume(base == (unsigned)galois::MethodFlag::UNPROTECTED || base == (unsigned)galois::MethodFlag::READ ||
            base == (unsigned)galois::MethodFlag::WRITE || base == (unsigned)galois::MethodFlag::PREVIOUS);
  galois::runtime::acquire(&x, m);
  bool takes = base == (unsigned)galois::MethodFlag::READ || base == (unsigned)galois::MethodFlag::WRITE;
  VF_CHECKM((x.owner.getValue() == &ctx) == takes, "READ and WRITE take ownership; UNPROTECTED and PREVIOUS never touch the owner word");
  VF_CHECK(x.owner.is_locked() == takes);
  ctx.commitIteration();
  VF_CHECK(x.owner.getValue() == nullptr && !x.owner.is_locked() && x.next == nullptr);
}

// ---- operation-granularity sequences (sequential): the conflict longjmp is the return-propagation model
namespace {
int seq_acquire(SimpleRuntimeContext* c, Lockable* l, galois::MethodFlag f) {
  setThreadContext(c);
  if (_setjmp(execFrame) == 0) {
    galois::runtime::acquire(l, f);
    return 0;
  }
  return 1; // CONFLICT
}
template <unsigned NOPS>
void run_seq() {
  SimpleRuntimeContext A, B;
  SimpleRuntimeContext* ctx[2] = {&A, &B};
  Lockable L[2];
  int owner[2] = {-1, -1}; // model: index of the owning context
  for (unsigned i = 0; i < NOPS; ++i) {
    unsigned op = vf_param(i);
    unsigned c  = op & 1;
    switch (op >> 1) {
    case 0: { // acquire
      unsigned l = vf_nondet_u8();
      vf_assume(l < 2);
      unsigned f = vf_nondet_u8();
      vf_assume(f < 4);
      galois::MethodFlag fl = f == 0 ? galois::MethodFlag::UNPROTECTED : f == 1 ? galois::MethodFlag::READ : f == 2 ? galois::MethodFlag::WRITE : galois::MethodFlag::PREVIOUS;
      int r = seq_acquire(ctx[c], &L[l], fl);
      if (!shouldLock(fl)) {
        VF_CHECKM(r == 0, "UNPROTECTED/PREVIOUS never conflict");
      } else if (owner[l] == -1 || owner[l] == (int)c) {
        VF_CHECKM(r == 0, "acquire of a free or already owned lockable succeeds");
        owner[l] = (int)c;
      } else {
        VF_CHECKM(r == 1, "acquire of a lockable owned by another iteration signals a conflict");
        // the executor aborts the iteration that lost the conflict
        ctx[c]->cancelIteration();
        for (unsigned k = 0; k < 2; ++k)
          if (owner[k] == (int)c) owner[k] = -1;
      }
      break;
    }
    case 1: // commit
      setThreadContext(ctx[c]);
      ctx[c]->commitIteration();
      for (unsigned k = 0; k < 2; ++k)
        if (owner[k] == (int)c) owner[k] = -1;
      break;
    case 2: // voluntary abort
      setThreadContext(ctx[c]);
      ctx[c]->cancelIteration();
      for (unsigned k = 0; k < 2; ++k)
        if (owner[k] == (int)c) owner[k] = -1;
      break;
    }
    // the real state equals the model
    for (unsigned k = 0; k < 2; ++k) {
      LockManagerBase* o = L[k].owner.getValue();
      VF_CHECKM(o == (owner[k] < 0 ? nullptr : (LockManagerBase*)ctx[owner[k]]), "owner word equals the ownership model");
      VF_CHECKM(L[k].owner.is_locked() == (owner[k] >= 0), "lock bit set exactly while owned");
      if (owner[k] < 0) VF_CHECKM(L[k].next == nullptr, "a free lockable is not linked into any neighbourhood list");
    }
    for (unsigned x = 0; x < 2; ++x) { // neighbourhood list of each context = exactly its lockables, each once
      unsigned seen[2] = {0, 0}, n = 0;
      for (Lockable* p = ctx[x]->locks; p && n < 3; p = p->next, ++n)
        for (unsigned k = 0; k < 2; ++k)
          if (p == &L[k]) ++seen[k];
      VF_CHECKM(n <= 2, "neighbourhood list is acyclic");
      for (unsigned k = 0; k < 2; ++k) VF_CHECKM(seen[k] == (owner[k] == (int)x ? 1u : 0u), "neighbourhood list holds exactly the lockables the context owns");
    }
  }
  A.commitIteration();
  B.commitIteration();
  for (unsigned k = 0; k < 2; ++k) VF_CHECKM(L[k].owner.getValue() == nullptr && !L[k].owner.is_locked(), "nothing is left owned");
}
} // namespace
OB(seq3) { run_seq<3>(); }
OB(seq3_all) { run_seq<3>(); }
OB(seq4) { run_seq<4>(); }
