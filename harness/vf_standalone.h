// With the repository's GALOIS_FORCE_STANDALONE switch the static member SizedHeapFactory::alloc is declared
// but defined nowhere; a harness TU using the switch supplies the definition (MallocHeap is stateless).
#pragma once
#include "galois/runtime/Mem.h"
#ifdef GALOIS_FORCE_STANDALONE
galois::runtime::SizedHeapFactory::SizedHeap galois::runtime::SizedHeapFactory::alloc;
#endif
