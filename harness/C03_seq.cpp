// UNIT: id=C03
// ASSUME: sequential step contracts only: each obligation starts from an ARBITRARY consistent pre-state (not only reachable ones) and executes ONE real operation; the interleaving of these steps between owner and thieves and the fork/join protocol are the concurrent units of C03
// ASSUME: DoAllStealingExec<R,F,Args>::ThreadContext is the real nested class (Executor_DoAll.h), instantiated for R = StandardRange<boost::counting_iterator<size_t>> and StandardRange<int*>; the int* range lies inside a 16384-element array that is never dereferenced. Private members are reached with -fno-access-control. ob_transfer calls the real transferWork on raw storage of the executor in which only chunk_size is initialised (transferWork reads nothing else)
// ASSUME: ThreadPool.cpp is included verbatim; its OS parts are harness fakes that the examined function never calls (getHWTopo, bindThreadSelf, EnvCheck, initPTS, gErrorStr). ob_cascade runs the real ThreadPool::cascade() on a pool object built in raw storage whose only initialised member is signals (16 harness mailboxes). 'thread t runs cascade()' = the thread-local mailbox my_box is loaded with the wake-up range recorded in mailbox t, then cascade(true) is called; fast mode is used so that per_signal::wakeup is two plain atomic stores (done = 0, fastRelease = 1) - the mutex/condition-variable form and the waiting side are the concurrent fork/join unit. The master's range [1,num) is set as runInternal() sets it
// ASSUME: ob_cascade counts a wake-up by the fastRelease flag found set after a cascade() call (flags are cleared before each call): two wake-ups of the SAME mailbox inside one call would be counted once (they would target signals[wbegin] and signals[midpoint]; the obligation checks the recorded ranges of both children, which differ)
// OB: ob_getwork_cnt tier=quick solver=cadical unwind=4 timeout=120 bounds="ThreadContext<counting_iterator<size_t>>::getWork: ALL shared ranges begin<=end<2^62 with m_size = end-begin, chunk 1..4096 symbolic, lock free" desc="getWork returns false and changes nothing on an empty range; otherwise returns the prefix of min(chunk, size) elements, leaves exactly the rest (piece and rest disjoint, union = old range), m_size = new end-begin, lock released"
// OB: ob_getwork_ptr tier=quick solver=cadical unwind=4 timeout=120 bounds="ThreadContext<int*>::getWork: shared range anywhere inside a 16384-int array, chunk 1..4096 symbolic" desc="same contract for raw pointers"
// OB: ob_steal_cnt tier=quick solver=cadical unwind=4 timeout=120 bounds="ThreadContext<counting_iterator<size_t>>::stealWork: ALL shared ranges with consistent m_size, amount HALF or FULL (symbolic), chunk 1..4096 symbolic, victim lock free or held (symbolic)" desc="held lock or empty range: returns false, nothing changes. Otherwise: stolen piece is a non-empty prefix of the old range of length steal_size, the victim keeps exactly the rest, m_size consistent on both sides, HALF steals floor(size/2) when size > chunk and everything otherwise, FULL steals everything; lock state restored"
// OB: ob_steal_ptr tier=quick solver=cadical unwind=4 timeout=120 bounds="ThreadContext<int*>::stealWork: shared range inside a 16384-int array, amount and chunk symbolic" desc="same contract for raw pointers"
// OB: ob_assign tier=quick solver=cadical unwind=4 timeout=120 bounds="ThreadContext::assignWork for both iterator kinds: empty context (arbitrary begin==end position), ANY non-empty range with its size" desc="assignWork installs exactly the given range and size, lock released"
// OB: ob_transfer tier=quick solver=cadical unwind=4 timeout=120 bounds="DoAllStealingExec::transferWork(rich, poor, HALF|FULL) for counting_iterator<size_t>: ANY rich range, poor empty, chunk 1..4096" desc="a transfer conserves work: poor's new range and rich's remaining range are disjoint, adjacent and their union is rich's old range; sizes consistent; nothing moves when rich is empty"
// OB: ob_cascade tier=quick solver=cadical unwind=18 timeout=120 params=16 bounds="ThreadPool::cascade(): num = 1..16 threads (one query each), master then every woken thread in turn" desc="the wake-up tree reaches exactly the threads 1..num-1, each exactly once, and no thread >= num; every recorded range has wbegin <= wend <= num and starts right after its owner"
#include "vf.h"
#include "vf_unroll.h"
#include <cstdint>
#include <cstddef>
#include <new>
#include <tuple>
#include <boost/iterator/counting_iterator.hpp>
#include "galois/gIO.h"
#include "../src/ThreadPool.cpp"
#include "galois/runtime/Range.h"
#include "galois/runtime/Executor_DoAll.h"
#include "../src/SimpleLock.cpp"

// ---- harness fakes for the OS-facing functions ThreadPool.cpp refers to (never called by cascade())
namespace galois {
void gErrorStr(const std::string&) {}
namespace substrate {
HWTopoInfo getHWTopo() { return HWTopoInfo(); }
bool bindThreadSelf(unsigned) { return true; }
bool EnvCheck(const char*) { return false; }
void initPTS(unsigned) {}
} // namespace substrate
} // namespace galois

namespace {
struct Nop {
  template <typename T>
  void operator()(T&&) const {}
};
typedef boost::counting_iterator<size_t> CIt;
typedef galois::runtime::internal::DoAllStealingExec<galois::runtime::StandardRange<CIt>, Nop, std::tuple<>> ExecC;
typedef galois::runtime::internal::DoAllStealingExec<galois::runtime::StandardRange<int*>, Nop, std::tuple<>> ExecP;

int arena[16384];

template <typename Iter>
struct Mk;
template <>
struct Mk<CIt> {
  static CIt at(size_t k) { return CIt(k); }
  static size_t limit() { return (size_t)1 << 62; }
};
template <>
struct Mk<int*> {
  static int* at(size_t k) { return arena + k; }
  static size_t limit() { return 16384; }
};

unsigned any_chunk() {
  unsigned c = vf_nondet_u32();
  vf_assume(c >= 1 && c <= 4096);
  return c;
}

// arbitrary consistent pre-state [b,e) with m_size = e-b
template <typename Exec, typename Iter>
void make_ctx(typename Exec::ThreadContext& ctx, size_t& b, size_t& e) {
  b = vf_nondet_u64();
  e = vf_nondet_u64();
  vf_assume(b <= e && e <= Mk<Iter>::limit());
  ctx.shared_beg = Mk<Iter>::at(b);
  ctx.shared_end = Mk<Iter>::at(e);
  ctx.m_size     = (long)(e - b);
}

template <typename Exec, typename Iter>
void getwork_contract() {
  typename Exec::ThreadContext ctx(0, Mk<Iter>::at(0), Mk<Iter>::at(0));
  size_t b, e;
  make_ctx<Exec, Iter>(ctx, b, e);
  unsigned chunk = any_chunk();
  Iter pb = Mk<Iter>::at(7), pe = Mk<Iter>::at(7);
  bool ok = ctx.getWork(pb, pe, chunk);
  size_t size = e - b;
  if (size == 0) {
    VF_CHECKM(!ok, "empty shared range: getWork fails");
    VF_CHECKM(pb == Mk<Iter>::at(7) && pe == Mk<Iter>::at(7), "failed getWork leaves the private range alone");
    VF_CHECKM(ctx.shared_beg == Mk<Iter>::at(b) && ctx.shared_end == Mk<Iter>::at(e) && ctx.m_size == 0, "failed getWork changes nothing");
  } else {
    size_t take = size <= chunk ? size : chunk;
    VF_CHECKM(ok, "non-empty shared range: getWork succeeds");
    VF_CHECKM(pb == Mk<Iter>::at(b) && pe == Mk<Iter>::at(b + take), "the piece is the prefix of min(chunk, size) elements");
    VF_CHECKM(ctx.shared_beg == pe && ctx.shared_end == Mk<Iter>::at(e), "the rest starts where the piece ends and keeps the old end");
    VF_CHECKM(ctx.m_size == (long)(size - take), "m_size equals the length of the remaining range");
    VF_CHECKM(ctx.m_size == std::distance(ctx.shared_beg, ctx.shared_end), "m_size consistent with begin/end");
  }
  VF_CHECKM(!ctx.work_mutex.is_locked(), "lock released");
}

template <typename Exec, typename Iter>
void steal_contract() {
  typename Exec::ThreadContext ctx(0, Mk<Iter>::at(0), Mk<Iter>::at(0));
  size_t b, e;
  make_ctx<Exec, Iter>(ctx, b, e);
  size_t chunk = any_chunk();
  bool half = vf_nondet_bool(), held = vf_nondet_bool();
  if (held) ctx.work_mutex.lock();
  Iter sb = Mk<Iter>::at(7), se = Mk<Iter>::at(7);
  long ssz = -5;
  bool ok  = ctx.stealWork(sb, se, ssz, half ? Exec::HALF : Exec::FULL, chunk);
  size_t size = e - b;
  if (held || size == 0) {
    VF_CHECKM(!ok, "held lock or empty range: stealWork fails");
    VF_CHECKM(sb == Mk<Iter>::at(7) && se == Mk<Iter>::at(7) && ssz == -5, "failed stealWork leaves its outputs alone");
    VF_CHECKM(ctx.shared_beg == Mk<Iter>::at(b) && ctx.shared_end == Mk<Iter>::at(e) && ctx.m_size == (long)size, "failed stealWork changes nothing");
  } else {
    size_t want = (half && size > chunk) ? size / 2 : size;
    VF_CHECKM(ok, "free lock and non-empty range: stealWork succeeds");
    VF_CHECKM(ssz >= 1 && (size_t)ssz == want, "HALF steals floor(size/2) when size > chunk, everything otherwise; FULL steals everything");
    VF_CHECKM(sb == Mk<Iter>::at(b) && se == Mk<Iter>::at(b + want), "the stolen piece is the prefix of steal_size elements");
    VF_CHECKM(std::distance(sb, se) == ssz, "steal_size is the length of the stolen piece");
    VF_CHECKM(ctx.shared_beg == se && ctx.shared_end == Mk<Iter>::at(e), "the victim keeps exactly the rest");
    VF_CHECKM(ctx.m_size == (long)(size - want) && ctx.m_size == std::distance(ctx.shared_beg, ctx.shared_end), "victim's m_size consistent");
  }
  VF_CHECKM(ctx.work_mutex.is_locked() == held, "lock state restored");
}

template <typename Exec, typename Iter>
void assign_contract() {
  size_t p = vf_nondet_u64(), b = vf_nondet_u64(), e = vf_nondet_u64();
  vf_assume(p <= Mk<Iter>::limit() && b < e && e <= Mk<Iter>::limit());
  typename Exec::ThreadContext ctx(3, Mk<Iter>::at(p), Mk<Iter>::at(p));
  VF_CHECKM(ctx.m_size == 0 && !ctx.hasWorkWeak() && ctx.id == 3, "constructor: empty range has no work");
  ctx.assignWork(Mk<Iter>::at(b), Mk<Iter>::at(e), (long)(e - b));
  VF_CHECKM(ctx.shared_beg == Mk<Iter>::at(b) && ctx.shared_end == Mk<Iter>::at(e) && ctx.m_size == (long)(e - b), "assignWork installs the range and its size");
  VF_CHECKM(ctx.hasWorkWeak() && ctx.hasWork(), "assigned work is visible");
  VF_CHECKM(!ctx.work_mutex.is_locked(), "lock released");
}
} // namespace

OB(getwork_cnt) { getwork_contract<ExecC, CIt>(); }
OB(getwork_ptr) { getwork_contract<ExecP, int*>(); }
OB(steal_cnt) { steal_contract<ExecC, CIt>(); }
OB(steal_ptr) { steal_contract<ExecP, int*>(); }
OB(assign) {
  assign_contract<ExecC, CIt>();
  assign_contract<ExecP, int*>();
}

OB(transfer) {
  alignas(ExecC) static unsigned char raw[sizeof(ExecC)];
  ExecC* ex      = reinterpret_cast<ExecC*>(raw);
  ex->chunk_size = any_chunk();
  ExecC::ThreadContext rich(0, CIt(0), CIt(0)), poor(1, CIt(0), CIt(0));
  size_t b, e, p = vf_nondet_u64();
  make_ctx<ExecC, CIt>(rich, b, e);
  poor.shared_beg = poor.shared_end = CIt(p);
  bool half = vf_nondet_bool();
  bool ok   = ex->transferWork(rich, poor, half ? ExecC::HALF : ExecC::FULL);
  size_t size = e - b;
  if (size == 0) {
    VF_CHECKM(!ok && poor.m_size == 0 && *poor.shared_beg == p && *poor.shared_end == p, "nothing to transfer: poor unchanged");
    VF_CHECKM(rich.m_size == 0 && *rich.shared_beg == b && *rich.shared_end == e, "nothing to transfer: rich unchanged");
  } else {
    VF_CHECKM(ok, "transfer from a non-empty unlocked context succeeds");
    VF_CHECKM(*poor.shared_beg == b && poor.shared_end == rich.shared_beg && *rich.shared_end == e, "poor's piece and rich's rest are adjacent, disjoint and cover rich's old range");
    VF_CHECKM(poor.m_size >= 1 && poor.m_size == (long)(*poor.shared_end - *poor.shared_beg), "poor's m_size consistent and positive");
    VF_CHECKM(rich.m_size == (long)(*rich.shared_end - *rich.shared_beg), "rich's m_size consistent");
    VF_CHECKM((size_t)(poor.m_size + rich.m_size) == size, "no element lost or duplicated");
  }
  VF_CHECKM(!rich.work_mutex.is_locked() && !poor.work_mutex.is_locked(), "locks released");
}

OB(cascade) {
  using galois::substrate::ThreadPool;
  constexpr unsigned MAXT = 16;
  unsigned num = vf_param(0) + 1;
  alignas(ThreadPool) static unsigned char raw[sizeof(ThreadPool)];
  ThreadPool* tp = reinterpret_cast<ThreadPool*>(raw);
  static ThreadPool::per_signal box[MAXT];
  new (&tp->signals) std::vector<ThreadPool::per_signal*>();
  tp->signals.resize(MAXT);
  unsigned woken[MAXT];
  bool pending[MAXT];
  vfu::unrolled<MAXT>(MAXT, [&](unsigned i) {
    tp->signals[i]     = &box[i];
    box[i].wbegin      = 0xbad;
    box[i].wend        = 0xbad;
    box[i].done        = 1;
    box[i].fastRelease = 0;
    woken[i]           = 0;
    pending[i]         = false;
  });
  tp->signals[0] = &ThreadPool::my_box; // as initThread(0) does
  auto& me       = ThreadPool::my_box;
  // master: runInternal() sets its range to [1, num)
  me.wbegin = 1;
  me.wend   = num;
  // thread t = 0 (master), then every woken thread in increasing order (a thread only wakes higher ids)
  vfu::unrolled<MAXT>(MAXT, [&](unsigned t) {
    if (t > 0) {
      if (!pending[t]) return;
      // thread t leaves wait(): it runs cascade() on ITS mailbox
      VF_CHECKM(box[t].wbegin <= box[t].wend, "recorded range has wbegin <= wend");
      VF_CHECKM(box[t].wbegin == t + 1, "a recorded range starts right after its owner");
      VF_CHECKM(box[t].wend <= num, "recorded range ends inside [1,num)");
      me.wbegin = box[t].wbegin;
      me.wend   = box[t].wend;
    }
    vfu::unrolled<MAXT>(MAXT, [&](unsigned i) { box[i].fastRelease = 0; });
    tp->cascade(true);
    vfu::unrolled<MAXT>(MAXT, [&](unsigned i) {
      if (i >= 1 && box[i].fastRelease.load()) {
        VF_CHECKM(i > t, "a thread only wakes threads with a higher id");
        VF_CHECKM(box[i].done.load() == 0, "wakeup clears the done flag");
        woken[i]++;
        pending[i] = true;
      }
    });
    VF_CHECKM(me.fastRelease.load() == 0, "the master's own mailbox is never signalled");
  });
  vfu::unrolled<MAXT>(MAXT, [&](unsigned i) {
    if (i >= 1 && i < num)
      VF_CHECKM(woken[i] == 1, "every thread 1..num-1 is woken exactly once");
    else
      VF_CHECKM(woken[i] == 0, "thread 0 and threads >= num are never woken");
  });
}
