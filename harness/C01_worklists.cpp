// UNIT: id=C01 cxxflags="-DGALOIS_FORCE_STANDALONE -DVF_PTS_BYTES=256"
// ASSUME: environment C01_env.h: getThreadPool() is a fake ThreadPool object whose topology records (tid, socket, socketLeader, cumulativeMaxSocket) are written by hand; the thread-local my_box/ptsBase/pssBase are switched by hand ('running on pool thread t'); REAL PerThreadStorage.cpp / SimpleLock.cpp; page allocator (C09) = 256-byte calloc blocks; GALOIS_DIE = abort() without the iostream text
// ASSUME: substrate::PtrLock<T> is replaced by C01_ptrlock_model.h (pointer and lock flag in two fields, same interface, lock discipline CHECKED): CBMC cannot constant-propagate a pointer through (uintptr_t)p|1 / &~1, the packed word is examined by C06 and by the concurrent hand-off obligations
// ASSUME: GALOIS_FORCE_STANDALONE (the repository's own switch) routes FixedSizeAllocator to malloc; the Galois heaps are C09's subject
// ASSUME: ONE worker thread operates on the worklist (chunk hand-off between workers, the executor and the abort path are separate obligations); pool configuration 0 = 1 thread, 1 = 2 threads on 2 sockets with the worker being thread 1, 2 = 2 threads on 1 socket with the worker being thread 1; the worklist object is constructed on thread 0 as for_each_impl does
// ASSUME: operation KINDS are enumerated as separate solver queries (vf_param); item values are solver variables in 0..3; --max-field-sensitivity-array-size 300 lets CBMC track the 256-byte per-thread blocks per byte (otherwise pointers stored there are never constant-propagated)
// OB: ob_wl_chunkfifo tier=quick solver=cadical unwind=32 timeout=120 cbmc="--max-field-sensitivity-array-size 300" params=6,1 bounds="ChunkFIFO<2>: 6 kind sequences of 5..7 ops from {push(v), push(range of 2), pop, flush} (table SEQ_F), then pops until empty + 2 more; values symbolic in 0..3; 1 thread" desc="pop returns only pending items, each once; an empty pop means nothing is pending (nothing stranded in a private chunk); after draining nothing comes back"
// OB: ob_wl_chunklifo tier=quick solver=cadical unwind=32 timeout=120 cbmc="--max-field-sensitivity-array-size 300" params=6,1 bounds="ChunkLIFO<2>: as ob_wl_chunkfifo" desc="work conservation, one worker"
// OB: ob_wl_pschunkfifo tier=quick solver=cadical unwind=32 timeout=120 cbmc="--max-field-sensitivity-array-size 300" params=6,2 bounds="PerSocketChunkFIFO<2>: table SEQ_F x pool configuration {1 thread; 2 threads on 2 sockets, worker = thread 1}" desc="work conservation, one worker"
// OB: ob_wl_pschunklifo tier=quick solver=cadical unwind=32 timeout=120 cbmc="--max-field-sensitivity-array-size 300" params=6,2 bounds="PerSocketChunkLIFO<2>: as ob_wl_pschunkfifo" desc="work conservation, one worker"
// OB: ob_wl_pschunkbag tier=quick solver=cadical unwind=32 timeout=120 cbmc="--max-field-sensitivity-array-size 300" params=6,2 bounds="PerSocketChunkBag<2>: as ob_wl_pschunkfifo" desc="work conservation, one worker"
// OB: ob_wl_ptchunkfifo tier=quick solver=cadical unwind=32 timeout=120 cbmc="--max-field-sensitivity-array-size 300" params=5,3 bounds="PerThreadChunkFIFO<2>: 5 kind sequences of 5..6 ops from {push(v), push(range of 2), pop} (table SEQ_N) x pool configuration {1 thread; 2 threads/2 sockets; 2 threads/1 socket (steal attempts on the idle peer)}" desc="work conservation, one worker"
// OB: ob_wl_ptchunklifo tier=quick solver=cadical unwind=32 timeout=120 cbmc="--max-field-sensitivity-array-size 300" params=5,3 bounds="PerThreadChunkLIFO<2>: as ob_wl_ptchunkfifo" desc="work conservation, one worker"
#include "C01_wl_common.h"
#include "galois/worklists/Chunk.h"
#include "galois/worklists/PerThreadChunk.h"
#include "vf_standalone.h"

namespace c01 {
template <typename T, template <typename, bool> class QT, bool D, bool S, int CS, bool C>
struct Ops<galois::worklists::internal::ChunkMaster<T, QT, D, S, CS, C>> {
  typedef galois::worklists::internal::ChunkMaster<T, QT, D, S, CS, C> WL;
  static constexpr bool has_flush = true;
  static void start(WL&, Bag&) {}
  static void push(WL& wl, int v) { wl.push(v); }
  static void push2(WL& wl, int* b, int* e) { wl.push(b, e); }
  static galois::optional<int> pop(WL& wl) { return wl.pop(); }
  static void flush(WL& wl) { wl.flush(); }
};
} // namespace c01

using namespace galois::worklists;
#define TAB_F(WL) c01::conserve_table<WL>(c01::SEQ_F, sizeof(c01::SEQ_F) / c01::SEQLEN)
#define TAB_N(WL) c01::conserve_table<WL>(c01::SEQ_N, sizeof(c01::SEQ_N) / c01::SEQLEN)
OB(wl_chunkfifo) { TAB_F(ChunkFIFO<2>); }
OB(wl_chunklifo) { TAB_F(ChunkLIFO<2>); }
OB(wl_pschunkfifo) { TAB_F(PerSocketChunkFIFO<2>); }
OB(wl_pschunklifo) { TAB_F(PerSocketChunkLIFO<2>); }
OB(wl_pschunkbag) { TAB_F(PerSocketChunkBag<2>); }
OB(wl_ptchunkfifo) { TAB_N(PerThreadChunkFIFO<2>); }
OB(wl_ptchunklifo) { TAB_N(PerThreadChunkLIFO<2>); }

