// UNIT: id=C01 cxxflags="-DGALOIS_FORCE_STANDALONE -DVF_PTS_BYTES=256"
// ASSUME: environment C01_env.h: getThreadPool() is a fake ThreadPool object whose topology records (tid, socket, socketLeader, cumulativeMaxSocket) are written by hand; the thread-local my_box/ptsBase/pssBase are switched by hand ('running on pool thread t'); REAL PerThreadStorage.cpp / SimpleLock.cpp; page allocator (C09) = 256-byte calloc blocks; GALOIS_DIE = abort() without the iostream text
// ASSUME: substrate::PtrLock<T> is replaced by C01_ptrlock_model.h (pointer and lock flag in two fields, same interface, lock discipline CHECKED): CBMC cannot constant-propagate a pointer through (uintptr_t)p|1 / &~1, the packed word is examined by C06 and by the concurrent hand-off obligations
// ASSUME: GALOIS_FORCE_STANDALONE (the repository's own switch) routes FixedSizeAllocator to malloc; the Galois heaps are C09's subject
// ASSUME: ONE worker thread operates on the worklist (chunk hand-off between workers, the executor and the abort path are separate obligations); pool configuration 0 = 1 thread, 1 = 2 threads on 2 sockets with the worker being thread 1, 2 = 2 threads on 1 socket with the worker being thread 1; the worklist object is constructed on thread 0 as for_each_impl does
// ASSUME: operation KINDS are enumerated as separate solver queries (vf_param); item values are solver variables in 0..3; --max-field-sensitivity-array-size 300 lets CBMC track the 256-byte per-thread blocks per byte (otherwise pointers stored there are never constant-propagated)
// OB: ob_wl_chunk tier=quick solver=cadical unwind=32 timeout=600 cbmc="--max-field-sensitivity-array-size 300" params=3,2 bounds="ChunkFIFO<2>, ChunkLIFO<2>, PerSocketChunkFIFO<2>, PerSocketChunkLIFO<2>, PerSocketChunkBag<2> (one after the other in each query): 3 kind sequences of 5..7 ops from {push(v), push(range of 2), pop, flush} (table SEQ_F rows 0-2; all 6 rows and chunk size 3 in the thorough tier), then pops until empty + 2 more; values symbolic in 0..3; pool configuration {1 thread; 2 threads on 2 sockets, worker = thread 1}" desc="pop returns only pending items, each once; an empty pop means nothing is pending (nothing stranded in a private chunk, also after flush); after draining nothing comes back"
// OB: ob_wl_ptchunk tier=quick solver=cadical unwind=32 timeout=600 cbmc="--max-field-sensitivity-array-size 300" params=2,3 bounds="PerThreadChunkFIFO<2>, PerThreadChunkLIFO<2>: 2 kind sequences of 5..6 ops from {push(v), push(range of 2), pop} (table SEQ_N rows 0-1; all rows in the thorough tier) x pool configuration {1 thread; 2 threads/2 sockets; 2 threads/1 socket (steal attempts on the idle peer)}" desc="work conservation, one worker"
#include "C01_wl_common.h"
#include "galois/worklists/Chunk.h"
#include "galois/worklists/PerThreadChunk.h"
#include "vf_standalone.h"

namespace c01 {
template <typename T, template <typename, bool> class QT, bool D, bool S, int CS, bool C>
struct Ops<galois::worklists::internal::ChunkMaster<T, QT, D, S, CS, C>> {
  typedef galois::worklists::internal::ChunkMaster<T, QT, D, S, CS, C> WL;
  static constexpr bool has_flush = true;
  static void start(WL&, Bag&) {}
  static void push(WL& wl, int v) { wl.push(v); }
  static void push2(WL& wl, int* b, int* e) { wl.push(b, e); }
  static galois::optional<int> pop(WL& wl) { return wl.pop(); }
  static void flush(WL& wl) { wl.flush(); }
};
} // namespace c01

using namespace galois::worklists;
using namespace galois::worklists;
OB(wl_chunk) {
  c01::conserve_table<ChunkFIFO<2>, ChunkLIFO<2>, PerSocketChunkFIFO<2>, PerSocketChunkLIFO<2>, PerSocketChunkBag<2>>(c01::SEQ_F, 6);
}
OB(wl_ptchunk) { c01::conserve_table<PerThreadChunkFIFO<2>, PerThreadChunkLIFO<2>>(c01::SEQ_N, 5); }
