// UNIT: id=C14
// ASSUME: inductive step: the pre-state is ANY representation with start < N, count <= N (the invariant every operation is checked to re-establish) with exactly the slots start..start+count-1 (mod N) constructed; by induction over the operation sequence the one-step result covers histories of every length
// ASSUME: operation KIND and N are enumerated as separate solver queries (vf_param); start, count, slot contents, values, positions are solver variables
// ASSUME: unoccupied slots of the Counted ring are zero-filled by the harness so that destroying a never-constructed slot is detected deterministically (self != this)
// ASSUME: pop_front/pop_back/getAt/front/back are called on non-empty rings only (documented by the asserts in the header)
// OB: ob_ring_step quick_limit=26 tier=quick unwind=7 timeout=120 params=13,2 bounds="FixedSizeRing<int,N>, N=3+p1 in {3,4}: arbitrary valid pre-state (start<N, count<=N, contents symbolic), ONE op of 13 kinds {push/emplace back/front, emplace@symbolic iterator, pop front/back, extract front/back, clear, getAt/front/back read+write, iterator arithmetic, const forward traversal}; then size/empty/full, forward+reverse traversal, getAt, representation invariant" desc="ring: one step from an arbitrary state equals the sequence model"
// OB: ob_ring_step_counted tier=quick unwind=7 timeout=120 params=10,2 bounds="FixedSizeRing<Counted,N>, N in {3,4}: arbitrary valid pre-state, ONE op of 10 kinds; ghost live-instance map" desc="ring: one step constructs/destroys each element exactly once"
// OB: ob_ring_counted_seq quick_limit=30 tier=quick unwind=7 timeout=120 params=9,9 bounds="FixedSizeRing<Counted,3>: emplace_back, emplace_back, emplace_front (wrapped) then every pair of ops from 9 kinds, ring destroyed at the end" desc="ring: sequences construct/destroy exactly once, nothing live after destruction"
// OB: ob_ring_counted_seq3 tier=thorough unwind=7 timeout=120 params=9,9,9 bounds="FixedSizeRing<Counted,3>: all 729 kind-sequences of 3 ops from the empty ring" desc="ring: sequences from empty construct/destroy exactly once"
#include "vf.h"
#include <cstring>
#include "galois/FixedSizeRing.h"

namespace {
// element type with a ghost live-instance map
struct Counted {
  static int live;
  static int ctor, dtor;
  int v;
  Counted* self;
  Counted() : v(0), self(this) { ++live; ++ctor; }
  explicit Counted(int x) : v(x), self(this) { ++live; ++ctor; }
  Counted(Counted&& o) : v(o.v), self(this) { ++live; ++ctor; }
  Counted(const Counted& o) : v(o.v), self(this) { ++live; ++ctor; }
  Counted& operator=(Counted&& o) {
    vf_assert(self == this && o.self == &o, "assignment involves an object that is not alive");
    v = o.v;
    return *this;
  }
  Counted& operator=(const Counted& o) {
    vf_assert(self == this && o.self == &o, "assignment involves an object that is not alive");
    v = o.v;
    return *this;
  }
  ~Counted() {
    vf_assert(self == this, "destructor runs on an object that was never constructed (or destroyed twice)");
    self = nullptr;
    --live;
    ++dtor;
  }
};
int Counted::live = 0;
int Counted::ctor = 0;
int Counted::dtor = 0;

inline int val(int x) { return x; }
inline int val(const Counted& c) { return c.v; }
inline void alive(const int&) {}
inline void alive(const Counted& c) { VF_CHECKM(c.self == &c, "container exposes an element that is not alive"); }
template <typename T> struct Is { static const bool counted = false; };
template <> struct Is<Counted> { static const bool counted = true; };

template <typename T, unsigned N>
void check_equal(galois::FixedSizeRing<T, N>& r, const int* model, unsigned n) {
  VF_CHECKM(r.start < N && r.count <= N, "representation invariant start < N, count <= N");
  VF_CHECK(r.size() == n);
  VF_CHECK(r.empty() == (n == 0));
  VF_CHECK(r.full() == (n == N));
  unsigned k = 0;
  for (auto it = r.begin(); it != r.end(); ++it, ++k) {
    VF_CHECKM(k < n, "forward traversal yields more elements than the model");
    if (k >= n) return;
    alive(*it);
    VF_CHECKM(val(*it) == model[k], "forward traversal differs from model");
  }
  VF_CHECKM(k == n, "forward traversal length");
  unsigned q = 0;
  for (auto it = r.rbegin(); it != r.rend(); ++it, ++q) {
    VF_CHECKM(q < n, "reverse traversal yields more elements than the model");
    if (q >= n) return;
    VF_CHECKM(val(*it) == model[n - 1 - q], "reverse traversal differs from model");
  }
  VF_CHECKM(q == n, "reverse traversal length");
  for (unsigned j = 0; j < n; ++j) VF_CHECKM(val(r.getAt(j)) == model[j], "getAt differs from model");
  if (n) {
    VF_CHECK(val(r.front()) == model[0]);
    VF_CHECK(val(r.back()) == model[n - 1]);
  }
  if (Is<T>::counted) VF_CHECKM(Counted::live == (int)n, "live instances equal container size");
}

// arbitrary valid representation
template <typename T, unsigned N>
unsigned arbitrary(galois::FixedSizeRing<T, N>& r, int* model) {
  unsigned start = vf_nondet_u8(), count = vf_nondet_u8();
  vf_assume(start < N);
  vf_assume(count <= N);
  if (Is<T>::counted) std::memset((void*)&r.datac, 0, sizeof(r.datac));
  for (unsigned j = 0; j < count; ++j) {
    int v = (int)vf_nondet_u32();
    r.datac.emplace((start + j) % N, v);
    model[j] = v;
  }
  r.start = start;
  r.count = count;
  return count;
}

void ins(int* model, unsigned& n, unsigned pos, int v) {
  for (unsigned j = n; j > pos; --j) model[j] = model[j - 1];
  model[pos] = v;
  ++n;
}
void del(int* model, unsigned& n, unsigned pos) {
  for (unsigned j = pos; j + 1 < n; ++j) model[j] = model[j + 1];
  --n;
}

// one operation of kind op; returns false when the precondition of the op excludes the state
template <typename T, unsigned N>
void one_op(galois::FixedSizeRing<T, N>& r, int* model, unsigned& n, unsigned op) {
  typedef galois::FixedSizeRing<T, N> R;
  int v = (int)vf_nondet_u32();
  switch (op) {
  case 0: case 1: case 2: { // emplace_back / emplace_front / emplace at a symbolic iterator
    unsigned pos = op == 0 ? n : op == 1 ? 0 : vf_nondet_u8();
    vf_assume(pos <= n);
    T* p = op == 0 ? r.emplace_back(v) : op == 1 ? r.emplace_front(v) : r.emplace(r.begin() + pos, v);
    if (n == N) {
      VF_CHECKM(p == nullptr, "insertion into a full ring is refused");
    } else {
      VF_CHECKM(p != nullptr, "insertion into a non-full ring succeeds");
      if (!p) return;
      VF_CHECKM(val(*p) == v, "insertion returns a pointer to the new element");
      ins(model, n, pos, v);
      VF_CHECKM(p == &r.getAt(pos), "returned pointer is the element at the insertion position");
    }
    break;
  }
  case 3:
    vf_assume(n > 0);
    r.pop_front();
    del(model, n, 0);
    break;
  case 4:
    vf_assume(n > 0);
    r.pop_back();
    del(model, n, n - 1);
    break;
  case 5: case 6: { // extract_front / extract_back
    galois::optional<T> o = op == 5 ? r.extract_front() : r.extract_back();
    VF_CHECKM(o.is_initialized() == (n > 0), "extract yields a value iff the ring is non-empty");
    if (n > 0 && o.is_initialized()) {
      unsigned pos = op == 5 ? 0 : n - 1;
      VF_CHECKM(val(*o) == model[pos], "extract yields the end element");
      alive(*o);
      del(model, n, pos);
    }
    break;
  }
  case 7:
    r.clear();
    n = 0;
    break;
  case 8: { // element access read and write through the references
    vf_assume(n > 0);
    unsigned i = vf_nondet_u8();
    vf_assume(i < n);
    VF_CHECK(val(r.getAt(i)) == model[i]);
    const R& cr = r;
    VF_CHECK(val(cr.getAt(i)) == model[i]);
    VF_CHECK(val(cr.front()) == model[0]);
    VF_CHECK(val(cr.back()) == model[n - 1]);
    r.getAt(i) = T(v);
    model[i] = v;
    break;
  }
  case 9: { // random-access iterator arithmetic
    unsigned i = vf_nondet_u8(), j = vf_nondet_u8();
    vf_assume(i <= n);
    vf_assume(j <= n);
    auto a = r.begin() + i;
    auto b = r.end() - (n - j);
    VF_CHECKM((b - a) == (long)j - (long)i, "iterator difference");
    VF_CHECKM((a == b) == (i == j), "iterator equality");
    VF_CHECKM((a < b) == (i < j), "iterator order");
    VF_CHECKM(r.end() - r.begin() == (long)n, "end - begin == size");
    if (i < n) {
      VF_CHECK(val(*a) == model[i]);
      if (j < n) VF_CHECK(val(a[(long)j - (long)i]) == model[j]);
    }
    if (i > 0) {
      auto c = a;
      --c;
      VF_CHECK(val(*c) == model[i - 1]);
      c++;
      VF_CHECK(c == a);
    }
    break;
  }
  // ---- int only below
  case 10: case 11: { // push_back / push_front (copying an lvalue)
    unsigned pos = op == 10 ? n : 0;
    T w(v);
    T* p = op == 10 ? r.push_back(w) : r.push_front(w);
    if (n == N) {
      VF_CHECKM(p == nullptr, "insertion into a full ring is refused");
    } else {
      VF_CHECKM(p != nullptr, "insertion into a non-full ring succeeds");
      if (!p) return;
      ins(model, n, pos, v);
      VF_CHECKM(p == &r.getAt(pos), "returned pointer is the element at the insertion position");
    }
    break;
  }
  case 12: { // const forward traversal
    const R& cr = r;
    unsigned k = 0;
    for (auto it = cr.begin(); it != cr.end(); ++it, ++k) {
      VF_CHECKM(k < n, "const forward traversal yields more elements than the model");
      if (k >= n) return;
      VF_CHECKM(val(*it) == model[k], "const forward traversal differs from model");
    }
    VF_CHECKM(k == n, "const forward traversal length");
    typename R::const_iterator ci = r.begin(); // iterator -> const_iterator conversion
    VF_CHECK(ci == cr.begin());
    break;
  }
  }
}

template <typename T, unsigned N>
void step(unsigned op) {
  {
    galois::FixedSizeRing<T, N> r;
    int model[N + 1];
    unsigned n = arbitrary(r, model);
    one_op(r, model, n, op);
    check_equal(r, model, n);
  }
  if (Is<T>::counted) {
    VF_CHECKM(Counted::live == 0, "all elements destroyed when the ring dies");
    VF_CHECK(Counted::ctor == Counted::dtor);
  }
}

template <unsigned NOPS, unsigned PRE>
void counted_seq() {
  {
    galois::FixedSizeRing<Counted, 3> r;
    std::memset((void*)&r.datac, 0, sizeof(r.datac));
    int model[4];
    unsigned n = 0;
    if (PRE) {
      r.emplace_back(1); ins(model, n, n, 1);
      r.emplace_back(2); ins(model, n, n, 2);
      r.emplace_front(3); ins(model, n, 0, 3);
    }
    for (unsigned i = 0; i < NOPS; ++i) {
      unsigned op = vf_param(i);
      one_op(r, model, n, op);
      check_equal(r, model, n);
    }
  }
  VF_CHECKM(Counted::live == 0, "all elements destroyed when the ring dies");
  VF_CHECK(Counted::ctor == Counted::dtor);
}
} // namespace

OB(ring_step) {
  if (vf_param(1) == 0) step<int, 3>(vf_param(0));
  else step<int, 4>(vf_param(0));
}

OB(ring_step_counted) {
  if (vf_param(1) == 0) step<Counted, 3>(vf_param(0));
  else step<Counted, 4>(vf_param(0));
}

OB(ring_counted_seq) { counted_seq<2, 1>(); }
OB(ring_counted_seq3) { counted_seq<3, 0>(); }
