// vf_unroll.h -- statically unrolled harness loop: f(0) .. f(min(n,N)-1) as straight-line code, so that the CBMC
// unwind bound is spent on the loops of the code under examination only (nested harness loops otherwise multiply
// the number of unrolled iterations).
#pragma once
namespace vfu {
template <unsigned N, typename F>
__attribute__((always_inline)) inline void unrolled(unsigned n, F&& f) {
  if constexpr (N > 0) {
    unrolled<N - 1>(n, f);
    if (N - 1 < n) f(N - 1);
  }
}
} // namespace vfu
