#include "vf_rt.h"
/* External models for unit C15_bitset.
 * std::condition_variable constructor/destructor: the thread-local ThreadPool::my_box (defined by the harness
 * environment) contains one; it is never waited on or notified in this unit, so both are empty. */
#ifndef VF_C15_BITSET_STUBS_H
#define VF_C15_BITSET_STUBS_H
/* <iostream> static initialiser pulled in by a Galois header: no stream is used */
#endif
