#include "vf_rt.h"
/* External models for unit C15_bitset.
 * std::condition_variable constructor/destructor: the thread-local ThreadPool::my_box (defined by the harness
 * environment) contains one; it is never waited on or notified in this unit, so both are empty. */
#ifndef VF_C15_BITSET_STUBS_H
#define VF_C15_BITSET_STUBS_H
#define VF_HAVE_x__ZNSt18condition_variableC1Ev
VF_X void x__ZNSt18condition_variableC1Ev(char* self) { (void)self; }
#define VF_HAVE_x__ZNSt18condition_variableD1Ev
VF_X void x__ZNSt18condition_variableD1Ev(char* self) { (void)self; }
/* <iostream> static initialiser pulled in by a Galois header: no stream is used */
#define VF_HAVE_x__ZNSt8ios_base4InitC1Ev
VF_X void x__ZNSt8ios_base4InitC1Ev(char* self) { (void)self; }
#define VF_HAVE_x__ZNSt8ios_base4InitD1Ev
VF_X void x__ZNSt8ios_base4InitD1Ev(char* self) { (void)self; }
#endif
