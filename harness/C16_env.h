// C16_env.h -- environment under which the REAL galois/ParallelSTL.h runs without the thread pool and the executors.
//
//  * built on C15_env.h: fake ThreadPool object (only maxThreads), thread-local mailbox defined here, REAL
//    PerThreadStorage/PerBackend (so GAccumulator / Reducible / PerThreadStorage<optional<It>> are the real ones);
//    "running on pool thread t" = vfenv::enter(t).
//  * the serial cut-off and the partition block size (the literal 1024s, overridable under GALOIS_VERIF) are the
//    variables vf_pstl_cutoff / vf_pstl_block: the unit is compiled with
//    -DGALOIS_PSTL_CUTOFF=vf_pstl_cutoff -DGALOIS_PSTL_BLOCK=vf_pstl_block and every obligation sets them first.
//  * galois::on_each / do_all / for_each (only DECLARED by GaloisForwardDecl.h, which is all ParallelSTL.h sees) are
//    defined here as stand-ins that run the T modelled pool threads ONE AFTER ANOTHER:
//      on_each : fn(t, T) for t = 0..T-1 under enter(t)                       (= Executor_OnEach without the pool)
//      do_all  : for t = 0..T-1 under enter(t): the loop of ChooseDoAllImpl<false>::call over the REAL
//                StandardRange::local_begin()/local_end() (block_range by tid)   (= non-stealing do_all)
//      for_each: a harness work-list (fixed array, FIFO); every item runs on a solver-chosen pool thread; pushes go
//                to the same array; after breakLoop() a solver-chosen number of further items still run (threads
//                that have not yet seen the flag), then the loop stops.  The ForEach executor and the worklists are
//                NOT run (C01's subject).
#pragma once
#include <cstdint>
#include <cstddef>
extern "C" {
extern long vf_pstl_cutoff;
extern long vf_pstl_block;
}
#include "C15_env.h"
#include <tuple>
#include <type_traits>
#include <utility>
#include <iterator>
#include "galois/Threads.h"
#include "galois/runtime/Range.h"

extern "C" {
long vf_pstl_cutoff = 1024;
long vf_pstl_block  = 1024;
}

namespace galois {
namespace runtime {
unsigned int activeThreads = 1;
}
unsigned int getActiveThreads() noexcept { return runtime::activeThreads; }
} // namespace galois

namespace vf16 {
constexpr unsigned WLCAP = 8;
static unsigned T        = 1;
static void (*post_on_each)(void* fn) = nullptr; // observation hook: runs after the last worker of on_each
static unsigned fe_max_iters          = WLCAP;     // for_each stand-in: bound on operator invocations
static unsigned fe_iters;                          // operator invocations of the last for_each

// pts = false: per-thread storage is not initialised (for algorithms that use none: partition, sort); saves the
// 30-entry free-list table loop of PerBackend()
void check_hook(); // defined below, after ParallelSTL.h

inline void init(unsigned t, long cutoff, long block, bool pts = true) {
  T = t;
  if (pts) {
    vfenv::init(t);
  } else {
    vfenv::nthreads                                   = t;
    galois::substrate::getThreadPool().mi.maxThreads = t;
    vfenv::enter(0);
  }
  galois::runtime::activeThreads = t;
  vf_pstl_cutoff                 = cutoff;
  vf_pstl_block                  = block;
  check_hook();
}

// light-weight loop context for operators that take their context as a template parameter (sort_helper)
template <typename V>
struct Ctx {
  V* wl;
  unsigned* tail;
  bool* brk;
  template <typename... A>
  void push(A&&... a) {
    // every item costs one operator call and at most WLCAP (>= fe_max_iters) calls are considered: a run that
    // creates more items is outside the bound anyway
    vf_assume(*tail < WLCAP);
    new (&wl[(*tail)++]) V(std::forward<A>(a)...);
  }
  void breakLoop() { *brk = true; }
};

// statically unrolled harness loop: f(0) .. f(min(n,N)-1) as straight-line code, so that the CBMC unwind bound is
// spent on the loops of the code under examination only
template <unsigned N, typename F>
__attribute__((always_inline)) inline void unrolled(unsigned n, F&& f) {
  if constexpr (N > 0) {
    unrolled<N - 1>(n, f);
    if (N - 1 < n) f(N - 1);
  }
}

// Random-access iterator over a fixed harness array, addressed by INDEX (all comparisons and distances are integer
// arithmetic; no pointer comparisons for the solver).  Dereferencing outside [0,n) is reported as a property failure:
// the algorithms may only touch elements of the range they were given.
template <typename V>
struct Store {
  static constexpr long CAP = 16;
  static V v[CAP];
  static long n;
};
template <typename V>
V Store<V>::v[Store<V>::CAP];
template <typename V>
long Store<V>::n;

template <typename V>
struct It {
  typedef std::random_access_iterator_tag iterator_category;
  typedef V value_type;
  typedef int difference_type;
  typedef V* pointer;
  typedef V& reference;
  int i;
  It() : i(0) {}
  explicit It(long k) : i((int)k) {}
  V& operator*() const {
    VF_CHECKM(i >= 0 && i < Store<V>::n, "iterator dereferenced outside [first,last)");
    return Store<V>::v[i];
  }
  V* operator->() const { return &**this; }
  V& operator[](long k) const { return *It(i + k); }
  It& operator++() { ++i; return *this; }
  It operator++(int) { It t(*this); ++i; return t; }
  It& operator--() { --i; return *this; }
  It operator--(int) { It t(*this); --i; return t; }
  It& operator+=(long k) { i += k; return *this; }
  It& operator-=(long k) { i -= k; return *this; }
  friend It operator+(It a, long k) { return It(a.i + k); }
  friend It operator+(long k, It a) { return It(a.i + k); }
  friend It operator-(It a, long k) { return It(a.i - k); }
  friend int operator-(It a, It b) { return a.i - b.i; }
  friend bool operator==(It a, It b) { return a.i == b.i; }
  friend bool operator!=(It a, It b) { return a.i != b.i; }
  friend bool operator<(It a, It b) { return a.i < b.i; }
  friend bool operator>(It a, It b) { return a.i > b.i; }
  friend bool operator<=(It a, It b) { return a.i <= b.i; }
  friend bool operator>=(It a, It b) { return a.i >= b.i; }
};

template <typename F, typename V, typename C>
auto invocable_with(int) -> decltype(std::declval<F&>()(std::declval<V&>(), std::declval<C&>()), std::true_type());
template <typename F, typename V, typename C>
std::false_type invocable_with(...);
} // namespace vf16

#include "galois/ParallelSTL.h"

// Without the GALOIS_VERIF hook in ParallelSTL.h the constants stay 1024 and every small input silently takes the
// serial std:: path: make that a loud failure of every obligation instead of a vacuous pass.
namespace vf16 {
inline void check_hook() {
  typedef bool (*P)(int);
  galois::ParallelSTL::partition_helper<int*, P>::partition_helper_state st(nullptr, nullptr, nullptr);
  VF_CHECKM(st.BlockSize() == vf_pstl_block,
            "environment: ParallelSTL.h lacks the GALOIS_VERIF hook (GALOIS_PSTL_CUTOFF / GALOIS_PSTL_BLOCK not honoured)");
}
} // namespace vf16

// The REAL galois::UserContext (handed to find_if_helper) owns a per-iteration allocator whose source heap lives in
// Mem.cpp / PagePool.cpp (C09's subject).  No operator of ParallelSTL allocates from it; the out-of-line pieces are
// supplied here: empty constructor/destructor, and a page pool that must never be asked for a page.
#include "galois/runtime/PagePool.h"
namespace galois {
namespace runtime {
SystemHeap::SystemHeap() {}
SystemHeap::~SystemHeap() {}
void* pagePoolAlloc() {
  VF_CHECKM(false, "environment: the per-iteration allocator is not expected to be used");
  abort();
}
void pagePoolFree(void*) { VF_CHECKM(false, "environment: the per-iteration allocator is not expected to be used"); }
} // namespace runtime
} // namespace galois

namespace galois {

template <typename FunctionTy, typename... Args>
void on_each(FunctionTy&& fn, const Args&...) {
  const unsigned T = runtime::activeThreads;
  for (unsigned t = 0; t < T; ++t) {
    vfenv::enter(t);
    fn(t, T);
  }
  vfenv::enter(0);
  if (vf16::post_on_each) vf16::post_on_each((void*)&fn);
}

template <typename RangeFunc, typename FunctionTy, typename... Args>
void do_all(const RangeFunc& rangeMaker, FunctionTy&& fn, const Args&... args) {
  auto range       = rangeMaker(std::make_tuple(args...));
  const unsigned T = runtime::activeThreads;
  for (unsigned t = 0; t < T; ++t) {
    vfenv::enter(t);
    auto begin     = range.local_begin();
    const auto end = range.local_end();
    while (begin != end) fn(*begin++);
  }
  vfenv::enter(0);
}

namespace vf_detail {
template <typename V, typename F>
void run_item(std::true_type, F& fn, V& item, V* wl, unsigned* tail, bool* brk) {
  vf16::Ctx<V> ctx{wl, tail, brk};
  fn(item, ctx);
}
// operators that name galois::UserContext<V> in their signature get the REAL UserContext (push buffer unused)
template <typename V, typename F>
void run_item(std::false_type, F& fn, V& item, V*, unsigned*, bool* brk) {
  galois::UserContext<V> ctx;
  ctx.didBreak = brk;
  fn(item, ctx);
}
} // namespace vf_detail

template <typename RangeFunc, typename FunctionTy, typename... Args>
void for_each(const RangeFunc& rangeMaker, FunctionTy&& fn, const Args&... args) {
  auto range = rangeMaker(std::make_tuple(args...));
  typedef typename std::remove_const<typename decltype(range)::value_type>::type V;
  alignas(V) unsigned char wlbuf[sizeof(V) * vf16::WLCAP]; // raw storage: no constructor loop
  V* wl         = reinterpret_cast<V*>(wlbuf);
  unsigned head = 0, tail = 0;
  bool brk = false;
  for (auto i = range.begin(); i != range.end(); ++i) {
    vf_assume(tail < vf16::WLCAP); // bound of the harness: at most WLCAP items per loop
    new (&wl[tail++]) V(*i);
  }
  vf16::fe_iters = 0;
  typedef decltype(vf16::invocable_with<typename std::remove_reference<FunctionTy>::type, V, vf16::Ctx<V>>(0)) Light;
  while (head != tail) {
    if (brk && vf_nondet_bool()) break; // every thread has seen the break flag
    vf_assume(vf16::fe_iters < vf16::fe_max_iters);
    ++vf16::fe_iters;
    unsigned t = vf_nondet_u8();
    vf_assume(t < runtime::activeThreads);
    vfenv::enter(t);
    V item = wl[head++];
    vf_detail::run_item<V>(Light(), fn, item, wl, &tail, &brk);
  }
  vfenv::enter(0);
}
} // namespace galois
