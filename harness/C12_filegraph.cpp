// UNIT: id=C12 cxxflags="-ffunction-sections -fdata-sections" ldflags="-Wl,--gc-sections"
// ASSUME: files: a one-file in-memory file system (open/write/fstat/close) and mmap as heap blocks of EXACTLY the requested length (anonymous: zero-filled; file-backed: a copy of the file range cut at end-of-file, no page rounding, no zero tail), never failing; munmap frees; in the native validation build the same harness uses the real file /tmp/vfc12.gr
// ASSUME: the per-thread storage behind FileGraph's three byte-read statistics counters (GAccumulator) is a single-thread bump allocator over a static page and getThreadPool() is a one-thread pool built in place (the real PerBackend/ThreadPool are the subjects of C09/C06)
// ASSUME: GALOIS_DIE/GALOIS_SYS_DIE/GALOIS_ASSERT keep their abort() but drop the iostream message formatting; a reached abort() is an assertion failure
// ASSUME: LargeArray's deleter (largeFreer) is munmap; FileGraph::node_degrees is never allocated here
// ASSUME: FileGraph objects are heap-allocated and not destroyed (the std::deque teardown costs 15 s per object in the solver and is not part of the property)
// OB: ob_arrays_v1 tier=quick unwind=8 unwindfn=vf_byte_:26 timeout=300 params=4,4,3 bounds="version 1: fromArrays -> toFile -> fromFile: nodes 0..3, edges 0..3 (odd and even), edge data 0/4/8 bytes (48 queries); out-index, destinations, edge data, converted flag symbolic" desc="a graph built with fromArrays lies inside the block sized by rawBlockSize (sections in order, 8-aligned), and written with toFile and read back with fromFile it is the same graph"
// OB: ob_arrays_v2_even tier=quick unwind=8 unwindfn=vf_byte_:26 timeout=300 params=4,2,3 bounds="version 2 (64-bit destinations), EVEN edge counts 0,2: nodes 0..3, edge data 0/4/8 bytes (24 queries)" desc="same statement, version 2, even edge counts"
// OB: ob_arrays_v2_odd tier=quick unwind=8 unwindfn=vf_byte_:26 timeout=300 params=4,2,3 bounds="version 2, ODD edge counts 1,3: nodes 0..3, edge data 0/4/8 bytes (24 queries)" desc="same statement, version 2, odd edge counts (fromArrays/fromMem skip 8 padding bytes that rawBlockSize does not allocate)"
// OB: ob_tofile tier=quick unwind=8 unwindfn=vf_byte_:26 timeout=300 params=2,2 bounds="the real FileGraph::toFile write loop: 2 nodes, 2 or 3 edges, 4-byte edge data, version 1 / version 2 with 2 edges (4 queries, of which v2 with 3 edges is assumed away: see ob_arrays_v2_odd)" desc="toFile writes exactly the block; fromFile reads the same graph"
#include "C12_common.h"

static void arrays_roundtrip(unsigned n, unsigned e, unsigned se, unsigned ver, bool useToFile = false) {
  Model m;
  make_model(m, n, e, se, ver);
  bool converted = vf_nondet_bool();
  FileGraph& g   = *new FileGraph; // never destroyed: see ASSUME
  build_from_arrays(g, m, converted);
  check_layout(g, m);
  check_same(g, m);
  // write the block to a file and read the file back
  size_t len = galois::graphs::rawBlockSize(n, e, se, ver);
  VF_CHECKM(g.mappings[0].len == len, "block length is rawBlockSize");
  if (useToFile) {
    g.toFile(VF_FILE);
  } else { // what toFile does, with the length as a constant for the solver (ob_tofile runs the real toFile)
    int fd = ::open(VF_FILE, O_WRONLY | O_CREAT | O_TRUNC, 0644);
    vf_assume(fd != -1);
    vf_assume((size_t)::write(fd, g.mappings[0].ptr, len) == len);
    ::close(fd);
  }
  FileGraph& h = *new FileGraph;
  h.fromFile(VF_FILE);
  VF_CHECKM(h.mappings.size() == 1 && h.mappings[0].len == len, "file length equals the block length");
  check_same(h, m);
}
OB(arrays_v1) { arrays_roundtrip(vf_param(0), vf_param(1), SZ[vf_param(2)], 1); }
OB(arrays_v2_even) { arrays_roundtrip(vf_param(0), 2 * vf_param(1), SZ[vf_param(2)], 2); }
OB(arrays_v2_odd) { arrays_roundtrip(vf_param(0), 2 * vf_param(1) + 1, SZ[vf_param(2)], 2); }
OB(tofile) {
  unsigned e = 2 + vf_param(0), ver = 1 + vf_param(1);
  vf_assume(!(ver == 2 && e == 3));
  arrays_roundtrip(2, e, 4, ver, true);
}
