// UNIT: id=C14
// ASSUME: inductive step: the pre-state is ANY representation with count <= N and exactly slots 0..count-1 constructed (the invariant every operation is checked to re-establish); contents symbolic
// ASSUME: operation KIND is enumerated as separate solver queries (vf_param); count, contents and values are solver variables
// ASSUME: ConcurrentFixedSizeBag is driven from one thread; compare_exchange_weak never fails spuriously
// ASSUME: unoccupied slots of the Counted bags are zero-filled by the harness so that destroying a never-constructed slot is detected deterministically (self != this)
// ASSUME: front()/back() are called on non-empty bags only (documented by the asserts in the header)
// OB: ob_bag_step tier=quick unwind=6 timeout=120 params=10,2 bounds="FixedSizeBag<T,3>, T=int (p1=0) or Counted (p1=1): arbitrary valid pre-state, ONE op of 10 kinds {push_front, push_back, emplace_front, emplace_back, pop_front, pop_back, extract_front, extract_back, clear, front/back read+write}; then size/empty/full, forward (LIFO) and reverse traversal, const traversal, live-instance count" desc="bag: one step from an arbitrary state equals a stack model; elements constructed/destroyed exactly once"
// OB: ob_cbag_step tier=quick unwind=6 timeout=120 params=4,2 bounds="ConcurrentFixedSizeBag<T,3> from one thread, T=int or Counted: arbitrary valid pre-state, ONE op of 4 kinds {push_front, push_back, clear, front/back read+write}" desc="concurrent bag (one thread): insert/clear/access step equals a stack model"
// OB: ob_cbag_pop tier=quick unwind=6 timeout=120 params=2,2 bounds="ConcurrentFixedSizeBag<T,3> from one thread, T=int or Counted: arbitrary valid pre-state, ONE pop_front or pop_back" desc="concurrent bag (one thread): pop removes and destroys exactly the top element"
// OB: ob_bag_seq quick_limit=30 tier=quick unwind=6 timeout=120 params=9,9 bounds="FixedSizeBag<Counted,3>: two pushes then every pair of ops from 9 kinds, bag destroyed at the end" desc="bag: sequences construct/destroy exactly once, nothing live after destruction"
// OB: ob_cbag_seq tier=quick unwind=6 timeout=120 params=4,4 bounds="ConcurrentFixedSizeBag<Counted,3> from one thread: two pushes then every pair of ops from {push_front, push_back, clear, access}, bag destroyed at the end" desc="concurrent bag (one thread): sequences without pop construct/destroy exactly once"
#include "vf.h"
#include <cstring>
#include "galois/FixedSizeRing.h"

namespace {
struct Counted {
  static int live;
  static int ctor, dtor;
  int v;
  Counted* self;
  Counted() : v(0), self(this) { ++live; ++ctor; }
  explicit Counted(int x) : v(x), self(this) { ++live; ++ctor; }
  Counted(Counted&& o) : v(o.v), self(this) { ++live; ++ctor; }
  Counted(const Counted& o) : v(o.v), self(this) { ++live; ++ctor; }
  Counted& operator=(Counted&& o) {
    vf_assert(self == this && o.self == &o, "assignment involves an object that is not alive");
    v = o.v;
    return *this;
  }
  Counted& operator=(const Counted& o) {
    vf_assert(self == this && o.self == &o, "assignment involves an object that is not alive");
    v = o.v;
    return *this;
  }
  ~Counted() {
    vf_assert(self == this, "destructor runs on an object that was never constructed (or destroyed twice)");
    self = nullptr;
    --live;
    ++dtor;
  }
};
int Counted::live = 0;
int Counted::ctor = 0;
int Counted::dtor = 0;

inline int val(int x) { return x; }
inline int val(const Counted& c) { return c.v; }
inline void alive(const int&) {}
inline void alive(const Counted& c) { VF_CHECKM(c.self == &c, "container exposes an element that is not alive"); }
template <typename T> struct Is { static const bool counted = false; };
template <> struct Is<Counted> { static const bool counted = true; };

constexpr unsigned N = 3;

template <typename T, bool C>
void check_equal(galois::FixedSizeBagBase<T, N, C>& b, const int* model, unsigned n) {
  typedef galois::FixedSizeBagBase<T, N, C> B;
  VF_CHECKM((unsigned)b.count <= N, "representation invariant count <= N");
  VF_CHECK(b.size() == n);
  VF_CHECK(b.empty() == (n == 0));
  VF_CHECK(b.full() == (n == N));
  unsigned k = 0;
  for (auto it = b.begin(); it != b.end(); ++it, ++k) {
    VF_CHECKM(k < n, "forward traversal yields more elements than the model");
    if (k >= n) return;
    alive(*it);
    VF_CHECKM(val(*it) == model[n - 1 - k], "forward traversal is not last-in-first-out");
  }
  VF_CHECKM(k == n, "forward traversal length");
  unsigned q = 0;
  for (auto it = b.rbegin(); it != b.rend(); ++it, ++q) {
    VF_CHECKM(q < n, "reverse traversal yields more elements than the model");
    if (q >= n) return;
    VF_CHECKM(val(*it) == model[q], "reverse traversal is not first-in-first-out");
  }
  VF_CHECKM(q == n, "reverse traversal length");
  const B& cb = b;
  k = 0;
  for (auto it = cb.begin(); it != cb.end(); ++it, ++k) {
    VF_CHECKM(k < n, "const traversal yields more elements than the model");
    if (k >= n) return;
    VF_CHECKM(val(*it) == model[n - 1 - k], "const traversal is not last-in-first-out");
  }
  VF_CHECKM(k == n, "const traversal length");
  if (n) {
    VF_CHECK(val(b.front()) == model[n - 1]);
    VF_CHECK(val(b.back()) == model[n - 1]);
    VF_CHECK(val(cb.front()) == model[n - 1]);
    VF_CHECK(val(cb.back()) == model[n - 1]);
  }
  if (Is<T>::counted) VF_CHECKM(Counted::live == (int)n, "live instances equal container size");
}

template <typename T, bool C>
unsigned arbitrary(galois::FixedSizeBagBase<T, N, C>& b, int* model) {
  unsigned count = vf_nondet_u8();
  vf_assume(count <= N);
  if (Is<T>::counted) std::memset((void*)&b.datac, 0, sizeof(b.datac));
  for (unsigned j = 0; j < count; ++j) {
    int v = (int)vf_nondet_u32();
    b.datac.emplace(j, v);
    model[j] = v;
  }
  b.count = count;
  return count;
}

// ops common to both variants: 0 push_front 1 push_back 2 clear 3 access 4 pop_front 5 pop_back
template <typename T, bool C>
void common_op(galois::FixedSizeBagBase<T, N, C>& b, int* model, unsigned& n, unsigned op) {
  int v = (int)vf_nondet_u32();
  switch (op) {
  case 0: case 1: {
    T w(v);
    T* p = op == 0 ? b.push_front(w) : b.push_back(w);
    if (n == N) {
      VF_CHECKM(p == nullptr, "insertion into a full bag is refused");
    } else {
      VF_CHECKM(p != nullptr, "insertion into a non-full bag succeeds");
      if (!p) return;
      VF_CHECKM(val(*p) == v, "insertion returns a pointer to the new element");
      model[n++] = v;
      VF_CHECKM(p == &b.front(), "returned pointer is the top element");
    }
    break;
  }
  case 2:
    b.clear();
    n = 0;
    break;
  case 3:
    vf_assume(n > 0);
    VF_CHECK(val(b.front()) == model[n - 1]);
    b.back() = T(v);
    model[n - 1] = v;
    break;
  case 4: case 5: {
    bool r = op == 4 ? b.pop_front() : b.pop_back();
    VF_CHECKM(r == (n > 0), "pop reports whether something was popped");
    if (n > 0) --n;
    break;
  }
  }
}

// non-concurrent only: 0 emplace_front 1 emplace_back 2 extract_front 3 extract_back
template <typename T>
void seq_op(galois::FixedSizeBagBase<T, N, false>& b, int* model, unsigned& n, unsigned op) {
  int v = (int)vf_nondet_u32();
  switch (op) {
  case 0: case 1: {
    T* p = op == 0 ? b.emplace_front(v) : b.emplace_back(v);
    if (n == N) {
      VF_CHECKM(p == nullptr, "insertion into a full bag is refused");
    } else {
      VF_CHECKM(p != nullptr, "insertion into a non-full bag succeeds");
      if (!p) return;
      VF_CHECKM(val(*p) == v, "insertion returns a pointer to the new element");
      model[n++] = v;
      VF_CHECKM(p == &b.front(), "returned pointer is the top element");
    }
    break;
  }
  case 2: case 3: {
    galois::optional<T> o = op == 2 ? b.extract_front() : b.extract_back();
    VF_CHECKM(o.is_initialized() == (n > 0), "extract yields a value iff the bag is non-empty");
    if (n > 0 && o.is_initialized()) {
      VF_CHECKM(val(*o) == model[n - 1], "extract yields the top element");
      alive(*o);
      --n;
    }
    break;
  }
  }
}

// kinds for the sequential bag: 0..5 common, 6..9 seq_op 0..3
template <typename T>
void bag_op(galois::FixedSizeBagBase<T, N, false>& b, int* model, unsigned& n, unsigned op) {
  if (op < 6) common_op(b, model, n, op);
  else seq_op(b, model, n, op - 6);
}

template <typename T>
void post() {
  if (Is<T>::counted) {
    VF_CHECKM(Counted::live == 0, "all elements destroyed when the bag dies");
    VF_CHECK(Counted::ctor == Counted::dtor);
  }
}

template <typename T>
void bag_step(unsigned op) {
  {
    galois::FixedSizeBag<T, N> b;
    int model[N + 1];
    unsigned n = arbitrary(b, model);
    bag_op(b, model, n, op);
    check_equal(b, model, n);
  }
  post<T>();
}

template <typename T>
void cbag_step(unsigned op) {
  {
    galois::ConcurrentFixedSizeBag<T, N> b;
    int model[N + 1];
    unsigned n = arbitrary(b, model);
    common_op(b, model, n, op);
    check_equal(b, model, n);
  }
  post<T>();
}
} // namespace

OB(bag_step) {
  if (vf_param(1) == 0) bag_step<int>(vf_param(0));
  else bag_step<Counted>(vf_param(0));
}

OB(cbag_step) { // kinds 0..3 of common_op
  if (vf_param(1) == 0) cbag_step<int>(vf_param(0));
  else cbag_step<Counted>(vf_param(0));
}

OB(cbag_pop) { // kinds 4,5 of common_op
  if (vf_param(1) == 0) cbag_step<int>(4 + vf_param(0));
  else cbag_step<Counted>(4 + vf_param(0));
}

OB(bag_seq) {
  {
    {
      galois::FixedSizeBag<Counted, N> b;
      std::memset((void*)&b.datac, 0, sizeof(b.datac));
      int model[N + 1];
      unsigned n = 0;
      b.emplace_back(1); model[n++] = 1;
      b.emplace_front(2); model[n++] = 2;
      for (unsigned i = 0; i < 2; ++i) {
        unsigned op = vf_param(i);
        bag_op(b, model, n, op < 4 ? op : op + 1); // 9 kinds: all but pop_front (pop_back forwards to it)
        check_equal(b, model, n);
      }
    }
    post<Counted>();
  }
}

OB(cbag_seq) {
  {
    {
      galois::ConcurrentFixedSizeBag<Counted, N> b;
      std::memset((void*)&b.datac, 0, sizeof(b.datac));
      int model[N + 1];
      unsigned n = 0;
      { Counted w(1); b.push_back(w); model[n++] = 1; }
      { Counted w(2); b.push_front(w); model[n++] = 2; }
      for (unsigned i = 0; i < 2; ++i) {
        common_op(b, model, n, vf_param(i));
        check_equal(b, model, n);
      }
    }
    post<Counted>();
  }
}
