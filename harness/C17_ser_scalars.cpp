// UNIT: id=C17 include="libdist/include" cxxflags="-DGALOIS_FORCE_STANDALONE -ffunction-sections -fdata-sections" ldflags="-Wl,--gc-sections"
// ASSUME: GALOIS_FORCE_STANDALONE (the repository's own switch) routes gdeque's FixedSizeAllocator to malloc
// ASSUME: container sizes and the pad length (0..7 bytes in front of the value: every buffer alignment, both branches of gDeserializeLinearSeq) are enumerated as separate solver queries (vf_param); all values are solver variables
// ASSUME: std::string values stay within the 15-character small-string capacity (reallocating growth _M_mutate is a BOUND failure)
// ASSUME: malloc/realloc results are maximally aligned (CBMC: alignment is decided by the offset inside the object), as glibc guarantees for 16 bytes
// OB: ob_scalars tier=quick unwind=30 timeout=300 params=8 bounds="uint8/16/32/64, int32, double (bit pattern), bool in one buffer after a pad of 0..7 bytes" desc="scalars and their concatenation round-trip, offset ends at the buffer size, gSized equals the bytes produced"
// OB: ob_pairs tier=quick unwind=30 timeout=300 params=8 bounds="std::pair<u32,u64>, nested std::pair<u8,pair<u16,u32>>, galois::Pair<u8,u64>, galois::TupleOfThree<u8,u32,u64> concatenated after a pad of 0..7 bytes" desc="pairs and tuples-of-three round-trip; offset; gSized"
// OB: ob_nested tier=quick unwind=30 timeout=300 params=8 bounds="u8, nested SerializeBuffer{u32, vector<u16>[2]}, partly consumed DeSerializeBuffer{u32}, u64; pad 0..7" desc="nested buffers contribute exactly their (remaining) bytes; concatenation round-trips"
// OB: ob_string_nonul tier=quick unwind=30 timeout=300 params=8,3 bounds="std::string of 0..2 symbolic NON-NUL characters followed by a uint16, pad 0..7" desc="strings without embedded NUL round-trip"
// OB: ob_string_any tier=quick unwind=30 timeout=300 params=8,3 bounds="std::string of 0..2 arbitrary characters (embedded NUL allowed) followed by a uint16, pad 0..7" desc="every std::string value round-trips (the wire form is NUL-terminated without a length, so an embedded NUL cannot)"
// OB: ob_misc tier=quick unwind=30 timeout=300 params=8 bounds="uint16 via gDeserializeRaw, std::tuple<int32,uint64> (written element-wise, read as a tuple), CopyableAtomic<uint32_t> (internal overloads), gSerializeLazySeq/gSerializeLazy of 2 uint32 read back as std::vector; pad 0..7" desc="the remaining overloads agree with the generic wire format"
#include "C17_common.h"

OB(scalars) {
  unsigned k = vf_param(0);
  uint8_t a8 = vf_nondet_u8(), b8 = 0;
  uint16_t a16 = vf_nondet_u16(), b16 = 0;
  uint32_t a32 = vf_nondet_u32(), b32 = 0;
  uint64_t a64 = vf_nondet_u64(), b64 = 0;
  int32_t ai = (int32_t)vf_nondet_u32(), bi = 0;
  double ad = nondet_double(), bd = 0;
  bool ab = vf_nondet_bool(), bb = false;
  SerializeBuffer b;
  pad(b, k);
  gSerialize(b, a8, a16, a32, a64, ai, ad, ab);
  VF_CHECKM(b.size() == k + gSized(a8, a16, a32, a64, ai, ad, ab), "gSized equals the bytes produced");
  VF_CHECK(b.size() == k + 1 + 2 + 4 + 8 + 4 + 8 + 1);
  DeSerializeBuffer d(std::move(b));
  skip(d, k);
  gDeserialize(d, b8, b16, b32, b64, bi, bd, bb);
  VF_CHECKM(d.getOffset() == d.size(), "read offset ends exactly at the buffer size");
  VF_CHECK(a8 == b8 && a16 == b16 && a32 == b32 && a64 == b64 && ai == bi && ab == bb);
  VF_CHECKM(same_bits(ad, bd), "double round-trips bit for bit");
}

// ---------------------------------------------------------------- pairs, Pair, TupleOfThree
OB(pairs) {
  unsigned k = vf_param(0);
  std::pair<uint32_t, uint64_t> p1(vf_nondet_u32(), vf_nondet_u64()), q1(0, 0);
  std::pair<uint8_t, std::pair<uint16_t, uint32_t>> p2, q2;
  p2.first         = vf_nondet_u8();
  p2.second.first  = vf_nondet_u16();
  p2.second.second = vf_nondet_u32();
  q2.first = 0; q2.second.first = 0; q2.second.second = 0;
  galois::Pair<uint8_t, uint64_t> p3(vf_nondet_u8(), vf_nondet_u64()), q3(0, 0);
  galois::TupleOfThree<uint8_t, uint32_t, uint64_t> p4(vf_nondet_u8(), vf_nondet_u32(), vf_nondet_u64()), q4(0, 0, 0);
  SerializeBuffer b;
  pad(b, k);
  gSerialize(b, p1, p2, p3, p4);
  VF_CHECKM(b.size() == k + gSized(p1, p2, p3, p4), "gSized equals the bytes produced");
  VF_CHECK(b.size() == k + 12 + 7 + sizeof(p3) + sizeof(p4));
  DeSerializeBuffer d(std::move(b));
  skip(d, k);
  gDeserialize(d, q1, q2, q3, q4);
  VF_CHECKM(d.getOffset() == d.size(), "read offset ends exactly at the buffer size");
  VF_CHECK(p1 == q1);
  VF_CHECK(p2 == q2);
  VF_CHECK(p3.first == q3.first && p3.second == q3.second);
  VF_CHECK(p4.first == q4.first && p4.second == q4.second && p4.third == q4.third);
}

// ---------------------------------------------------------------- nested buffers and concatenations
OB(nested) {
  unsigned k = vf_param(0);
  uint8_t a = vf_nondet_u8(), a2 = 0;
  uint32_t i1 = vf_nondet_u32(), j1 = 0;
  std::vector<uint16_t> iv, jv;
  uint16_t m[2];
  for (unsigned i = 0; i < 2; ++i) {
    m[i] = vf_nondet_u16();
    iv.push_back(m[i]);
  }
  uint64_t z = vf_nondet_u64(), z2 = 0;
  SerializeBuffer inner;
  gSerialize(inner, i1, iv);
  // a DeSerializeBuffer whose first byte was already consumed contributes its remaining bytes
  SerializeBuffer tmp;
  uint8_t junk = vf_nondet_u8();
  uint32_t r = vf_nondet_u32(), r2 = 0;
  gSerialize(tmp, junk, r);
  DeSerializeBuffer rest(std::move(tmp));
  (void)rest.pop();
  SerializeBuffer b;
  pad(b, k);
  gSerialize(b, a, inner, rest, z);
  VF_CHECKM(b.size() == k + gSized(a, inner, rest, z), "gSized equals the bytes produced");
  VF_CHECK(b.size() == k + 1 + (4 + 8 + 4) + 4 + 8);
  DeSerializeBuffer d(std::move(b));
  skip(d, k);
  gDeserialize(d, a2, j1, jv, r2, z2);
  VF_CHECKM(d.getOffset() == d.size(), "read offset ends exactly at the buffer size");
  VF_CHECK(a == a2 && i1 == j1 && r == r2 && z == z2);
  VF_CHECK(jv.size() == 2 && jv[0] == m[0] && jv[1] == m[1]);
}

// ---------------------------------------------------------------- std::string
static void string_roundtrip(bool allowNul) {
  unsigned k = vf_param(0), n = vf_param(1);
  std::string x, y;
  char m[2];
  for (unsigned i = 0; i < n; ++i) {
    m[i] = (char)vf_nondet_u8();
    if (!allowNul) vf_assume(m[i] != 0);
    x.push_back(m[i]);
  }
  uint16_t s = vf_nondet_u16(), t = 0;
  SerializeBuffer b;
  pad(b, k);
  gSerialize(b, x, s);
  VF_CHECKM(b.size() == k + gSized(x, s), "gSized equals the bytes produced");
  DeSerializeBuffer d(std::move(b));
  skip(d, k);
  gDeserialize(d, y, t);
  VF_CHECKM(y.size() == n, "string length differs after the round trip");
  for (unsigned i = 0; i < n && i < y.size(); ++i) VF_CHECKM(y[i] == m[i], "string character differs");
  VF_CHECKM(d.getOffset() == d.size(), "read offset ends exactly at the buffer size");
  VF_CHECKM(s == t, "value after the string differs");
}
OB(string_nonul) { string_roundtrip(false); }
OB(string_any) { string_roundtrip(true); }

// ---------------------------------------------------------------- pieces of the API that gSerialize()/gSized() do not reach
// (gSerialize(std::tuple), gSerialize(CopyableAtomic) do not compile: no gSizedObj/gSerializeObj overload)
OB(misc) {
  unsigned k = vf_param(0);
  int32_t ti = (int32_t)vf_nondet_u32();
  uint64_t tu = vf_nondet_u64();
  std::tuple<int32_t, uint64_t> tup(0, 0);
  galois::CopyableAtomic<uint32_t> at(vf_nondet_u32()), at2(0);
  uint32_t lz[2] = {vf_nondet_u32(), vf_nondet_u32()};
  std::vector<uint32_t> lv;
  uint16_t raw = vf_nondet_u16(), raw2 = 0;
  SerializeBuffer b;
  pad(b, k);
  gSerialize(b, raw, ti, tu);                       // a tuple is written element by element ...
  galois::runtime::internal::gSerializeObj(b, at);  // ... an atomic through the internal overload
  auto ref = galois::runtime::gSerializeLazySeq(b, 2, (std::vector<uint32_t>*)nullptr);
  galois::runtime::gSerializeLazy(b, ref, 1, std::move(lz[1])); // filled in out of order
  galois::runtime::gSerializeLazy(b, ref, 0, std::move(lz[0]));
  VF_CHECK(b.size() == k + 2 + 4 + 8 + 4 + 8 + 8);
  auto it = galois::runtime::gDeserializeRaw(b.begin() + k, raw2);
  VF_CHECKM(raw2 == raw && it == b.begin() + k + 2, "gDeserializeRaw reads sizeof(T) bytes from an iterator");
  DeSerializeBuffer d(std::move(b));
  skip(d, k + 2);
  gDeserialize(d, tup);
  galois::runtime::internal::gDeserializeObj(d, at2);
  gDeserialize(d, lv);
  VF_CHECKM(d.getOffset() == d.size(), "read offset ends exactly at the buffer size");
  VF_CHECKM(std::get<0>(tup) == ti && std::get<1>(tup) == tu, "std::tuple is read back element by element");
  VF_CHECKM(at2.load() == at.load(), "CopyableAtomic round-trips");
  VF_CHECKM(lv.size() == 2 && lv[0] == lz[0] && lv[1] == lz[1], "lazily serialised sequence reads back as a vector");
}
