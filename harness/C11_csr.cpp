// UNIT: id=C11 cxxflags="-ffunction-sections -fdata-sections" ldflags="-Wl,--gc-sections"
// ASSUME: ONE modelled thread: galois/Loops.h is cut - do_all runs its body sequentially over the real range object, on_each runs its body once as (tid 0 of 1); multi-thread construction and the atomic-counter transpose under real interleavings are outside
// ASSUME: the out-index (per-node edge counts) is ENUMERATED (all 56 monotone arrays for nodes<=3, edges<=4, one solver query each), not symbolic: the library's loops over edge ranges need concrete trip counts; destinations, edge data, lookup keys are solver variables
// ASSUME: one solver query covers a group of 5 consecutive out-index arrays (parameter p -> shapes 5p..5p+4), run one after the other on fresh graph objects
// ASSUME: LargeArray's NUMA allocators (largeMallocInterleaved/Blocked/Local/Floating) are zero-filled heap blocks of EXACTLY the requested byte count and nullptr for 0 bytes (the real allocator rounds up to 2 MB pages and returns nullptr for 0 pages): any access past element count-1 is out of bounds for the checker
// ASSUME: the input graph file is built in memory by the real FileGraph::fromArrays (version 1) with mmap modelled as a zero-filled heap block of the requested length rounded up to 8 bytes; FileGraph objects are never destroyed
// ASSUME: thread pool = a one-thread pool built in place; per-thread storage = bump allocator over a static page; StatTimer does nothing; no SimpleRuntimeContext is installed (calls outside a parallel loop), so acquire() is a no-op
// ASSUME: GALOIS_DIE/GALOIS_SYS_DIE keep their abort() but drop the message formatting; a reached abort() is an assertion failure
// OB: ob_csr_enum tier=quick unwind=14 unwindfn=vf_byte_:26 timeout=300 params=7,2 bounds="LC_CSR_Graph<int,uint32_t> and <int,void>: all 35 out-index arrays with nodes 0..3, edges 0..3; destinations (<nodes) and edge data symbolic" desc="allocateFrom(FileGraph)+constructFrom(FileGraph,0,1): nodes, edge_begin/edge_end/getEdgeDst/getEdgeData/getDegree enumerate exactly the input in file order"
// OB: ob_csr_enum_e4 tier=thorough unwind=14 unwindfn=vf_byte_:26 timeout=300 params=5,2 bounds="as ob_csr_enum: the 21 out-index arrays with 4 edges" desc="allocateFrom+constructFrom(FileGraph,0,1) presents exactly the input (4 edges)"
// OB: ob_csr_enum_t2 tier=quick unwind=14 unwindfn=vf_byte_:26 timeout=300 params=7,2 bounds="LC_CSR_Graph<int,uint32_t> built by TWO constructing threads (constructFrom(f,tid,2), either thread first): 35 out-index arrays (edges<=3)" desc="the graph presents exactly the input"
// OB: ob_csr_enum_api tier=quick unwind=14 timeout=300 params=7 bounds="LC_CSR_Graph<int,uint32_t>: 35 out-index arrays (edges<=3); destinations and edge data symbolic" desc="incremental builder allocateFrom(n,e)+constructNodes+fixEndEdge+constructEdge: the graph enumerates exactly the input"
// OB: ob_csr_enum_api_e4 tier=thorough unwind=14 timeout=300 params=5,2 bounds="uint32_t and void edge data: the 21 out-index arrays with 4 edges" desc="incremental builder presents exactly the input (4 edges)"
// OB: ob_csr_enum_vectors tier=quick unwind=20 timeout=300 params=7 bounds="LC_CSR_Graph<int,uint32_t>: 35 out-index arrays (edges<=3); std::vector<std::vector<>> inputs with concrete sizes" desc="constructFrom(numNodes,numEdges,prefix_sum,edges_id,edges_data) presents exactly the input; local range = all nodes"
// OB: ob_csr_enum_vectors_e4 tier=thorough unwind=20 timeout=300 params=5 bounds="the 21 out-index arrays with 4 edges" desc="constructFrom(vectors) presents exactly the input (4 edges)"
// OB: ob_csr_transpose tier=quick unwind=14 timeout=300 solver=cadical params=7 bounds="uint32_t edge data: 35 out-index arrays (edges<=3); destinations, data symbolic" desc="transpose(): edge ranges tile [0,E), in-degrees right, and the result is a permutation of the reversed edge multiset with each edge's data attached to it"
// OB: ob_csr_transpose_void tier=thorough unwind=14 timeout=300 solver=cadical params=7 bounds="void edge data: 35 out-index arrays (edges<=3); destinations, data symbolic" desc="transpose(): edge ranges tile [0,E), in-degrees right, and the result is a permutation of the reversed edge multiset with each edge's data attached to it"
// OB: ob_csr_transpose_e4 tier=thorough unwind=14 timeout=300 solver=cadical params=5,2 bounds="the 21 out-index arrays with 4 edges" desc="transpose() is the reversed edge multiset (4 edges)"
// OB: ob_csr_transpose2 tier=thorough unwind=14 timeout=600 solver=cadical params=12 bounds="uint32_t edge data: all 56 out-index arrays" desc="transpose() twice: the original out-index and, per node, a permutation of the original (destination, data) multiset"
// OB: ob_csr_sort_dst tier=thorough unwind=14 timeout=300 solver=cadical params=7 bounds="uint32_t edge data: 35 out-index arrays (edges<=3); every node sorted in turn" desc="sortEdgesByDst(N): node N's edges become a destination-ordered permutation of the same (destination, data) multiset; all other edges untouched"
// OB: ob_csr_sort_dst_e4 tier=thorough unwind=14 timeout=600 solver=cadical params=5 bounds="the 21 out-index arrays with 4 edges" desc="sortEdgesByDst (4 edges)"
// OB: ob_csr_sort_data tier=quick unwind=14 timeout=300 solver=cadical params=7 bounds="uint32_t edge data: 35 out-index arrays (edges<=3)" desc="sortEdgesByEdgeData(N, less): node N's edges become a data-ordered permutation of the same multiset; all other edges untouched"
// OB: ob_csr_sort_data_e4 tier=thorough unwind=14 timeout=600 solver=cadical params=5 bounds="the 21 out-index arrays with 4 edges" desc="sortEdgesByEdgeData (4 edges)"
// OB: ob_csr_sort_all tier=quick unwind=14 timeout=300 solver=cadical params=7 bounds="uint32_t edge data: 35 out-index arrays (edges<=3)" desc="sortAllEdgesByDst(): every node's edges are a destination-ordered permutation of its input multiset"
// OB: ob_csr_sort_all_void tier=thorough unwind=14 timeout=300 solver=cadical params=7 bounds="void edge data: 35 out-index arrays (edges<=3)" desc="sortAllEdgesByDst(): every node's edges are a destination-ordered permutation of its input multiset"
// OB: ob_csr_sort_all_e4 tier=thorough unwind=14 timeout=600 solver=cadical params=5,2 bounds="the 21 out-index arrays with 4 edges" desc="sortAllEdgesByDst (4 edges)"
// OB: ob_csr_sort_proxy tier=quick unwind=14 timeout=300 params=3 bounds="one node with 4 edges, uint32_t edge data; slot indices i, j symbolic; operation 0: iter_swap, 1: value read + write through the proxy, 2: proxy-to-proxy assignment" desc="the edge-sort proxy protocol std::sort relies on beyond the insertion-sort cut-off (swap / iter_swap of two EdgeSortReferences, EdgeSortValue read and write-back, reference assignment) moves (destination, data) PAIRS: exactly the addressed slots change, as a pair, and every other edge is untouched"
// OB: ob_csr_find tier=quick unwind=14 timeout=300 params=7 bounds="35 out-index arrays (edges<=3); every source node, symbolic 32-bit key" desc="findEdge(N1,N2): found iff N2 is a neighbour of N1; the returned edge is in N1's range and has destination N2; no access outside the arrays"
// OB: ob_csr_find_e4 tier=thorough unwind=14 timeout=300 params=5 bounds="the 21 out-index arrays with 4 edges" desc="findEdge (4 edges)"
// OB: ob_csr_find_sorted tier=quick unwind=14 timeout=300 params=7 bounds="35 out-index arrays (edges<=3), destinations sorted per node (precondition); every source node, symbolic 32-bit key" desc="findEdgeSortedByDst(N1,N2): found iff present, returned edge has destination N2, NO ACCESS OUTSIDE edgeDst[0,numEdges)"
// OB: ob_csr_find_sorted_inner tier=quick unwind=14 timeout=300 params=7 bounds="as ob_csr_find_sorted, restricted to searches whose lower bound is not edge id numEdges (the complement of the out-of-bounds case)" desc="findEdgeSortedByDst: found iff present and the returned edge has destination N2, whenever the binary search does not end at edge id numEdges"
// OB: ob_csr_find_sorted_inner_e4 tier=thorough unwind=14 timeout=300 params=5 bounds="the 21 out-index arrays with 4 edges, restricted as ob_csr_find_sorted_inner" desc="findEdgeSortedByDst (4 edges)"
// OB: ob_csr_local tier=quick unwind=14 timeout=300 params=4 bounds="LC_CSR_Graph (interleaved flavour): 1..4 active threads (one query each), any node count < 2^32, every thread id" desc="local_begin/local_end of consecutive thread ids tile [0,numNodes)"
// OB: ob_csr_numa tier=thorough unwind=14 unwindfn=vf_byte_:26 timeout=300 params=7 bounds="LC_CSR_Graph<int,uint32_t,false,true> (NUMA-blocked flavour, out-of-line locks variant excluded), one thread: 35 out-index arrays (edges<=3)" desc="blocked-allocation flavour built from the file presents exactly the input; local range set by constructFrom = all nodes; initializeLocalRanges keeps it"
// OB: ob_csr_divide tier=thorough unwind=14 timeout=300 params=12 bounds="all 56 out-index arrays; 1..3 divisions; node weight 0 / edge weight 1 (what initializeLocalRanges uses)" desc="LC_CSR_Graph::divideByNode: node ranges of consecutive divisions tile [0,numNodes) and each edge range is exactly the edges of the node range"
#include "C11_common.h"
#include "galois/graphs/LC_CSR_Graph.h"

typedef galois::graphs::LC_CSR_Graph<int, uint32_t> GraphW;
typedef galois::graphs::LC_CSR_Graph<int, void> GraphV;
typedef galois::graphs::LC_CSR_Graph<int, uint32_t, false, true> GraphN;
using galois::MethodFlag;

namespace {
constexpr unsigned E4 = 35; // first shape with 4 edges

template <typename G>
constexpr bool has_data = !std::is_void<typename G::edge_data_type>::value;

template <typename G>
NOINL G& build_file_csr(const Model& m) {
  FileGraph& f = build_file(m, has_data<G>);
  G& g         = *new G;
  g.allocateFrom(f);
  g.constructFrom(f, 0, 1);
  return g;
}

// the public incremental builder (allocateFrom(n,e), constructNodes, fixEndEdge, constructEdge) used by the apps
// (triangle counting, betweenness centrality, libcusp partitioners)
template <typename G>
NOINL G& build_api(const Model& m) {
  G& g = *new G;
  g.allocateFrom(m.n, m.e);
  g.constructNodes();
  for (unsigned k = 0; k < m.n; ++k) g.fixEndEdge(k, m.idx[k]);
  for (unsigned x = 0; x < m.e; ++x) {
    if constexpr (has_data<G>)
      g.constructEdge(x, m.dst[x], m.data[x]);
    else
      g.constructEdge(x, m.dst[x]);
  }
  return g;
}

template <typename G>
uint32_t edge_data(G& g, uint64_t x) {
  if constexpr (has_data<G>)
    return g.getEdgeData(typename G::edge_iterator(x));
  else
    return 0;
}
template <typename G>
uint32_t edge_dst(G& g, uint64_t x) {
  return g.getEdgeDst(typename G::edge_iterator(x));
}

// enumerate g against the model: node ids, every node's edge range, every edge's destination and data (by edge id:
// the per-node ranges are compared as intervals)
template <typename G>
NOINL void check_same(G& g, const Model& m) {
  VF_CHECK(g.size() == m.n);
  VF_CHECK(g.sizeEdges() == m.e);
  VF_CHECKM(*g.begin() == 0 && *g.end() == m.n, "node ids are 0..n-1");
  for (unsigned k = 0; k < m.n; ++k) {
    VF_CHECKM(*g.edge_begin(k, MethodFlag::UNPROTECTED) == m.begin(k), "edge_begin equals the input's out-index");
    VF_CHECKM(*g.edge_end(k, MethodFlag::UNPROTECTED) == m.idx[k], "edge_end equals the input's out-index");
    VF_CHECKM(g.getDegree(k) == m.idx[k] - m.begin(k), "getDegree");
  }
  for (unsigned x = 0; x < m.e; ++x) {
    VF_CHECKM(edge_dst(g, x) == m.dst[x], "edge destination differs");
    if (has_data<G>) VF_CHECKM(edge_data(g, x) == m.data[x], "edge data differs");
  }
}

// a walk through the public iteration interface with the default (locking) method flag
template <typename G>
NOINL void check_walk(G& g, const Model& m) {
  unsigned total = 0;
  for (auto n : g)
    for (auto e : g.edges(n)) {
      VF_CHECKM(total < m.e && *e == total, "edges are visited in file order");
      VF_CHECKM(g.getEdgeDst(e) == m.dst[total], "edge destination differs");
      ++total;
    }
  VF_CHECKM(total == m.e, "node x edge iteration visits every edge once");
}

template <typename G>
NOINL void enum_file(unsigned shape) {
  Model m;
  make_model(m, shape);
  G& g = build_file_csr<G>(m);
  check_same(g, m);
  check_walk(g, m);
}
template <typename G>
NOINL void enum_api(unsigned shape) {
  Model m;
  make_model(m, shape);
  G& g = build_api<G>(m);
  check_same(g, m);
}

NOINL void enum_vectors(unsigned shape) {
  Model m;
  make_model(m, shape);
  // never destroyed (see the cost model: container teardown is not part of the property)
  auto& ps = *new std::vector<uint64_t>(m.n);
  auto& id = *new std::vector<std::vector<uint32_t>>(m.n);
  auto& dt = *new std::vector<std::vector<uint32_t>>(m.n);
  for (unsigned k = 0; k < m.n; ++k) {
    ps[k] = m.idx[k];
    for (unsigned x = m.begin(k); x < m.idx[k]; ++x) {
      id[k].push_back(m.dst[x]);
      dt[k].push_back(m.data[x]);
    }
  }
  GraphW& g = *new GraphW;
  g.constructFrom(m.n, m.e, ps, id, dt);
  check_same(g, m);
  VF_CHECKM(*g.local_begin() == 0 && *g.local_end() == m.n, "one thread: the local range is the whole node set");
}

// ---- transpose
template <typename G>
NOINL void transpose(unsigned shape) {
  Model m;
  make_model(m, shape);
  G& g = build_api<G>(m);
  g.transpose();
  VF_CHECK(g.size() == m.n);
  VF_CHECK(g.sizeEdges() == m.e);
  // ranges tile [0,e); in-degrees
  uint64_t tb[MAXN + 1], te[MAXN + 1];
  uint64_t prev = 0;
  for (unsigned k = 0; k < m.n; ++k) {
    tb[k] = *g.edge_begin(k, MethodFlag::UNPROTECTED);
    te[k] = *g.edge_end(k, MethodFlag::UNPROTECTED);
    VF_CHECKM(tb[k] == prev, "edge ranges of consecutive nodes are adjacent");
    VF_CHECKM(te[k] >= tb[k] && te[k] <= m.e, "edge range inside [0,numEdges)");
    unsigned indeg = 0;
    for (unsigned x = 0; x < m.e; ++x)
      if (m.dst[x] == k) ++indeg;
    VF_CHECKM(te[k] - tb[k] == indeg, "out-degree after transpose = in-degree before");
    VF_CHECK(g.getDegree(k) == indeg);
    prev = te[k];
  }
  VF_CHECKM(prev == m.e, "edge ranges cover [0,numEdges)");
  // multiset equality: every input edge (s,d,w) occurs as (d,s,w) exactly as often as it occurs in the input
  // (together with equal totals this is equality of the two multisets)
  unsigned tsrc[MAXE + 1], tdst[MAXE + 1], tdat[MAXE + 1], msrc[MAXE + 1];
  for (unsigned y = 0; y < m.e; ++y) {
    unsigned s = 0;
    for (unsigned k = 0; k < m.n; ++k)
      if (te[k] <= y) ++s;
    tsrc[y] = s;
    tdst[y] = edge_dst(g, y);
    tdat[y] = edge_data(g, y);
    msrc[y] = m.src(y);
  }
  for (unsigned x = 0; x < m.e; ++x) {
    unsigned a = 0, b = 0;
    for (unsigned y = 0; y < m.e; ++y) {
      if (msrc[y] == msrc[x] && m.dst[y] == m.dst[x] && (!has_data<G> || m.data[y] == m.data[x])) ++a;
      if (tsrc[y] == m.dst[x] && tdst[y] == msrc[x] && (!has_data<G> || tdat[y] == m.data[x])) ++b;
    }
    VF_CHECKM(a == b, "transpose is not the reversed edge multiset (edge missing, duplicated, or carrying another edge's data)");
  }
}

// per node: graph range [b,e) is a permutation of the model's (dst,data) multiset over the same range
template <typename G>
NOINL void check_node_perm(G& g, const Model& m, unsigned k) {
  unsigned b = m.begin(k), e = m.idx[k];
  VF_CHECK(*g.edge_begin(k, MethodFlag::UNPROTECTED) == b && *g.edge_end(k, MethodFlag::UNPROTECTED) == e);
  uint32_t gd[MAXE + 1], gw[MAXE + 1];
  for (unsigned x = b; x < e; ++x) {
    gd[x] = edge_dst(g, x);
    gw[x] = edge_data(g, x);
  }
  for (unsigned x = b; x < e; ++x) {
    unsigned a = 0, c = 0;
    for (unsigned y = b; y < e; ++y) {
      if (m.dst[y] == m.dst[x] && (!has_data<G> || m.data[y] == m.data[x])) ++a;
      if (gd[y] == m.dst[x] && (!has_data<G> || gw[y] == m.data[x])) ++c;
    }
    VF_CHECKM(a == c, "node's edges are not a permutation of its input (destination, data) multiset");
  }
}

NOINL void transpose2(unsigned shape) {
  Model m;
  make_model(m, shape);
  GraphW& g = build_api<GraphW>(m);
  g.transpose();
  g.transpose();
  VF_CHECK(g.size() == m.n && g.sizeEdges() == m.e);
  for (unsigned k = 0; k < m.n; ++k) check_node_perm(g, m, k);
}

// ---- sorting one node at a time: byData = false: sortEdgesByDst, true: sortEdgesByEdgeData
NOINL void sort_each(unsigned shape, bool byData) {
  Model m;
  make_model(m, shape);
  GraphW& g = build_api<GraphW>(m);
  for (unsigned k = 0; k < m.n; ++k) {
    if (byData)
      g.sortEdgesByEdgeData(k, std::less<uint32_t>());
    else
      g.sortEdgesByDst(k);
    check_node_perm(g, m, k);
    for (unsigned x = m.begin(k); x + 1 < m.idx[k]; ++x) {
      if (byData)
        VF_CHECKM(edge_data(g, x) <= edge_data(g, x + 1), "edges not ordered by edge data");
      else
        VF_CHECKM(edge_dst(g, x) <= edge_dst(g, x + 1), "edges not ordered by destination");
    }
    // every other edge is untouched; then the model follows the graph
    for (unsigned x = 0; x < m.e; ++x)
      if (x < m.begin(k) || x >= m.idx[k]) {
        VF_CHECKM(edge_dst(g, x) == m.dst[x] && edge_data(g, x) == m.data[x], "sorting node N changed an edge of another node");
      }
    for (unsigned x = m.begin(k); x < m.idx[k]; ++x) {
      m.dst[x]  = edge_dst(g, x);
      m.data[x] = edge_data(g, x);
    }
  }
}

template <typename G>
NOINL void sort_all(unsigned shape) {
  Model m;
  make_model(m, shape);
  G& g = build_api<G>(m);
  g.sortAllEdgesByDst();
  VF_CHECK(g.size() == m.n && g.sizeEdges() == m.e);
  for (unsigned k = 0; k < m.n; ++k) {
    check_node_perm(g, m, k);
    for (unsigned x = m.begin(k); x + 1 < m.idx[k]; ++x)
      VF_CHECKM(edge_dst(g, x) <= edge_dst(g, x + 1), "edges not ordered by destination");
  }
}


// ---- the proxy protocol behind std::sort (sorts longer than libstdc++'s insertion-sort cut-off of 16 reach swap /
// iter_swap / value moves; concrete sorts that long are out of the solver's reach, so the protocol is checked directly)
NOINL void sort_proxy(unsigned op) {
  Model m;
  m.n = 1; m.e = 4;
  for (unsigned i = 0; i <= MAXN; ++i) m.idx[i] = 4;
  for (unsigned i = 0; i <= MAXE; ++i) { m.dst[i] = 0; m.data[i] = vf_nondet_u32(); }
  GraphW& g = build_api<GraphW>(m);
  // destinations: arbitrary 32-bit values (the proxy never interprets them)
  for (unsigned x = 0; x < 4; ++x) { m.dst[x] = vf_nondet_u32(); g.edgeDst.set(x, m.dst[x]); }
  unsigned i = vf_nondet_u8(), j = vf_nondet_u8();
  vf_assume(i < 4 && j < 4);
  auto it = g.edge_sort_begin(0);
  VF_CHECK(g.edge_sort_end(0) - it == 4);
  if (op == 0) {
    std::iter_swap(it + i, it + j);
    uint32_t td = m.dst[i], tv = m.data[i];
    m.dst[i] = m.dst[j]; m.data[i] = m.data[j];
    m.dst[j] = td; m.data[j] = tv;
  } else if (op == 1) {
    typename GraphW::edge_sort_iterator::value_type v(*(it + i)); // EdgeSortValue
    VF_CHECKM(v.rawDst == m.dst[i] && v.get() == m.data[i], "EdgeSortValue read through the proxy is not the slot's (destination, data) pair");
    *(it + j) = v;
    m.dst[j] = m.dst[i]; m.data[j] = m.data[i];
  } else {
    *(it + j) = *(it + i);
    m.dst[j] = m.dst[i]; m.data[j] = m.data[i];
  }
  for (unsigned x = 0; x < 4; ++x)
    VF_CHECKM(edge_dst(g, x) == m.dst[x] && edge_data(g, x) == m.data[x], "edge-sort proxy operation did not move (destination, data) as a pair / touched another slot");
}
OB(csr_sort_proxy) { sort_proxy(vf_param(0)); }

// ---- lookup
NOINL void find_linear(unsigned shape) {
  Model m;
  make_model(m, shape);
  GraphW& g    = build_api<GraphW>(m);
  uint32_t key = vf_nondet_u32();
  for (unsigned k = 0; k < m.n; ++k) {
    bool present = false;
    for (unsigned x = m.begin(k); x < m.idx[k]; ++x)
      if (m.dst[x] == key) present = true;
    uint64_t r = *g.findEdge(k, key);
    if (present) {
      VF_CHECKM(r >= m.begin(k) && r < m.idx[k], "findEdge: key is a neighbour but no edge of the node is returned");
      VF_CHECKM(m.dst[r < MAXE ? r : MAXE] == key, "findEdge: returned edge has another destination");
    } else
      VF_CHECKM(r == m.idx[k], "findEdge: key is not a neighbour but an edge is returned");
  }
}

NOINL void find_sorted(unsigned shape, bool inner) {
  Model m;
  make_model(m, shape);
  // documented precondition: each node's edges are sorted by destination
  for (unsigned k = 0; k < m.n; ++k)
    for (unsigned x = m.begin(k); x + 1 < m.idx[k]; ++x) vf_assume(m.dst[x] <= m.dst[x + 1]);
  GraphW& g    = build_api<GraphW>(m);
  uint32_t key = vf_nondet_u32();
  for (unsigned k = 0; k < m.n; ++k) {
    bool present = false;
    unsigned lb  = m.idx[k]; // first edge of the node with destination >= key
    for (unsigned x = m.idx[k]; x > m.begin(k); --x)
      if (m.dst[x - 1] >= key) lb = x - 1;
    for (unsigned x = m.begin(k); x < m.idx[k]; ++x)
      if (m.dst[x] == key) present = true;
    if (inner && lb == m.e) continue; // the complement is ob_csr_find_sorted's finding
    uint64_t r = *g.findEdgeSortedByDst(k, key);
    if (present) {
      VF_CHECKM(r >= m.begin(k) && r < m.idx[k], "findEdgeSortedByDst: key is a neighbour but no edge of the node is returned");
      VF_CHECKM(m.dst[r < MAXE ? r : MAXE] == key, "findEdgeSortedByDst: returned edge has another destination");
    } else
      VF_CHECKM(r == m.idx[k], "findEdgeSortedByDst: key is not a neighbour but an edge is returned");
  }
}
} // namespace


// two constructing threads (readGraph runs constructFrom(f, tid, total) on every thread; the bodies write disjoint
// node ranges, so they are run one after the other, either thread first)
NOINL void enum_file_t2(unsigned shape, unsigned first) {
  Model m;
  make_model(m, shape);
  FileGraph& f = build_file(m, true);
  GraphW& g    = *new GraphW;
  g.allocateFrom(f);
  g.constructFrom(f, first, 2);
  g.constructFrom(f, 1 - first, 2);
  check_same(g, m);
}
OB(csr_enum_t2) { for_group(0, E4, [](unsigned s) { enum_file_t2(s, vf_param(1)); }); }

#define GROUPS(name, CALL_Q, CALL_T)                                    \
  OB(name) { for_group(0, E4, [](unsigned s) { CALL_Q; }); }               \
  OB(name##_e4) { for_group(E4, 56, [](unsigned s) { CALL_T; }); }
#define BY_TYPE(fn) (vf_param(1) == 0 ? fn<GraphW>(s) : fn<GraphV>(s))
GROUPS(csr_enum, BY_TYPE(enum_file), BY_TYPE(enum_file))
GROUPS(csr_enum_api, enum_api<GraphW>(s), BY_TYPE(enum_api))
GROUPS(csr_enum_vectors, enum_vectors(s), enum_vectors(s))
GROUPS(csr_transpose, transpose<GraphW>(s), BY_TYPE(transpose))
OB(csr_transpose_void) { for_group(0, E4, [](unsigned s) { transpose<GraphV>(s); }); }
OB(csr_transpose2) { for_group(0, 56, [](unsigned s) { transpose2(s); }); }
GROUPS(csr_sort_dst, sort_each(s, false), sort_each(s, false))
GROUPS(csr_sort_data, sort_each(s, true), sort_each(s, true))
GROUPS(csr_sort_all, sort_all<GraphW>(s), BY_TYPE(sort_all))
OB(csr_sort_all_void) { for_group(0, E4, [](unsigned s) { sort_all<GraphV>(s); }); }
GROUPS(csr_find, find_linear(s), find_linear(s))
OB(csr_find_sorted) { for_group(0, E4, [](unsigned s) { find_sorted(s, false); }); }
GROUPS(csr_find_sorted_inner, find_sorted(s, true), find_sorted(s, true))

// local ranges of the interleaved flavour: pure arithmetic on (numNodes, thread id, active threads)
OB(csr_local) {
  unsigned T = 1 + vf_param(0);
  GraphW& g  = *new GraphW;
  uint64_t n = vf_nondet_u32();
  g.numNodes = n;
  galois::runtime::activeThreads = T;
  uint64_t prev = 0;
  for (unsigned t = 0; t < T; ++t) {
    galois::substrate::ThreadPool::my_box.topo.tid = t;
    uint64_t b = *g.local_begin(), e = *g.local_end();
    VF_CHECKM(b == prev, "local range starts where the previous thread's range ends");
    VF_CHECKM(b <= e && e <= n, "local range inside [0,numNodes)");
    prev = e;
  }
  VF_CHECKM(prev == n, "local ranges cover [0,numNodes)");
  galois::runtime::activeThreads                 = 1;
  galois::substrate::ThreadPool::my_box.topo.tid = 0;
}

NOINL static void numa(unsigned shape) {
  Model m;
  make_model(m, shape);
  GraphN& g = build_file_csr<GraphN>(m);
  check_same(g, m);
  VF_CHECKM(*g.local_begin() == 0 && *g.local_end() == m.n, "one thread: constructFrom sets the local range to the whole node set");
  g.initializeLocalRanges();
  VF_CHECKM(*g.local_begin() == 0 && *g.local_end() == m.n, "one thread: initializeLocalRanges keeps the whole node set");
}
OB(csr_numa) { for_group(0, E4, [](unsigned s) { numa(s); }); }

NOINL static void divide(unsigned shape) {
  Model m;
  make_model(m, shape);
  GraphW& g  = build_api<GraphW>(m);
  for (unsigned T = 1; T <= 3; ++T) {
  uint64_t prevN = 0, prevE = 0;
  for (unsigned id = 0; id < T; ++id) {
    auto r      = g.divideByNode(0, 1, id, T);
    uint64_t nb = *r.first.first, ne = *r.first.second, eb = *r.second.first, ee = *r.second.second;
    VF_CHECKM(nb <= ne && ne <= m.n, "node range inside [0,numNodes)");
    if (nb != ne) {
      VF_CHECKM(nb == prevN, "node range starts where the previous non-empty one ends");
      VF_CHECKM(eb == m.begin(nb) && ee == m.idx[ne - 1], "edge range = edges of the node range");
      prevN = ne;
      prevE = ee;
    } else
      VF_CHECKM(eb == ee, "empty node range has an empty edge range");
  }
  VF_CHECKM(prevN == m.n, "node ranges cover [0,numNodes)");
  if (m.n) VF_CHECKM(prevE == m.e, "edge ranges cover [0,numEdges)");
  }
}
OB(csr_divide) { for_group(0, 56, [](unsigned s) { divide(s); }); }
