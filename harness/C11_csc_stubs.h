/* External-function models for the C11 units: anonymous mmap = zero-filled heap block of EXACTLY the requested
 * length (FileGraph::fromArrays builds its block with it); munmap frees. */
#include "vf_rt.h"
#ifndef VF_C11_STUBS_H
#define VF_C11_STUBS_H
#define VF_HAVE_x_mmap
VF_X char* x_mmap(char* addr, uint64_t len, uint32_t prot, uint32_t flags, uint32_t fd, uint64_t off) {
  VF_ASSUME(fd == 0xffffffffu); /* anonymous mappings only */
#ifdef __CPROVER__
  /* a block of 64-bit words (the file format is a sequence of 64-bit words followed by 32-bit destinations): lets the
   * checker fold constant header / out-index words read back from the block; length rounded up to a multiple of 8 */
  return (char*)__CPROVER_allocate(((len + 7) / 8) * sizeof(uint64_t), 1);
#else
  return x_calloc(len, 1);
#endif
}
#define VF_HAVE_x_munmap
VF_X uint32_t x_munmap(char* p, uint64_t len) { free(p); return 0; }
#endif
