// UNIT: id=C05
// ASSUME: getThreadPool() is a harness fake pool object (C15_env.h) with mi.maxThreads = M and reserved = R set by hand; createTopoBarrier() returns a RECORDING barrier (participant count it was created / last re-initialised with, number of reinit calls): the barrier algorithms themselves are the concurrent obligations of this property, this unit examines the bookkeeping of internal::BarrierInstance::get (the object behind runtime::getBarrier / substrate::getBarrier) only
// ASSUME: GALOIS_ASSERT keeps its fatal exit and drops the message formatting
// OB: ob_instance_seq tier=quick unwind=8 timeout=300 params=4 bounds="BarrierInstance over a pool with maxThreads M = 1..4 (one query each), reserved threads R symbolic in 0..M-1, FOUR consecutive get(n) calls with symbolic n in 1..6 (requests above the usable maximum included)" desc="after every get(n) the barrier handed out is initialised for exactly min(n, usable threads) participants, whatever was requested before (grow, shrink, back to the maximum), and it is the same barrier object"
#include "C15_env.h"
#undef GALOIS_ASSERT
#define GALOIS_ASSERT(cond, ...) \
  do {                           \
    if (!(cond)) abort();        \
  } while (0)
#include "galois/substrate/Barrier.h"

namespace {
struct RecBarrier : public galois::substrate::Barrier {
  unsigned parts, reinits;
  explicit RecBarrier(unsigned n) : parts(n), reinits(0) {}
  void reinit(unsigned val) override {
    parts = val;
    ++reinits;
  }
  void wait() override {}
  const char* name() const override { return "recorder"; }
};
RecBarrier* g_rec;
} // namespace

galois::substrate::Barrier::~Barrier() {}
std::unique_ptr<galois::substrate::Barrier> galois::substrate::createTopoBarrier(unsigned n) {
  g_rec = new RecBarrier(n);
  return std::unique_ptr<Barrier>(g_rec);
}

OB(instance_seq) {
  using namespace galois::substrate;
  unsigned M = 1 + vf_param(0);
  unsigned R = vf_nondet_u8();
  vf_assume(R < M);
  ThreadPool& tp   = getThreadPool();
  tp.mi.maxThreads = M;
  tp.reserved      = R;
  internal::BarrierInstance<>* bi = new internal::BarrierInstance<>();
  VF_CHECKM(g_rec != nullptr && g_rec->parts == M, "the instance starts with a barrier for the maximum number of threads");
  RecBarrier* first = g_rec;
  for (unsigned k = 0; k < 4; ++k) {
    unsigned n = vf_nondet_u8();
    vf_assume(n >= 1 && n <= 6);
    Barrier& b      = bi->get(n);
    unsigned usable = M - R;
    unsigned want   = n < usable ? n : usable;
    VF_CHECKM(&b == first && g_rec == first, "get() hands out the one barrier object of the instance");
    VF_CHECKM(first->parts == want, "the barrier handed out by get(n) is not initialised for min(n, usable threads) participants");
  }
}
