// UNIT: id=C01 pause=nop cxxflags="-DGALOIS_FORCE_STANDALONE -DVF_PTS_BYTES=512 -DGALOIS_FAST_PUSHBACK_LIMIT=2"
// ASSUME: environment C01_env.h (fake ThreadPool object, ONE thread, real PerThreadStorage.cpp / SimpleLock.cpp / Barrier_Counting.cpp; page allocator = 512-byte calloc blocks; runtime::getBarrier = one real CountingBarrier; GALOIS_DIE / GALOIS_ASSERT keep the fatal exit and drop the iostream text); real Context.cpp and Termination.cpp are included; the system termination detector is a real LocalTerminationDetection installed with setTermDetect as SharedMem does
// ASSUME: substrate::PtrLock<T> is replaced by C01_ptrlock_model.h (unavoidable: pointer through (uintptr_t)p|1 is not constant-propagated by CBMC); it serves both the chunk queues and Lockable::owner
// ASSUME: SystemHeap's constructor/destructor (Mem.cpp) and the page pool (PagePool.cpp: pagePoolAlloc/Free/Size) are harness stubs: the per-iteration allocator object is constructed and cleared but the operator never allocates from it (allocator behaviour is C09)
// ASSUME: the loop has no loopname, hence LoopStatistics<false> and PerThreadTimer<false> (statistics/reporting are not part of the property)
// ASSUME: the REAL go<couldAbort=true, isLeader=true>() runs on the one pool thread (what ForEachExecutor::operator() calls on thread 0): its set-up of the thread-local data and hooks, the runQueue / handleAborts / localTermination loop, checkEmpty; the initial work is pushed with the real initThread()
// ASSUME: setjmp/longjmp are modelled by the translator as return-propagation to the frame that called _setjmp
// ASSUME: hook GALOIS_FAST_PUSHBACK_LIMIT (UserContext.h, effective under GALOIS_VERIF only) is 2 instead of 64: an installed fast push-back hook fires at the third push of an iteration
// ASSUME: pause instructions are no-ops (unit option pause=nop; go() pauses once after every termination report); a spin would trip the unwinding assertion
// OB: ob_exec_go tier=attic solver=cadical unwind=70 timeout=900 cbmc="--max-field-sensitivity-array-size 600" params=2 bounds="ForEachExecutor<ChunkFIFO<2>, Op, Args> with conflict detection, ONE thread, real go(): one initial item whose first attempt pushes 3 symbolic children and then aborts voluntarily (param 0) or hits a lockable owned by another context (param 1); the retry pushes one child and commits; the child commits" desc="pushes of an aborted attempt never become work: the operator runs exactly three times (aborted attempt, retry, the retry's child), the child that runs is the retry's, go() returns with an empty worklist and abort queue"
#include "C01_env.h"
#undef GALOIS_ASSERT
#define GALOIS_ASSERT(cond, ...) \
  do {                           \
    if (!(cond)) abort();        \
  } while (0)
#include "galois/runtime/Executor_ForEach.h"
#include "vf_standalone.h"
#include "../src/Context.cpp"
#include "../src/Termination.cpp"

// Mem.cpp / PagePool.cpp cut
galois::runtime::SystemHeap::SystemHeap() {}
galois::runtime::SystemHeap::~SystemHeap() {}
void* galois::runtime::pagePoolAlloc() { return std::calloc(1, 2 * 1024 * 1024); }
void galois::runtime::pagePoolFree(void* p) { std::free(p); }
size_t galois::runtime::pagePoolSize() { return 2 * 1024 * 1024; }

using namespace galois::runtime;
namespace {
unsigned g_mode, g_ran, g_ran_ghost, g_ran_child;
int g_ghost[3], g_child;
Lockable g_foreign;
SimpleRuntimeContext g_other; // another thread's iteration: owns g_foreign during the first attempt

// items: 100 = the initial item; 10..13 children pushed by the aborted attempt; 20..23 the child of the retry
struct Op {
  void operator()(int& item, galois::UserContext<int>& ctx) const {
    ++g_ran;
    if (item >= 20 && item < 30) {
      ++g_ran_child;
      return;
    }
    if (item >= 10 && item < 20) {
      ++g_ran_ghost;
      return;
    }
    if (g_ran == 1) { // first attempt of the initial item
      for (unsigned j = 0; j < 3; ++j) ctx.push(g_ghost[j]);
      if (g_mode == 0)
        ctx.abort();
      else
        galois::runtime::acquire(&g_foreign, galois::MethodFlag::WRITE);
      return;
    }
    if (g_mode == 1 && g_other.locks) g_other.commitIteration(); // the other iteration has finished meanwhile
    ctx.push(g_child);
  }
};

typedef galois::worklists::ChunkFIFO<2> WLTy;
typedef decltype(std::make_tuple(galois::wl<WLTy>())) ArgsA;
typedef ForEachExecutor<WLTy, Op, ArgsA> ExA;
struct Range {
  int *b, *e;
  std::pair<int*, int*> local_pair() const { return std::make_pair(b, e); }
};
int sym() {
  return (int)(vf_nondet_u8() & 3); // masked, not assumed: native validation runs are not rejected
}
} // namespace

OB(exec_go) {
  vfenv::init(1);
  galois::runtime::activeThreads = 1;
  galois::substrate::internal::setTermDetect(new galois::substrate::internal::LocalTerminationDetection<>());
  g_mode = vf_param(0);
  for (unsigned j = 0; j < 3; ++j) g_ghost[j] = 10 + sym();
  g_child = 20 + sym();
  static int init[1] = {100};
  if (g_mode == 1) g_other.acquire(&g_foreign, galois::MethodFlag::WRITE);

  Op op;
  ArgsA args = std::make_tuple(galois::wl<WLTy>());
  ExA ex(op, args);
  Range r{init, init + 1};
  ex.initThread(r);
  ex.go<true, true>();

  VF_CHECKM(g_ran_ghost == 0, "a child pushed by an ABORTED attempt was executed (pushes of an aborted iteration became work)");
  VF_CHECKM(g_ran_child == 1, "the child pushed by the committed retry did not run exactly once");
  VF_CHECKM(g_ran == 3, "the operator did not run exactly three times (aborted attempt, retry, the retry's child)");
  galois::optional<int> left = ex.wl.pop();
  VF_CHECKM(!left, "go() returned although the worklist still holds work");
  VF_CHECKM(!ex.aborted.getQueue()->pop(), "go() returned although the abort queue still holds work");
}
