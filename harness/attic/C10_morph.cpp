// PARKED in harness/attic (not picked up by ./check): the translated MorphGraph unit does not fit the per-query caps.
// Measured (cbmc 6.11, unwind=10, concrete operation kinds, directed flavour MorphGraph<int,int,true>, 2-3 nodes):
//   * 3 mutations (addEdge, addMultiEdge, removeEdge) + a walk after each: "SAT checker ran out of memory" at the 6 GB
//     limit, wall clock > 300 s (timeout)
//   * ONE mutation (addMultiEdge) + two walks: out of memory at 14.4 GB resident after 137 s
// Cause: every loop over a node's edge list (boost::container::small_vector behind boost::filter_iterator, inline or
// heap storage, tagged pointers) and over the node bag (InsertBag headers) has a trip count the checker cannot fold to
// a constant, so each is unwound to the bound, nested, with pointer-heavy bodies.  No other technique is substituted.
// UNIT: id=C10 cxxflags="-DGALOIS_FORCE_STANDALONE -ffunction-sections -fdata-sections" ldflags="-Wl,--gc-sections"
// ASSUME: SINGLE worker, MethodFlag::UNPROTECTED everywhere: the structural part of the property (each mutator preserves the invariants); interleavings and conflict detection are C01/C02's subject
// ASSUME: GALOIS_FORCE_STANDALONE (the repository's own switch) routes the fixed-size / power-of-two allocators to malloc; the page pool behind galois::InsertBag (node bag, shared edge-data bag) hands out 512-byte zeroed heap blocks; thread pool = one-thread pool built in place, per-thread storage = bump allocator over a static page; galois/Loops.h (parallel executors) is cut as in the C11 units
// ASSUME: operation KINDS and their node operands are enumerated as separate solver queries (vf_param); edge data values are solver variables
// OB: ob_morph_dir tier=quick unwind=10 timeout=300 params=6,6,6 param_limit=40 bounds="MorphGraph<int,int,true> (directed): 2 nodes created and added, then 3 mutations, each one of 6 kinds {addEdge(a,b) with duplicate check + data assignment, addMultiEdge(a,b,v), removeEdge(first out-edge of a), removeNode(a), createNode+addNode of the third node, getEdgeData(first edge of a) = v} source alternating between nodes 0/1, destination = the third node once added else the other node, last addMultiEdge a self loop; 40 of 216 kind sequences (VERIF_SEED)" desc="after every step a walk through the public API equals a 3x3 reference adjacency multiset: node iteration yields each live node once, edge iteration each live edge once, no edge points to a removed node, data attached to the right edge"
// OB: ob_morph_dir1 tier=thorough unwind=10 timeout=300 params=6 bounds="as ob_morph_dir with ONE mutation" desc="cost probe: one mutation on the directed flavour"
#include "C11_common.h"
#include "galois/graphs/MorphGraph.h"
#include "vf_standalone.h"

// page pool behind InsertBag: 512-byte zeroed blocks
namespace galois::runtime {
void* pagePoolAlloc() { return std::calloc(1, 512); }
void pagePoolFree(void* p) { std::free(p); }
size_t pagePoolSize() { return 512; }
} // namespace galois::runtime

using galois::MethodFlag;
namespace {
constexpr unsigned NN = 3;

// reference model: live flag per node, multiset of edges (src, dst, data)
struct Ref {
  bool live[NN];
  unsigned ne;
  unsigned src[8], dst[8];
  int data[8];
};

template <typename G>
unsigned index_of(typename G::GraphNode* node, typename G::GraphNode n) {
  for (unsigned k = 0; k < NN; ++k)
    if (node[k] && node[k] == n) return k;
  return NN;
}

// directed flavour: walk and compare
template <typename G>
void check_walk(G& g, typename G::GraphNode* node, const Ref& r) {
  // node iteration: each live node exactly once, no dead node
  unsigned seen[NN] = {0, 0, 0};
  unsigned cnt = 0;
  for (auto it = g.begin(), e = g.end(); it != e; ++it) {
    VF_CHECKM(cnt < NN, "node iteration yields more nodes than exist");
    if (cnt >= NN) return;
    unsigned k = index_of<G>(node, *it);
    VF_CHECKM(k < NN, "node iteration yields an unknown node");
    if (k < NN) ++seen[k];
    ++cnt;
  }
  for (unsigned k = 0; k < NN; ++k) {
    VF_CHECKM(seen[k] == (r.live[k] ? 1u : 0u), "node iteration: live node missing / twice, or removed node present");
    if (node[k]) VF_CHECK(g.containsNode(node[k], MethodFlag::UNPROTECTED) == r.live[k]);
  }
  // edge iteration per live node against the model's visible edges (both endpoints live)
  for (unsigned k = 0; k < NN; ++k) {
    if (!r.live[k]) continue;
    unsigned got = 0;
    unsigned gd[8];
    int gw[8];
    for (auto e = g.edge_begin(node[k], MethodFlag::UNPROTECTED), ee = g.edge_end(node[k], MethodFlag::UNPROTECTED); e != ee; ++e) {
      VF_CHECKM(got < 8, "edge iteration does not terminate within the model's capacity");
      if (got >= 8) return;
      unsigned d = index_of<G>(node, g.getEdgeDst(e));
      VF_CHECKM(d < NN, "edge points to an unknown node");
      if (d >= NN) return;
      VF_CHECKM(r.live[d], "edge points to a removed node");
      gd[got] = d;
      gw[got] = g.getEdgeData(e);
      ++got;
    }
    unsigned want = 0;
    for (unsigned x = 0; x < r.ne; ++x)
      if (r.src[x] == k && r.live[r.dst[x]]) ++want;
    VF_CHECKM(got == want, "number of out-edges differs from the reference model");
    for (unsigned x = 0; x < r.ne; ++x) {
      if (r.src[x] != k || !r.live[r.dst[x]]) continue;
      unsigned a = 0, b = 0;
      for (unsigned y = 0; y < r.ne; ++y)
        if (r.src[y] == k && r.dst[y] == r.dst[x] && r.data[y] == r.data[x]) ++a;
      for (unsigned y = 0; y < got; ++y)
        if (gd[y] == r.dst[x] && gw[y] == r.data[x]) ++b;
      VF_CHECKM(a == b, "out-edges are not the reference multiset (edge missing, duplicated or with another edge's data)");
    }
  }
}

inline void ref_remove_at(Ref& r, unsigned x) {
  for (unsigned y = x; y + 1 < r.ne; ++y) {
    r.src[y] = r.src[y + 1];
    r.dst[y] = r.dst[y + 1];
    r.data[y] = r.data[y + 1];
  }
  --r.ne;
}

template <typename G, unsigned STEPS>
void run_directed() {
  G& g = *new G;
  typename G::GraphNode node[NN];
  Ref r;
  r.ne = 0;
  bool created[NN] = {true, true, false};
  node[2] = nullptr;
  r.live[2] = false;
  for (unsigned k = 0; k < 2; ++k) {
    node[k] = g.createNode((int)k);
    g.addNode(node[k], MethodFlag::UNPROTECTED);
    r.live[k] = true;
  }
  check_walk(g, node, r);
  for (unsigned step = 0; step < STEPS; ++step) {
    unsigned op = vf_param(step);
    // operands: a alternates between nodes 0 and 1; b is the third node once it exists, else the other one;
    // the last step's addMultiEdge is a self loop
    unsigned a = step & 1, b = r.live[2] ? 2 : 1 - a;
    if (step == 2 && op == 1) b = a;
    int v = (int)vf_nondet_u32();
    switch (op) {
    case 0: { // addEdge with duplicate check, then assign data
      vf_assume(r.live[a] && r.live[b]);
      auto e = g.addEdge(node[a], node[b], MethodFlag::UNPROTECTED);
      g.getEdgeData(e) = v;
      bool found = false;
      for (unsigned x = 0; x < r.ne && !found; ++x)
        if (r.src[x] == a && r.dst[x] == b) {
          // which of several parallel edges is returned is unspecified: allowed only if there is exactly one
          unsigned c = 0;
          for (unsigned y = 0; y < r.ne; ++y)
            if (r.src[y] == a && r.dst[y] == b) ++c;
          vf_assume(c == 1);
          r.data[x] = v;
          found = true;
        }
      if (!found) {
        r.src[r.ne] = a; r.dst[r.ne] = b; r.data[r.ne] = v; ++r.ne;
      }
      break;
    }
    case 1: { // addMultiEdge
      vf_assume(r.live[a] && r.live[b]);
      g.addMultiEdge(node[a], node[b], MethodFlag::UNPROTECTED, v);
      r.src[r.ne] = a; r.dst[r.ne] = b; r.data[r.ne] = v; ++r.ne;
      break;
    }
    case 2: { // removeEdge: the first visible out-edge of a
      vf_assume(r.live[a]);
      auto e = g.edge_begin(node[a], MethodFlag::UNPROTECTED);
      vf_assume(e != g.edge_end(node[a], MethodFlag::UNPROTECTED));
      unsigned d = index_of<G>(node, g.getEdgeDst(e));
      int w = g.getEdgeData(e);
      g.removeEdge(node[a], e, MethodFlag::UNPROTECTED);
      bool done = false;
      for (unsigned x = 0; x < r.ne && !done; ++x)
        if (r.src[x] == a && r.dst[x] == d && r.data[x] == w) {
          ref_remove_at(r, x);
          done = true;
        }
      VF_CHECKM(done, "edge_begin yields an edge that is not in the reference model");
      break;
    }
    case 3: { // removeNode: its own edges vanish; edges into it become invisible
      vf_assume(r.live[a]);
      g.removeNode(node[a], MethodFlag::UNPROTECTED);
      r.live[a] = false;
      for (unsigned x = r.ne; x > 0; --x)
        if (r.src[x - 1] == a || r.dst[x - 1] == a) ref_remove_at(r, x - 1);
      break;
    }
    case 4: { // createNode + addNode: the third node
      vf_assume(!created[2]);
      node[2] = g.createNode(2);
      created[2] = true;
      VF_CHECKM(!g.containsNode(node[2], MethodFlag::UNPROTECTED), "a created node is not in the graph before addNode");
      check_walk(g, node, r);
      g.addNode(node[2], MethodFlag::UNPROTECTED);
      r.live[2] = true;
      break;
    }
    case 5: { // data update through the first out-edge of a
      vf_assume(r.live[a]);
      auto e = g.edge_begin(node[a], MethodFlag::UNPROTECTED);
      vf_assume(e != g.edge_end(node[a], MethodFlag::UNPROTECTED));
      unsigned d = index_of<G>(node, g.getEdgeDst(e));
      int w = g.getEdgeData(e);
      g.getEdgeData(e) = v;
      bool done = false;
      for (unsigned x = 0; x < r.ne && !done; ++x)
        if (r.src[x] == a && r.dst[x] == d && r.data[x] == w) {
          r.data[x] = v;
          done = true;
        }
      VF_CHECKM(done, "edge_begin yields an edge that is not in the reference model");
      break;
    }
    }
    check_walk(g, node, r);
  }
}
} // namespace

typedef galois::graphs::MorphGraph<int, int, true> GraphD;
OB(morph_dir) { run_directed<GraphD, 3>(); }
OB(morph_dir1) { run_directed<GraphD, 1>(); }
