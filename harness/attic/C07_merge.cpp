// UNIT: id=C07 cxxflags="-DGALOIS_FORCE_STANDALONE -DVF_PTS_BYTES=2048"
// ASSUME: fragment: NewWorkManager<Options>::merge (no id function: new work is ordered by (parent id, creation count)) over the real per-thread newItems vectors; the per-thread lists are filled by hand in sorted order (what std::sort in parallelSort leaves) from the modelled threads' contexts; thread 0 then calls merge(0, numActive) as parallelSort does between its two barriers
// ASSUME: environment C01_env.h (fake ThreadPool object with 3 threads on one socket, real PerThreadStorage.cpp / SimpleLock.cpp / Barrier_Counting.cpp, runtime::getBarrier = one real CountingBarrier that is never waited on here); SystemHeap constructor/destructor and the page pool are harness stubs (2 MB zeroed blocks); GALOIS_FORCE_STANDALONE routes FixedSizeAllocator to malloc; PtrLock is the two-field model C01_ptrlock_model.h
// ASSUME: GALOIS_DIE / GALOIS_ASSERT keep the fatal exit and drop the iostream text
// OB: ob_merge_T3 tier=attic solver=cadical unwind=9 unwindfn=_M_default_append:34 timeout=600 cbmc="--max-field-sensitivity-array-size 2100" params=3,3,3 bounds="3 active threads, per-thread new-work lists of 0..2 items each (27 size combinations, one query each), items (parent id < 8, count < 4) symbolic, pairwise distinct, each list sorted" desc="after merge(0,3) the concatenation of the per-thread lists in thread order is the sorted sequence of all new items (so the ids handed out next depend only on (parent, count), not on which thread created an item or on the number of threads) and every item is still there exactly once with its value"
#include "C01_env.h"
#undef GALOIS_ASSERT
#define GALOIS_ASSERT(cond, ...) \
  do {                           \
    if (!(cond)) abort();        \
  } while (0)
#include "galois/runtime/Executor_Deterministic.h"
#include "vf_standalone.h"
#include "../src/Context.cpp"

// Mem.cpp / PagePool.cpp cut
galois::runtime::SystemHeap::SystemHeap() {}
galois::runtime::SystemHeap::~SystemHeap() {}
void* galois::runtime::pagePoolAlloc() { return std::calloc(1, 2 * 1024 * 1024); }
void galois::runtime::pagePoolFree(void* p) { std::free(p); }
size_t galois::runtime::pagePoolSize() { return 2 * 1024 * 1024; }

using namespace galois::runtime;
namespace {
struct Opts {
  typedef int value_type;
  typedef std::tuple<> args_type;
  static const bool hasId                = false;
  static const bool hasFixedNeighborhood = false;
  static const bool useLocalState        = false;
  static const int ChunkSize             = 2;
  static const unsigned MinDelta         = 0;
  args_type args;
};
typedef internal::NewWorkManager<Opts> NWM;
typedef internal::DNewItem<int> NewItem;
} // namespace

OB(merge_T3) {
  vfenv::init(3);
  galois::runtime::activeThreads = 3;
  Opts o;
  NWM& m = *new NWM(o);
  unsigned cnt[3] = {vf_param(0), vf_param(1), vf_param(2)};
  unsigned long par[6];
  unsigned ct[6];
  int val[6];
  unsigned n = 0;
  for (unsigned t = 0; t < 3; ++t) {
    vfenv::enter(t);
    auto& local = *m.data.getLocal();
    for (unsigned k = 0; k < cnt[t]; ++k, ++n) {
      par[n] = vf_nondet_u8();
      ct[n]  = vf_nondet_u8();
      val[n] = (int)vf_nondet_u8();
      vf_assume(par[n] < 8 && ct[n] < 4);
      for (unsigned j = 0; j < n; ++j) vf_assume(par[j] != par[n] || ct[j] != ct[n]);           // distinct keys
      if (k > 0) vf_assume(par[n - 1] < par[n] || (par[n - 1] == par[n] && ct[n - 1] < ct[n])); // each list sorted
      local.newItems.push_back(NewItem(val[n], par[n], ct[n]));
    }
  }
  vfenv::enter(0);
  m.mergeBuf.reserve(n);
  m.merge(0, 3);
  // read the concatenation in thread order
  unsigned long prevp = 0;
  unsigned prevc = 0;
  bool have = false;
  unsigned seen = 0;
  for (unsigned t = 0; t < 3; ++t) {
    auto& items = m.data.getRemote(t)->newItems;
    VF_CHECKM(items.size() == cnt[t], "merge changed the length of a per-thread list");
    for (unsigned k = 0; k < cnt[t] && k < items.size(); ++k) {
      const NewItem& it = items[k];
      if (have) VF_CHECKM(prevp < it.parent || (prevp == it.parent && prevc < it.count), "after merge the per-thread lists, read in thread order, are not sorted by (parent id, count)");
      prevp = it.parent;
      prevc = it.count;
      have  = true;
      bool found = false;
      for (unsigned j = 0; j < n; ++j)
        if (par[j] == it.parent && ct[j] == it.count) {
          found = true;
          VF_CHECKM(val[j] == it.val, "merge separated an item's value from its key");
        }
      VF_CHECKM(found, "merge produced an item that was never created");
      ++seen;
    }
  }
  VF_CHECKM(seen == n, "merge lost or duplicated items");
}
