// UNIT: id=C12 cxxflags="-ffunction-sections -fdata-sections" ldflags="-Wl,--gc-sections"
// ASSUME: files: a one-file in-memory file system (open/write/fstat/close) and mmap as heap blocks of EXACTLY the requested length (anonymous: zero-filled; file-backed: a copy of the file range cut at end-of-file, no page rounding, no zero tail), never failing; munmap frees; in the native validation build the same harness uses the real file /tmp/vfc12.gr
// ASSUME: the per-thread storage behind FileGraph's three byte-read statistics counters (GAccumulator) is a single-thread bump allocator over a static page and getThreadPool() is a one-thread pool built in place (the real PerBackend/ThreadPool are the subjects of C09/C06)
// ASSUME: GALOIS_DIE/GALOIS_SYS_DIE/GALOIS_ASSERT keep their abort() but drop the iostream message formatting; a reached abort() is an assertion failure
// ASSUME: LargeArray's deleter (largeFreer) is munmap; FileGraph::node_degrees is never allocated here
// ASSUME: FileGraph objects are heap-allocated and not destroyed (the std::deque teardown costs 15 s per object in the solver and is not part of the property)
// ASSUME: (this unit) a file mapping is a window into the file image at the requested offset rather than a private block of exactly the requested length (symbolic-size blocks exhaust the solver); reads past end-of-file are still out of bounds, and 'each section lies inside its own mapping' is asserted explicitly from FileGraph::mappings
// ASSUME: std::deque map reallocation (never needed for < 256 mappings) is unwound once; reaching it is a BOUND failure
// ASSUME: partFromFile is called the way its callers do: node range [nb,ne) with the edge range starting at the first edge of node nb and ending at or before the last edge of node ne-1 (divideByNode: exactly the nodes' edges; divideByEdge: possibly cut at the top)
// ASSUME: the node range and the edge range (nb,ne,eb,ee) are enumerated as separate solver queries so that every mapping length is concrete; the symbolic out-index is constrained to agree with them
// OB: ob_partial_v1 tier=thorough mem_gb=14 unwind=8 unwindset=g__ZN6galois6graphs9FileGraph10fromArraysEPmmPvmPcmmmbi.3:26,g__ZN6galois6graphs9FileGraph10fromArraysEPmmPvmPcmmmbi.12:26,g__ZNSt5dequeIN6galois6graphs9FileGraph7mappingESaIS3_EE17_M_reallocate_mapEmb.0:1,g__ZNSt5dequeIiSaIiEE17_M_reallocate_mapEmb.0:1,g__ZNSt5dequeIN6galois6graphs9FileGraph7mappingESaIS3_EE17_M_reallocate_mapEmb.1:1,g__ZNSt5dequeIiSaIiEE17_M_reallocate_mapEmb.1:1,g__ZNSt5dequeIN6galois6graphs9FileGraph7mappingESaIS3_EE17_M_reallocate_mapEmb.2:1,g__ZNSt5dequeIiSaIiEE17_M_reallocate_mapEmb.2:1,g__ZNSt5dequeIN6galois6graphs9FileGraph7mappingESaIS3_EE17_M_reallocate_mapEmb.3:1,g__ZNSt5dequeIiSaIiEE17_M_reallocate_mapEmb.3:1,g__ZNSt5dequeIN6galois6graphs9FileGraph7mappingESaIS3_EE17_M_reallocate_mapEmb.4:1,g__ZNSt5dequeIiSaIiEE17_M_reallocate_mapEmb.4:1,g__ZNSt5dequeIN6galois6graphs9FileGraph7mappingESaIS3_EE17_M_reallocate_mapEmb.5:1,g__ZNSt5dequeIiSaIiEE17_M_reallocate_mapEmb.5:1,g__ZNSt5dequeIN6galois6graphs9FileGraph7mappingESaIS3_EE17_M_reallocate_mapEmb.6:1,g__ZNSt5dequeIiSaIiEE17_M_reallocate_mapEmb.6:1,g__ZNSt5dequeIN6galois6graphs9FileGraph7mappingESaIS3_EE17_M_reallocate_mapEmb.7:1,g__ZNSt5dequeIiSaIiEE17_M_reallocate_mapEmb.7:1,g__ZNSt5dequeIN6galois6graphs9FileGraph7mappingESaIS3_EE17_M_reallocate_mapEmb.8:1,g__ZNSt5dequeIiSaIiEE17_M_reallocate_mapEmb.8:1,g__ZNSt5dequeIN6galois6graphs9FileGraph7mappingESaIS3_EE17_M_reallocate_mapEmb.9:1,g__ZNSt5dequeIiSaIiEE17_M_reallocate_mapEmb.9:1,g__ZNSt5dequeIN6galois6graphs9FileGraph7mappingESaIS3_EE17_M_reallocate_mapEmb.10:1,g__ZNSt5dequeIiSaIiEE17_M_reallocate_mapEmb.10:1 timeout=900 params=24,3 bounds="version 1 file of 2 nodes and 3 edges (odd: padded), edge data 0/4/8 bytes; partFromFile at every consistent (node range, edge range) = 24 tuples (72 queries); out-index, destinations, data symbolic" desc="a sub-range read maps exactly the right slices: sizes, global node ids, per-node local edge ranges (clamped at the cut), destinations and data equal the whole graph's; no mapping is read past its end or past the end of the file"
// OB: ob_partial_v2_even tier=thorough mem_gb=14 unwind=8 unwindset=g__ZN6galois6graphs9FileGraph10fromArraysEPmmPvmPcmmmbi.3:26,g__ZN6galois6graphs9FileGraph10fromArraysEPmmPvmPcmmmbi.12:26,g__ZNSt5dequeIN6galois6graphs9FileGraph7mappingESaIS3_EE17_M_reallocate_mapEmb.0:1,g__ZNSt5dequeIiSaIiEE17_M_reallocate_mapEmb.0:1,g__ZNSt5dequeIN6galois6graphs9FileGraph7mappingESaIS3_EE17_M_reallocate_mapEmb.1:1,g__ZNSt5dequeIiSaIiEE17_M_reallocate_mapEmb.1:1,g__ZNSt5dequeIN6galois6graphs9FileGraph7mappingESaIS3_EE17_M_reallocate_mapEmb.2:1,g__ZNSt5dequeIiSaIiEE17_M_reallocate_mapEmb.2:1,g__ZNSt5dequeIN6galois6graphs9FileGraph7mappingESaIS3_EE17_M_reallocate_mapEmb.3:1,g__ZNSt5dequeIiSaIiEE17_M_reallocate_mapEmb.3:1,g__ZNSt5dequeIN6galois6graphs9FileGraph7mappingESaIS3_EE17_M_reallocate_mapEmb.4:1,g__ZNSt5dequeIiSaIiEE17_M_reallocate_mapEmb.4:1,g__ZNSt5dequeIN6galois6graphs9FileGraph7mappingESaIS3_EE17_M_reallocate_mapEmb.5:1,g__ZNSt5dequeIiSaIiEE17_M_reallocate_mapEmb.5:1,g__ZNSt5dequeIN6galois6graphs9FileGraph7mappingESaIS3_EE17_M_reallocate_mapEmb.6:1,g__ZNSt5dequeIiSaIiEE17_M_reallocate_mapEmb.6:1,g__ZNSt5dequeIN6galois6graphs9FileGraph7mappingESaIS3_EE17_M_reallocate_mapEmb.7:1,g__ZNSt5dequeIiSaIiEE17_M_reallocate_mapEmb.7:1,g__ZNSt5dequeIN6galois6graphs9FileGraph7mappingESaIS3_EE17_M_reallocate_mapEmb.8:1,g__ZNSt5dequeIiSaIiEE17_M_reallocate_mapEmb.8:1,g__ZNSt5dequeIN6galois6graphs9FileGraph7mappingESaIS3_EE17_M_reallocate_mapEmb.9:1,g__ZNSt5dequeIiSaIiEE17_M_reallocate_mapEmb.9:1,g__ZNSt5dequeIN6galois6graphs9FileGraph7mappingESaIS3_EE17_M_reallocate_mapEmb.10:1,g__ZNSt5dequeIiSaIiEE17_M_reallocate_mapEmb.10:1 timeout=900 params=17,2 bounds="version 2 file, 2 nodes, 2 edges, edge data 4/8 bytes, all 17 consistent (node range, edge range) tuples" desc="same statement, version 2, even edge count"
// OB: ob_partial_v2_odd tier=thorough mem_gb=14 unwind=8 unwindset=g__ZN6galois6graphs9FileGraph10fromArraysEPmmPvmPcmmmbi.3:26,g__ZN6galois6graphs9FileGraph10fromArraysEPmmPvmPcmmmbi.12:26,g__ZNSt5dequeIN6galois6graphs9FileGraph7mappingESaIS3_EE17_M_reallocate_mapEmb.0:1,g__ZNSt5dequeIiSaIiEE17_M_reallocate_mapEmb.0:1,g__ZNSt5dequeIN6galois6graphs9FileGraph7mappingESaIS3_EE17_M_reallocate_mapEmb.1:1,g__ZNSt5dequeIiSaIiEE17_M_reallocate_mapEmb.1:1,g__ZNSt5dequeIN6galois6graphs9FileGraph7mappingESaIS3_EE17_M_reallocate_mapEmb.2:1,g__ZNSt5dequeIiSaIiEE17_M_reallocate_mapEmb.2:1,g__ZNSt5dequeIN6galois6graphs9FileGraph7mappingESaIS3_EE17_M_reallocate_mapEmb.3:1,g__ZNSt5dequeIiSaIiEE17_M_reallocate_mapEmb.3:1,g__ZNSt5dequeIN6galois6graphs9FileGraph7mappingESaIS3_EE17_M_reallocate_mapEmb.4:1,g__ZNSt5dequeIiSaIiEE17_M_reallocate_mapEmb.4:1,g__ZNSt5dequeIN6galois6graphs9FileGraph7mappingESaIS3_EE17_M_reallocate_mapEmb.5:1,g__ZNSt5dequeIiSaIiEE17_M_reallocate_mapEmb.5:1,g__ZNSt5dequeIN6galois6graphs9FileGraph7mappingESaIS3_EE17_M_reallocate_mapEmb.6:1,g__ZNSt5dequeIiSaIiEE17_M_reallocate_mapEmb.6:1,g__ZNSt5dequeIN6galois6graphs9FileGraph7mappingESaIS3_EE17_M_reallocate_mapEmb.7:1,g__ZNSt5dequeIiSaIiEE17_M_reallocate_mapEmb.7:1,g__ZNSt5dequeIN6galois6graphs9FileGraph7mappingESaIS3_EE17_M_reallocate_mapEmb.8:1,g__ZNSt5dequeIiSaIiEE17_M_reallocate_mapEmb.8:1,g__ZNSt5dequeIN6galois6graphs9FileGraph7mappingESaIS3_EE17_M_reallocate_mapEmb.9:1,g__ZNSt5dequeIiSaIiEE17_M_reallocate_mapEmb.9:1,g__ZNSt5dequeIN6galois6graphs9FileGraph7mappingESaIS3_EE17_M_reallocate_mapEmb.10:1,g__ZNSt5dequeIiSaIiEE17_M_reallocate_mapEmb.10:1 timeout=900 params=24 bounds="version 2 file, 2 nodes, 3 edges, 4-byte edge data, all 24 tuples" desc="same statement, version 2, odd edge count (the file is produced by fromArrays, whose padded layout partFromFile does not share)"
#include "C12_common.h"


static void partial(unsigned p, unsigned e, unsigned se, unsigned ver) {
  const unsigned n = 2;
  const Tab& tab = e == 3 ? TAB3 : TAB2;
  VF_CHECKM(p < tab.n, "parameter table");
  if (p >= tab.n) return;
  Tup t = tab.t[p];
  unsigned nb = t.nb, ne = t.ne;
  uint64_t eb = t.eb, ee = t.ee;
  Model m;
  make_model(m, n, e, se, ver);
  vf_assume((nb ? m.idx[nb - 1] : 0) == eb);             // the edge range starts at node nb's first edge
  vf_assume(ee <= (ne > nb ? m.idx[ne - 1] : eb));       // and stops at or before node ne-1's last edge
  FileGraph& g = *new FileGraph; // never destroyed: see ASSUME
  build_from_arrays(g, m, vf_nondet_bool());
  size_t len = galois::graphs::rawBlockSize(n, e, se, ver);
  // (that the block built by fromArrays has this length and holds the graph is ob_arrays_*)
  int fd = ::open(VF_FILE, O_WRONLY | O_CREAT | O_TRUNC, 0644);
  vf_assume(fd != -1);
  vf_assume((size_t)::write(fd, g.mappings[0].ptr, len) == len);
  ::close(fd);

  FileGraph& h = *new FileGraph;
  h.partFromFile(VF_FILE, FileGraph::NodeRange(FileGraph::iterator(nb), FileGraph::iterator(ne)),
                 FileGraph::EdgeRange(FileGraph::edge_iterator(eb), FileGraph::edge_iterator(ee)));
  // every section lies inside its own mapping (mappings: header, out-index, destinations[, edge data])
  VF_CHECKM(h.mappings.size() == (se ? 4u : 3u), "number of mappings");
  {
    size_t dw = ver == 1 ? 4 : 8;
    char* b1  = (char*)h.mappings[1].ptr;
    char* b2  = (char*)h.mappings[2].ptr;
    VF_CHECKM((char*)h.outIdx >= b1 && (char*)h.outIdx + 8 * (ne - nb) <= b1 + h.mappings[1].len, "out-index slice inside its mapping");
    VF_CHECKM((char*)h.outs >= b2 && (char*)h.outs + dw * (ee - eb) <= b2 + h.mappings[2].len, "destination slice inside its mapping");
    if (se) {
      char* b3 = (char*)h.mappings[3].ptr;
      VF_CHECKM(h.edgeData >= b3 && h.edgeData + se * (ee - eb) <= b3 + h.mappings[3].len, "edge-data slice inside its mapping");
    }
  }
  check_sub(h, m, nb, ne, eb, ee);
}
OB(partial_v1) { partial(vf_param(0), 3, SZ[vf_param(1)], 1); }
OB(partial_v2_even) { partial(vf_param(0), 2, SZ[1 + vf_param(1)], 2); }
OB(partial_v2_odd) { partial(vf_param(0), 3, 4, 2); }
