/* External-function models for the C10 unit */
#include "vf_rt.h"
#ifndef VF_C10_STUBS_H
#define VF_C10_STUBS_H
/* std::exception base-class destructor (only on throw paths of boost::container, which are fatal paths here) */
#define VF_HAVE_x__ZNSt9exceptionD2Ev
VF_X void x__ZNSt9exceptionD2Ev(char* t) { }
#endif
