#include "vf_rt.h"
#include "C01_stubs_common.h"
