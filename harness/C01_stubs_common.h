/* External models shared by the C01 / C08 units (included by each <unit>_stubs.h).
 * std::bad_alloc::~bad_alloc: its ADDRESS is passed to __cxa_throw by `throw std::bad_alloc()` in runtime/Mem.h
 * (MallocHeap, reached through FixedSizeAllocator under GALOIS_FORCE_STANDALONE); __cxa_throw is a fatal cut, the
 * destructor is never called.  Guarded: rt/vf_externs.h may provide it. */
#ifndef VF_HAVE_x__ZNSt9bad_allocD1Ev
#define VF_HAVE_x__ZNSt9bad_allocD1Ev
VF_X void x__ZNSt9bad_allocD1Ev(char* self) { }
#endif
