; specification queries for k_block_range_u64(b, e, id, num, &A, &B)   inputs a0=b a1=e a2=id a3=num
(declare-const b Int) (declare-const e Int) (declare-const id Int) (declare-const num Int)
(define-fun A ((i Int)) Int (k_block_range_u64_out0 b e i num))
(define-fun B ((i Int)) Int (k_block_range_u64_out1 b e i num))
(define-fun pre () Bool (and (<= 0 b) (<= b e) (< e 18446744073709551616) (<= 1 num) (< num 4294967296) (<= 0 id) (< id num)
                             (< (+ (- e b) (* 2 num)) 18446744073709551616)))
(assert pre)
(push) (echo "Q witness_pre sat") (assert (and (> num 3) (> (- e b) (* 3 num)) (> id 1))) (check-sat) (pop)
;;SIDE-TEMPLATE
(push) (echo "Q side@I@_id unsat") (assert (not (k_block_range_u64_side@I@ b e id num))) (check-sat) (pop)
(push) (echo "Q side@I@_id1 unsat") (assert (< (+ id 1) num)) (assert (not (k_block_range_u64_side@I@ b e (+ id 1) num))) (check-sat) (pop)
;;END-SIDE-TEMPLATE
(push) (echo "Q inside unsat") (assert (not (and (<= b (A id)) (<= (A id) (B id)) (<= (B id) e)))) (check-sat) (pop)
(push) (echo "Q first_starts_at_b unsat") (assert (= id 0)) (assert (not (= (A id) b))) (check-sat) (pop)
(push) (echo "Q last_ends_at_e unsat") (assert (= id (- num 1))) (assert (not (= (B id) e))) (check-sat) (pop)
(push) (echo "Q adjacent unsat") (assert (< (+ id 1) num)) (assert (not (= (B id) (A (+ id 1))))) (check-sat) (pop)
(push) (echo "Q witness_nonempty_piece sat") (assert (< (A id) (B id))) (assert (> id 0)) (check-sat) (pop)
