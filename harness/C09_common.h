// C09_common.h -- shared by the C09 heap units: small malloc-backed source heap with a ghost table, pre-state builder and the
// post-condition of a bump grant.  Not a unit by itself.
#pragma once
#include "vf.h"
#include "galois/runtime/Mem.h"

namespace {
constexpr unsigned A = 128; // AllocSize of the small source heap

// ghost table of blocks handed out by the source heap
constexpr unsigned MAXB = 4;
char* g_blk[MAXB];
int g_state[MAXB]; // 0 unused, 1 live, 2 returned
unsigned g_nblk;
unsigned g_allocs, g_frees;

template <unsigned AS>
struct SrcT {
  enum { AllocSize = AS };
  void* allocate(size_t n) {
    VF_CHECKM(n == AllocSize, "source heap is asked for exactly AllocSize bytes");
    char* p = (char*)malloc(AllocSize);
    vf_assume(g_nblk < MAXB);
    g_blk[g_nblk]   = p;
    g_state[g_nblk] = 1;
    ++g_nblk;
    ++g_allocs;
    return p;
  }
  void deallocate(void* p) {
    bool found = false;
    for (unsigned i = 0; i < MAXB; ++i) {
      if (i < g_nblk && g_blk[i] == (char*)p) {
        VF_CHECKM(g_state[i] == 1, "source block returned twice");
        g_state[i] = 2;
        found      = true;
      }
    }
    VF_CHECKM(found, "deallocate of a pointer the source heap never handed out");
    ++g_frees;
    free(p);
  }
};

using SmallSrc = SrcT<A>;

inline uint64_t round8(uint64_t s) { return (s + 7) & ~(uint64_t)7; }
inline uint64_t U(const void* p) { return (uint64_t)(uintptr_t)p; }
inline bool disjoint(const void* p, uint64_t n, const void* q, uint64_t m) { return U(p) + n <= U(q) || U(q) + m <= U(p); }

using Bump     = galois::runtime::BumpHeap<SmallSrc>;
using BumpM    = galois::runtime::BumpWithMallocHeap<SmallSrc>;

// arbitrary valid pre-state; returns the previous offset (0 if empty)
template <typename H, unsigned AS = A>
unsigned make_prestate(H& h, bool empty, unsigned off) {
  if (empty) return 0; // constructor state: head==0, offset==0
  vf_assume(off >= 8 && off <= AS && off % 8 == 0);
  void* b      = static_cast<SrcT<AS>&>(h).allocate(AS);
  h.head       = (decltype(h.head))b;
  h.head->next = nullptr;
  h.offset     = (int)off;
  return off;
}

// common post-condition of a bump grant [p, p+granted) out of heap h whose pre-state was (prevBlk, prevOff)
template <typename H, unsigned AS = A>
void check_bump_grant(H& h, char* p, uint64_t granted, uint64_t consumed, char* prevBlk, unsigned prevOff) {
  VF_CHECKM(p != nullptr, "result is non-null");
  VF_CHECKM((U(p) & 7) == 0, "result is 8-aligned");
  char* blk = (char*)h.head;
  VF_CHECKM(blk != nullptr, "heap has a current block after allocate");
  VF_CHECKM(U(p) >= U(blk) + 8 && U(p) + granted <= U(blk) + AS, "grant lies inside the current block behind the block header");
  if (blk == prevBlk) {
    VF_CHECKM(U(p) >= U(blk) + prevOff, "grant lies beyond the previous offset (disjoint from everything handed out before)");
  } else {
    VF_CHECKM((char*)h.head->next == prevBlk, "a refill keeps the previous block chained");
    VF_CHECKM(g_nblk >= 1 && g_blk[g_nblk - 1] == blk && g_state[g_nblk - 1] == 1, "the new current block is a fresh source block");
  }
  VF_CHECKM(h.offset >= 8 && h.offset <= (int)AS && h.offset % 8 == 0, "representation invariant preserved: 8<=offset<=AllocSize, offset%8==0");
  VF_CHECKM(U(p) + consumed == U(blk) + (uint64_t)h.offset, "the new offset is the end of the grant");
}
} // namespace
