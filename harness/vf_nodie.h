// fatal-error macros: the diagnostic text (std::ostringstream formatting) is dropped, the fatal exit is kept
#pragma once
#include <cstdlib>
#include "galois/gIO.h"
#undef GALOIS_DIE
#define GALOIS_DIE(...) abort()
#undef GALOIS_SYS_DIE
#define GALOIS_SYS_DIE(...) abort()
#undef GALOIS_ASSERT
#define GALOIS_ASSERT(cond, ...) do { if (!(cond)) abort(); } while (0)
