// UNIT: opt=-O0 id=C15
// ASSUME: DynamicBitset.h is the real header; its include of galois/Galois.h (the whole parallel runtime) is cut by pre-defining the include guard. The harness supplies galois::iterate / do_all / on_each / getActiveThreads as SEQUENTIAL stand-ins (do_all = a for loop over the range, on_each = the body once per simulated thread id in increasing order); do_all/on_each themselves are C03's subject. count() still uses the real GAccumulator over the real PerThreadStorage (environment of C15_env.h, 1 pool thread)
// ASSUME: num_bits is enumerated (vf_param) because it is an allocation size; begin/end/bit indices and the bit contents are solver variables. Arbitrary contents are written word-wise through get_vec() with the bits above num_bits clear (the invariant set() maintains)
// ASSUME: (cut) getOffsets() is not examined: it returns a std::vector whose size is the symbolic bit count (allocation of symbolic size); bitwise_or/and/xor are one-line word loops over do_all and are not examined
// ASSUME: sequential obligations only; concurrent set/reset on one word is a separate unit
// ASSUME: this unit is the same code translated from UNOPTIMISED IR (clang -O0): source-level undefined behaviour such as a shift by 64 is still a poison value (arbitrary) here, whereas the optimiser may refine it into something benign (seeded change C15-2 was invisible at -O1 for exactly that reason)
// OB: ob_bits_reset_range_O0 tier=quick solver=cadical unwind=8 timeout=300 params=12 bounds="as ob_bits_reset_range, unoptimised IR" desc="reset(begin,end) clears exactly the bits begin..end, with over-wide shifts modelled as arbitrary values"
#define VF_BITSET_O0_ONLY
#include "C15_bitset.cpp"
OB(bits_reset_range_O0) { reset_range(SIZES12[vf_param(0)]); }
