// UNIT: id=C09
// ASSUME: the source heap below BumpHeap/BumpWithMallocHeap/BlockHeap/FreeListHeap is a harness-defined SmallSrc (AllocSize=128 bytes, malloc-backed, ghost table of handed-out blocks) instead of the 2MB SystemHeap, so that the offset arithmetic is exercised at small scale; the heap templates themselves are the real ones from runtime/Mem.h
// ASSUME: pre-states of the one-step contracts are built directly in the private members (head/offset/headIndex) and range over the whole representation invariant: empty (head==0, offset==0) or a current block with 8<=offset<=AllocSize, offset%8==0 (BlockHeap: 0<=headIndex<=TotalFit)
// ASSUME: request sizes of the 1-argument allocate are restricted to those that fit a fresh block (size <= AllocSize-8): larger ones reach the documented std::abort(), which the native validation build cannot survive
// ASSUME: malloc never fails; for the malloc fallback of BumpWithMallocHeap 'granted >= size' is checked as CBMC bounds check of writing the first and last requested byte
// ASSUME: (cut) the same contracts over a 2 MB source block (the real SystemHeap::AllocSize) were tried and dropped: CBMC flattens the 2 MB block and exceeds 5 GB; the code is identical up to the AllocSize constant
// ASSUME: (cut) OwnerTaggedHeap cannot be instantiated at all (its allocate() calls the non-static AddHeader<OwnerTaggedHeap*,Src>::allocate, which is not a base class: compile error) and is used nowhere in the repository; AddHeader itself is covered by ob_addheader_step
// ASSUME: SelfLockFreeListHeap is exercised by one thread only (its static SimpleLock is always free; the CAS never fails)
// OB: ob_bump1_step tier=quick unwind=6 timeout=300 bounds="BumpHeap<SmallSrc>::allocate(size): any valid pre-state (empty, or offset in {8,16,..,128}), size symbolic 1..120" desc="result non-null, 8-aligned, [p,p+size) inside the current block and at/after the previous offset, new offset = end of the grant (8-aligned, <= AllocSize), old block stays chained, no abort"
// OB: ob_bump1_two tier=quick unwind=6 timeout=300 bounds="BumpHeap<SmallSrc>: any valid pre-state, two allocate(size) calls with symbolic sizes 1..120" desc="two consecutive grants are disjoint, both writable over their full requested length"
// OB: ob_bump2_step_room tier=quick unwind=6 timeout=300 bounds="BumpHeap<SmallSrc>::allocate(size, allocated&): current block with 8<=offset<AllocSize (room left), size symbolic 1..2^32" desc="result non-null, 8-aligned, 0<allocated<=size, [p,p+allocated) inside the current block beyond the previous offset, invariant preserved"
// OB: ob_bump2_step_full tier=quick unwind=6 timeout=300 bounds="BumpHeap<SmallSrc>::allocate(size, allocated&): current block exactly full (offset==AllocSize), size symbolic 1..2^32" desc="after the refill the grant lies inside the new block: [p,p+allocated) within [blk+8, blk+AllocSize), offset<=AllocSize"
// OB: ob_bump2_step_empty tier=quick unwind=6 timeout=300 bounds="BumpHeap<SmallSrc>::allocate(size, allocated&): empty heap (head==0, offset==0), size symbolic 1..2^32" desc="first allocation of a fresh heap returns a non-null block inside a freshly acquired source block"
// OB: ob_bumpmalloc_step tier=quick unwind=6 timeout=300 bounds="BumpWithMallocHeap<SmallSrc>::allocate(size): any valid pre-state, size symbolic 1..400 (bump path <=120, malloc fallback above)" desc="bump path as BumpHeap; fallback block non-null, 8-aligned, writable over the requested length, chained for clear(); bump state untouched by the fallback"
// OB: ob_bumpmalloc_clear tier=quick unwind=6 timeout=300 params=3,3,3 bounds="BumpWithMallocHeap<SmallSrc>: 3 allocations, each of kind small(1..56)/medium(57..120)/fallback(121..300) by vf_param, sizes symbolic within the kind; then clear()" desc="all grants pairwise disjoint and still intact (canaries) before clear(); clear() returns every source block exactly once (ghost table, CBMC double-free check), heap empty afterwards and reusable"
// OB: ob_block_step tier=quick unwind=6 timeout=300 params=5 bounds="BlockHeap<E,SmallSrc>, E in {8,24,40,20,1} (one query each): any valid pre-state (empty, or 0<=headIndex<=TotalFit)" desc="sizeof(Block)<=AllocSize, result inside the current block at slot index >= previous headIndex, slot+ElemSize inside block, headIndex<=TotalFit, next allocation is >= round8(ElemSize) bytes away"
// OB: ob_freelist_hist tier=quick unwind=20 timeout=300 params=2,2,2,2 bounds="FreeListHeap<BumpHeap<SmallSrc>> with 40-byte objects (3 per 128-byte block): every history of 4 operations alloc/free (kinds by vf_param, the freed live block chosen symbolically)" desc="an allocation never returns or overlaps a block that is still live; with a non-empty free list the most recently freed block is reused; payload canaries of live blocks survive"
// OB: ob_addheader_step tier=quick unwind=14 timeout=300 params=3 bounds="AddHeader<Header, recording BumpHeap<SmallSrc>>, sizeof(Header) in {4,8,12} (one query each): any valid bump pre-state, payload size symbolic 1..96" desc="the source is asked for size+round8(sizeof(Header)) bytes; payload = source block + header offset, 8-aligned, [p,p+size) inside the source grant and disjoint from the header; getHeader(p) is the source block; deallocate hands the source block (not the payload pointer) back"
// OB: ob_selflock_hist tier=quick unwind=20 timeout=300 params=2,2,2,2 bounds="SelfLockFreeListHeap<BumpHeap<SmallSrc>> (CAS-based free list, static SimpleLock), single thread: same 4-operation histories as ob_freelist_hist" desc="sequential contract of the self-locking free list: never returns a live block, reuses the most recently freed block, live payloads survive (the 2-thread variant is a thorough-tier design item, not encoded)"
#include "C09_common.h"
// SelfLockFreeListHeap::allocate takes a SimpleLock whose slow path lives in SimpleLock.cpp (resolved through -I<repo>/libgalois/include)
#include "../src/SimpleLock.cpp"


OB(bump1_step) {
  Bump h;
  bool empty    = vf_nondet_bool();
  unsigned off  = 8u * vf_nondet_u8();
  uint64_t size = vf_nondet_u64();
  vf_assume(size >= 1 && size <= A - 8);
  unsigned prevOff = make_prestate(h, empty, off);
  char* prevBlk    = (char*)h.head;
  char* p          = (char*)h.allocate(size);
  check_bump_grant(h, p, size, round8(size), prevBlk, prevOff);
  p[0]        = 1;
  p[size - 1] = 2;
  if ((char*)h.head == prevBlk) VF_CHECKM(g_allocs == (empty ? 0u : 1u), "no refill when the request fits the current block");
  VF_CHECKM((char*)h.head == prevBlk || prevOff + round8(size) > A || empty, "refill only when the request does not fit");
}

OB(bump1_two) {
  Bump h;
  bool empty   = vf_nondet_bool();
  unsigned off = 8u * vf_nondet_u8();
  uint64_t s1 = vf_nondet_u64(), s2 = vf_nondet_u64();
  vf_assume(s1 >= 1 && s1 <= A - 8 && s2 >= 1 && s2 <= A - 8);
  make_prestate(h, empty, off);
  char* p1 = (char*)h.allocate(s1);
  p1[0] = 11; p1[s1 - 1] = 12;
  char* p2 = (char*)h.allocate(s2);
  p2[0] = 21; p2[s2 - 1] = 22;
  VF_CHECKM(p1 && p2 && disjoint(p1, s1, p2, s2), "consecutive grants are disjoint");
  VF_CHECKM(p1[0] == (s1 == 1 ? 12 : 11) && p1[s1 - 1] == 12, "first grant keeps its contents after the second allocation");
}

namespace {
void bump2_common(Bump& h, unsigned prevOff) {
  uint64_t size = vf_nondet_u64();
  vf_assume(size >= 1 && size <= ((uint64_t)1 << 32));
  char* prevBlk    = (char*)h.head;
  size_t allocated = ~(size_t)0;
  char* p          = (char*)h.allocate(size, allocated);
  VF_CHECKM(allocated > 0 && allocated <= size, "0 < allocated <= size");
  check_bump_grant(h, p, allocated, round8(allocated), prevBlk, prevOff);
  if (p) {
    p[0]             = 1;
    p[allocated - 1] = 2;
  }
}
} // namespace

OB(bump2_step_room) {
  Bump h;
  unsigned off = 8u * vf_nondet_u8();
  vf_assume(off < A);
  unsigned prevOff = make_prestate(h, false, off);
  bump2_common(h, prevOff);
}

OB(bump2_step_full) {
  Bump h;
  unsigned prevOff = make_prestate(h, false, A);
  bump2_common(h, prevOff);
}

OB(bump2_step_empty) {
  Bump h;
  bump2_common(h, 0);
}

OB(bumpmalloc_step) {
  BumpM h;
  bool empty    = vf_nondet_bool();
  unsigned off  = 8u * vf_nondet_u8();
  uint64_t size = vf_nondet_u64();
  vf_assume(size >= 1 && size <= 400);
  unsigned prevOff = make_prestate(h, empty, off);
  char* prevBlk    = (char*)h.head;
  char* p          = (char*)h.allocate(size);
  VF_CHECKM(p != nullptr, "result is non-null");
  VF_CHECKM((U(p) & 7) == 0, "result is 8-aligned");
  p[0]        = 1;
  p[size - 1] = 2;
  if (round8(size) + 8 <= A) {
    VF_CHECKM(h.fallbackHead == nullptr, "no fallback block for a request that fits a source block");
    check_bump_grant(h, p, size, round8(size), prevBlk, prevOff);
  } else {
    VF_CHECKM((char*)h.head == prevBlk && h.offset == (int)prevOff, "fallback leaves the bump state untouched");
    VF_CHECKM(h.fallbackHead != nullptr && (char*)h.fallbackHead + 8 == p && h.fallbackHead->next == nullptr,
              "fallback block is chained for clear() and the payload starts behind its header");
    VF_CHECKM(g_allocs == (empty ? 0u : 1u), "fallback does not consume a source block");
    if (prevBlk) VF_CHECKM(disjoint(p, size, prevBlk, A), "fallback block is disjoint from the current bump block");
  }
}

OB(bumpmalloc_clear) {
  BumpM h;
  char* p[3];
  uint64_t sz[3];
  for (unsigned i = 0; i < 3; ++i) {
    unsigned kind = vf_param(i);
    uint64_t s    = vf_nondet_u16();
    if (kind == 0) vf_assume(s >= 1 && s <= 56);
    else if (kind == 1) vf_assume(s >= 57 && s <= 120);
    else vf_assume(s >= 121 && s <= 300);
    sz[i] = s;
    p[i]  = (char*)h.allocate(s);
    VF_CHECKM(p[i] != nullptr && (U(p[i]) & 7) == 0, "non-null, 8-aligned");
    p[i][0]     = (char)(10 + i);
    p[i][s - 1] = (char)(20 + i);
  }
  for (unsigned i = 0; i < 3; ++i) {
    for (unsigned j = i + 1; j < 3; ++j) VF_CHECKM(disjoint(p[i], sz[i], p[j], sz[j]), "grants are pairwise disjoint");
    VF_CHECKM(p[i][sz[i] - 1] == (char)(20 + i) && (sz[i] == 1 || p[i][0] == (char)(10 + i)),
              "per-iteration allocations stay valid until clear()");
  }
  unsigned nsrc = g_allocs;
  VF_CHECKM(g_frees == 0, "no source block is returned before clear()");
  h.clear();
  VF_CHECKM(g_frees == nsrc, "clear() returns every source block");
  for (unsigned i = 0; i < MAXB; ++i)
    if (i < g_nblk) VF_CHECKM(g_state[i] == 2, "every source block returned exactly once");
  VF_CHECKM(h.head == nullptr && h.fallbackHead == nullptr, "heap is empty after clear()");
  char* q = (char*)h.allocate(8);
  VF_CHECKM(q != nullptr && (U(q) & 7) == 0 && U(q) == U(h.head) + 8 && h.offset == 16, "heap is reusable after clear(): first grant of a fresh block");
  q[0] = 1; q[7] = 2;
}

namespace {
template <unsigned E>
void block_step() {
  using H = galois::runtime::BlockHeap<E, SmallSrc>;
  constexpr unsigned SLOT = (E + 7) & ~7u;
  static_assert(sizeof(typename H::Block) <= A, "");
  static_assert(8 + (unsigned)H::TotalFit * SLOT <= A, "TotalFit slots fit the block");
  static_assert((unsigned)H::TotalFit >= 1, "");
  H h;
  bool empty   = vf_nondet_bool();
  unsigned idx = vf_nondet_u8();
  char* prevBlk = nullptr;
  if (!empty) {
    vf_assume(idx <= (unsigned)H::TotalFit);
    h.head       = (typename H::Block*)h.SmallSrc::allocate(A);
    h.head->next = nullptr;
    h.headIndex  = (int)idx;
    prevBlk      = (char*)h.head;
  } else
    idx = 0;
  char* p   = (char*)h.allocate(E);
  char* blk = (char*)h.head;
  VF_CHECKM(p != nullptr && (U(p) & 7) == 0, "non-null, 8-aligned");
  VF_CHECKM(blk != nullptr, "heap has a current block");
  VF_CHECKM(U(p) >= U(blk) + 8 && U(p) + E <= U(blk) + A, "element lies inside the current block behind the header");
  uint64_t d = U(p) - (U(blk) + 8);
  VF_CHECKM(d % SLOT == 0 && d / SLOT < (unsigned)H::TotalFit, "element sits on a slot boundary with index < TotalFit");
  VF_CHECKM(h.headIndex >= 1 && h.headIndex <= (int)H::TotalFit, "headIndex <= TotalFit");
  VF_CHECKM(d / SLOT + 1 == (uint64_t)h.headIndex, "headIndex is the slot after the grant");
  if (blk == prevBlk) VF_CHECKM(d / SLOT >= idx, "slot index at/after the previous headIndex (never handed out before)");
  else VF_CHECKM((char*)h.head->next == prevBlk && (empty || idx == (unsigned)H::TotalFit), "refill only when the block is exhausted; old block stays chained");
  p[0] = 1; p[E - 1] = 2;
  char* q = (char*)h.allocate(E);
  VF_CHECKM(q != nullptr && disjoint(p, SLOT, q, SLOT), "consecutive elements are at least round8(ElemSize) apart");
  q[0] = 3; q[E - 1] = 4;
  VF_CHECKM(p[E - 1] == 2, "first element intact");
}
} // namespace

OB(block_step) {
  switch (vf_param(0)) {
  case 0: block_step<8>(); break;
  case 1: block_step<24>(); break;
  case 2: block_step<40>(); break;
  case 3: block_step<20>(); break;
  default: block_step<1>(); break;
  }
}

namespace {
template <typename H>
void freelist_hist() {
  constexpr unsigned S = 40, NOPS = 4;
  H h;
  char* live[NOPS];
  unsigned char tag[NOPS];
  unsigned nlive = 0;
  char* freed[NOPS]; // model of the free list (stack)
  unsigned nfreed = 0;
  for (unsigned i = 0; i < NOPS; ++i) {
    if (vf_param(i) == 0) { // allocate
      char* p = (char*)h.allocate(S);
      VF_CHECKM(p != nullptr && (U(p) & 7) == 0, "non-null, 8-aligned");
      for (unsigned j = 0; j < NOPS; ++j)
        if (j < nlive) VF_CHECKM(disjoint(p, S, live[j], S), "allocation overlaps a block that is still live");
      if (nfreed) {
        VF_CHECKM(p == freed[nfreed - 1], "the most recently freed block is reused");
        --nfreed;
      } else {
        for (unsigned j = 0; j < NOPS; ++j)
          if (j < nfreed) VF_CHECK(p != freed[j]);
      }
      unsigned char t = vf_nondet_u8();
      p[0] = (char)t; p[8] = (char)t; p[S - 1] = (char)t;
      live[nlive] = p;
      tag[nlive]  = t;
      ++nlive;
    } else { // free a symbolically chosen live block
      vf_assume(nlive > 0);
      unsigned k = vf_nondet_u8();
      vf_assume(k < nlive);
      char* p = live[k];
      VF_CHECKM(p[8] == (char)tag[k] && p[S - 1] == (char)tag[k], "payload of a live block is intact when it is freed");
      h.deallocate(p);
      freed[nfreed++] = p;
      for (unsigned j = k; j + 1 < nlive; ++j) { live[j] = live[j + 1]; tag[j] = tag[j + 1]; }
      --nlive;
    }
    for (unsigned j = 0; j < NOPS; ++j)
      if (j < nlive) VF_CHECKM(live[j][8] == (char)tag[j] && live[j][S - 1] == (char)tag[j] && live[j][0] == (char)tag[j], "payload of every live block is intact after each operation");
  }
}
} // namespace

OB(freelist_hist) { freelist_hist<galois::runtime::FreeListHeap<Bump>>(); }
OB(selflock_hist) { freelist_hist<galois::runtime::SelfLockFreeListHeap<Bump>>(); }

namespace {
// variable-size source that records what it was asked for and what it got back
struct RecBump : Bump {
  char* last       = nullptr;
  size_t lastSize  = 0;
  char* lastFreed  = nullptr;
  unsigned nallocs = 0;
  void* allocate(size_t n) {
    last     = (char*)Bump::allocate(n);
    lastSize = n;
    ++nallocs;
    return last;
  }
  void deallocate(void* p) { lastFreed = (char*)p; }
};
template <unsigned HS>
void addheader_step() {
  struct Header { char b[HS]; };
  using H = galois::runtime::AddHeader<Header, RecBump>;
  constexpr unsigned OFF = (HS + 7) & ~7u;
  H h;
  bool empty    = vf_nondet_bool();
  unsigned off  = 8u * vf_nondet_u8();
  uint64_t size = vf_nondet_u64();
  vf_assume(size >= 1 && size <= 96);
  make_prestate(static_cast<Bump&>(h), empty, off); // AddHeader::offset hides BumpHeap::offset
  char* p = (char*)h.allocate(size);
  VF_CHECKM(h.nallocs == 1 && h.lastSize == size + OFF, "source asked once for payload + aligned header");
  VF_CHECKM(p != nullptr && (U(p) & 7) == 0, "payload non-null, 8-aligned");
  VF_CHECKM(U(p) == U(h.last) + OFF, "payload starts behind the aligned header");
  VF_CHECKM(U(p) + size <= U(h.last) + h.lastSize, "payload inside the source grant");
  Header* hd = H::getHeader(p);
  VF_CHECKM((char*)hd == h.last, "getHeader(payload) is the source block");
  VF_CHECKM(disjoint(hd, HS, p, size), "header and payload are disjoint");
  for (unsigned i = 0; i < HS; ++i) hd->b[i] = (char)0x5a;
  p[0]        = 1;
  p[size - 1] = 2;
  VF_CHECKM(hd->b[0] == (char)0x5a && hd->b[HS - 1] == (char)0x5a, "header survives writing the payload");
  h.deallocate(p);
  VF_CHECKM(h.lastFreed == h.last, "deallocate returns the source block, not the payload pointer");
}
} // namespace

OB(addheader_step) {
  switch (vf_param(0)) {
  case 0: addheader_step<4>(); break;
  case 1: addheader_step<8>(); break;
  default: addheader_step<12>(); break;
  }
}
