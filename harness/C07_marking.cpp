// UNIT: id=C07
// ASSUME: fragment: the inspect-phase marking kernel DeterministicContextBase<Options,false,false>::alwaysAcquire over the real Lockable / PtrLock::stealing_CAS; marking operations are atomic here (all ORDERS of marks are covered, interleavings inside one alwaysAcquire are not)
// ASSUME: GALOIS_DIE/GALOIS_ASSERT keep their fatal exit but drop the formatted message
// OB: ob_mark_orders tier=quick unwind=12 timeout=300 params=5,4,3,2 param_limit=12 mem_gb=5 bounds="3 iterations with symbolic distinct ids, 2 lockables, the 5 marks (c0,L0) (c1,L0) (c2,L0) (c1,L1) (c2,L1) each symbolically taken or skipped, applied in 12 of the 120 possible orders (VERIF_SEED; all 120 in the thorough tier)" desc="whatever the order of marks: the owner of every lockable is the smallest-id iteration that marked it, and an iteration is ready iff it has the smallest id on every lockable it marked - the set of iterations that may commit in a round is a function of the ids alone"
// OB: ob_mark_orders_all tier=thorough unwind=12 timeout=300 params=5,4,3,2 bounds="all 120 orders" desc="same, complete"
#include "vf.h"
#include "vf_nodie.h"
#include "galois/runtime/Executor_Deterministic.h"
#include "../src/Context.cpp"
#include "../src/PtrLock.cpp"

using namespace galois::runtime;
namespace {
struct Opts {
  typedef int value_type;
  static const bool useLocalState = false;
};
typedef internal::DeterministicContextBase<Opts, false, false> Ctx;
typedef internal::DItem<Opts> Item;

void run() {
  unsigned long id[3];
  for (unsigned i = 0; i < 3; ++i) {
    id[i] = vf_nondet_u8();
    vf_assume(id[i] < 8);
  }
  vf_assume(id[0] != id[1] && id[0] != id[2] && id[1] != id[2]);
  Ctx c0(Item(0, id[0])), c1(Item(1, id[1])), c2(Item(2, id[2]));
  Ctx* ctx[3] = {&c0, &c1, &c2};
  Lockable L[2];
  // the five possible marks and whether each is taken
  const unsigned MC[5] = {0, 1, 2, 1, 2}, ML[5] = {0, 0, 0, 1, 1};
  bool take[5];
  for (unsigned k = 0; k < 5; ++k) take[k] = vf_nondet_bool();
  // order = permutation given by the Lehmer code (vf_param(0..3), last digit 0)
  unsigned avail[5] = {0, 1, 2, 3, 4}, n = 5;
  bool marked[3][2] = {{false, false}, {false, false}, {false, false}};
  for (unsigned step = 0; step < 5; ++step) {
    unsigned d = step < 4 ? vf_param(step) : 0;
    unsigned k = avail[d];
    for (unsigned j = d; j + 1 < n; ++j) avail[j] = avail[j + 1];
    --n;
    if (!take[k]) continue;
    setThreadContext(ctx[MC[k]]);
    ctx[MC[k]]->Ctx::alwaysAcquire(&L[ML[k]], galois::MethodFlag::WRITE); // what acquire() -> subAcquire() dispatches to in the inspect phase
    marked[MC[k]][ML[k]] = true;
  }
  for (unsigned l = 0; l < 2; ++l) {
    int best = -1;
    for (unsigned c = 0; c < 3; ++c)
      if (marked[c][l] && (best < 0 || id[c] < id[best])) best = (int)c;
    LockManagerBase* o = L[l].owner.getValue();
    VF_CHECKM(o == (best < 0 ? nullptr : (LockManagerBase*)ctx[best]), "the owner of a lockable is the smallest-id iteration that marked it, whatever the order of marks");
  }
  for (unsigned c = 0; c < 3; ++c) {
    bool expect = true;
    for (unsigned l = 0; l < 2; ++l)
      if (marked[c][l])
        for (unsigned d = 0; d < 3; ++d)
          if (d != c && marked[d][l] && id[d] < id[c]) expect = false;
    VF_CHECKM(ctx[c]->isReady() == expect, "an iteration is ready iff it has the smallest id on every lockable it marked (schedule-independent commit set)");
  }
}
} // namespace
OB(mark_orders) { run(); }
OB(mark_orders_all) { run(); }
