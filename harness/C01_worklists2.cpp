// UNIT: id=C01 cxxflags="-DGALOIS_FORCE_STANDALONE -DVF_PTS_BYTES=512"
// ASSUME: environment C01_env.h: getThreadPool() is a fake ThreadPool object whose topology records (tid, socket, socketLeader, cumulativeMaxSocket) are written by hand; the thread-local my_box/ptsBase/pssBase are switched by hand ('running on pool thread t'); REAL PerThreadStorage.cpp / SimpleLock.cpp / Barrier_Counting.cpp; page allocator (C09) = 512-byte calloc blocks; GALOIS_DIE = abort() without the iostream text; runtime::getBarrier(n) returns one real CountingBarrier(n) instead of the topology barrier of BarrierInstance
// ASSUME: substrate::PtrLock<T> is replaced by C01_ptrlock_model.h (pointer and lock flag in two fields, same interface, lock discipline CHECKED): CBMC cannot constant-propagate a pointer through (uintptr_t)p|1 / &~1, the packed word is examined by C06 and by the concurrent hand-off obligations
// ASSUME: GALOIS_FORCE_STANDALONE (the repository's own switch) routes FixedSizeAllocator to malloc; the Galois heaps are C09's subject
// ASSUME: ONE worker thread (pool thread 0 of a 1-thread pool) operates on the worklist; operation KINDS are enumerated as separate solver queries (vf_param); item values are solver variables in 0..3; --max-field-sensitivity-array-size 600 lets CBMC track the 512-byte per-thread blocks per byte
// ASSUME: worklists whose initial work arrives through push_initial (LocalQueue with a global queue, StableIterator, BulkSynchronous, OwnerComputes) get it exactly once, first, as ForEachExecutor::initThread does (kind 4 = push_initial(range of 2), kind 5 = push_initial(empty range))
// ASSUME: BulkSynchronous: no push after a pop that returned empty (its isEmpty flag is sticky by design; with one worker and no abort-retries the executor never pushes after an empty pop; the combination with abort-retries is listed outside the bounds in DESIGN.md section 4 item 14)
// ASSUME: GFIFO/GLIFO (Wrapper over gdeque) have no range push: Wrapper::push(Iter,Iter) calls container.insert(end,b,e), which galois::gdeque does not provide (it does not compile when instantiated), so only push(v)/pop are exercised there
// OB: ob_wl_gfifo tier=quick solver=cadical unwind=32 timeout=120 cbmc="--max-field-sensitivity-array-size 600" params=3,1 bounds="GFIFO<int> and GLIFO<int> (Wrapper over gdeque): 3 kind sequences of 5..6 ops from {push(v), pop}; values symbolic in 0..3" desc="pop returns only pending items, each once; an empty pop means nothing is pending; after draining nothing comes back"
// OB: ob_wl_stdfifo tier=quick solver=cadical unwind=32 timeout=180 cbmc="--max-field-sensitivity-array-size 600" params=3,1 bounds="FIFO<int> and LIFO<int> (Wrapper over std::deque): 3 kind sequences from {push(v), push(range of 2), pop}" desc="work conservation, one worker"
// OB: ob_wl_localqueue tier=quick solver=cadical unwind=32 timeout=120 cbmc="--max-field-sensitivity-array-size 600" params=4,1 bounds="LocalQueue<NoGlobalQueue, GFIFO> (push/pop) and LocalQueue<ChunkFIFO<2>, LIFO<int>> (push_initial into the global queue, then push/range push/pop): 4 kind sequences" desc="work conservation, one worker"
// OB: ob_wl_ownercomputes tier=quick solver=cadical unwind=32 timeout=120 cbmc="--max-field-sensitivity-array-size 600" params=4,1 bounds="OwnerComputes<DummyIndexer, ChunkLIFO<2>>: 4 kind sequences starting with push_initial" desc="work conservation, one worker"
// OB: ob_wl_stableiter tier=quick solver=cadical unwind=32 timeout=120 cbmc="--max-field-sensitivity-array-size 600" params=4,2 bounds="StableIterator<Steal=false|true, PerSocketChunkFIFO<2>, int*>: 4 kind sequences starting with push_initial of 2 or 0 items" desc="work conservation, one worker (initial range consumed in place, pushes go to the inner worklist)"
// OB: ob_wl_bulksync tier=quick solver=cadical unwind=32 timeout=120 cbmc="--max-field-sensitivity-array-size 600" params=5,1 bounds="BulkSynchronous<ChunkFIFO<2>, int, true>, 1 thread, real CountingBarrier(1): 5 kind sequences starting with push_initial of 2 or 0 items" desc="work conservation, one worker"
#include "C01_wl_common.h"
#include "galois/worklists/Chunk.h"
#include "galois/worklists/Simple.h"
#include "galois/worklists/LocalQueue.h"
#include "galois/worklists/OwnerComputes.h"
#include "galois/worklists/StableIterator.h"
#include "galois/worklists/BulkSynchronous.h"
#include "vf_standalone.h"

using namespace galois::worklists;
namespace c01 {
// kinds: 0 push(v), 1 push(range of 2), 2 pop, 4 push_initial(range of 2), 5 push_initial(empty range), 9 end
static const unsigned char SEQ_PP[][SEQLEN] = { // push / pop only
    {0, 0, 2, 0, 2, 2, 9},
    {2, 0, 2, 2, 0, 0, 9},
    {0, 0, 0, 2, 2, 0, 9},
};
static const unsigned char SEQ_I[][SEQLEN] = { // initial range first
    {4, 2, 0, 2, 1, 2, 9},
    {5, 0, 2, 2, 1, 9},
    {4, 1, 2, 2, 2, 0, 9},
    {4, 2, 2, 2, 0, 2, 9},
    {5, 2, 9}, // BulkSynchronous: nothing at all
};

static int initial_items[2];
template <typename WL>
void push_initial(WL& wl, Bag& bag, unsigned n) {
  for (unsigned i = 0; i < n; ++i) {
    initial_items[i] = value();
    bag.add(initial_items[i]);
  }
  Range r{initial_items, initial_items + n};
  wl.push_initial(r);
}

// adaptor with push_initial kinds; NoRange = the worklist has no range push
template <typename WL, bool HasRange = true>
struct OpsI {
  static constexpr bool has_flush = false;
  static void start(WL&, Bag&) {}
  static void push(WL& wl, int v) { wl.push(v); }
  static void push2(WL& wl, int* b, int* e) {
    if constexpr (HasRange)
      wl.push(b, e);
    else {
      wl.push(*b);
      wl.push(*(b + 1));
    }
  }
  static galois::optional<int> pop(WL& wl) { return wl.pop(); }
  static void flush(WL&) {}
};

// BulkSynchronous: no push once a pop has returned empty (sticky isEmpty), see the ASSUME line
template <typename WL>
struct OpsBS : OpsI<WL> {
  static bool done;
  static void push(WL& wl, int v) {
    vf_assume(!done);
    wl.push(v);
  }
  static void push2(WL& wl, int* b, int* e) {
    vf_assume(!done);
    wl.push(b, e);
  }
  static galois::optional<int> pop(WL& wl) {
    galois::optional<int> r = wl.pop();
    if (!r) done = true;
    return r;
  }
};
template <typename WL>
bool OpsBS<WL>::done = false;

template <typename WL, typename O>
void run_table(const unsigned char (*tab)[SEQLEN], unsigned n, unsigned row) {
  configure(0);
  WL wl;
  become_worker(0);
  Bag bag;
  const unsigned char* s = tab[row < n ? row : 0];
  for (unsigned i = 0; i < SEQLEN; ++i) {
    if (s[i] == 9) break;
    if (s[i] == 4)
      push_initial(wl, bag, 2);
    else if (s[i] == 5)
      push_initial(wl, bag, 0);
    else
      step<WL, O>(wl, bag, s[i]);
  }
  drain<WL, O>(wl, bag);
}
} // namespace c01

OB(wl_gfifo) {
  c01::run_table<GFIFO<int>, c01::OpsI<GFIFO<int>, false>>(c01::SEQ_PP, 3, vf_param(0));
  c01::run_table<GLIFO<int>, c01::OpsI<GLIFO<int>, false>>(c01::SEQ_PP, 3, vf_param(0));
}
OB(wl_stdfifo) {
  c01::run_table<FIFO<int>, c01::OpsI<FIFO<int>>>(c01::SEQ_N, 3, vf_param(0));
  c01::run_table<LIFO<int>, c01::OpsI<LIFO<int>>>(c01::SEQ_N, 3, vf_param(0));
}
OB(wl_localqueue) {
  typedef LocalQueue<NoGlobalQueue<>, GFIFO<int>, int> LQ0;
  typedef LocalQueue<ChunkFIFO<2>, LIFO<int>, int> LQ1;
  if (vf_param(0) < 2)
    c01::run_table<LQ0, c01::OpsI<LQ0, false>>(c01::SEQ_PP, 3, vf_param(0));
  else
    c01::run_table<LQ1, c01::OpsI<LQ1>>(c01::SEQ_I, 4, vf_param(0) - 2);
}
OB(wl_ownercomputes) {
  typedef OwnerComputes<DummyIndexer<int>, ChunkLIFO<2>, int> OC;
  c01::run_table<OC, c01::OpsI<OC>>(c01::SEQ_I, 4, vf_param(0));
}
OB(wl_stableiter) {
  typedef StableIterator<false, PerSocketChunkFIFO<2>, int*> S0;
  typedef StableIterator<true, PerSocketChunkFIFO<2>, int*> S1;
  if (vf_param(1) == 0)
    c01::run_table<S0, c01::OpsI<S0>>(c01::SEQ_I, 4, vf_param(0));
  else
    c01::run_table<S1, c01::OpsI<S1>>(c01::SEQ_I, 4, vf_param(0));
}
OB(wl_bulksync) {
  typedef BulkSynchronous<ChunkFIFO<2>, int, true> BS;
  c01::run_table<BS, c01::OpsBS<BS>>(c01::SEQ_I, 5, vf_param(0));
}
