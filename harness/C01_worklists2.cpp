// UNIT: id=C01 cxxflags="-DGALOIS_FORCE_STANDALONE -DVF_PTS_BYTES=512"
// ASSUME: environment C01_env.h: getThreadPool() is a fake ThreadPool object whose topology records (tid, socket, socketLeader, cumulativeMaxSocket) are written by hand; the thread-local my_box/ptsBase/pssBase are switched by hand ('running on pool thread t'); REAL PerThreadStorage.cpp / SimpleLock.cpp / Barrier_Counting.cpp; page allocator (C09) = 512-byte calloc blocks; GALOIS_DIE = abort() without the iostream text; runtime::getBarrier(n) returns one real CountingBarrier(n) instead of the topology barrier of BarrierInstance
// ASSUME: substrate::PtrLock<T> is replaced by C01_ptrlock_model.h (pointer and lock flag in two fields, same interface, lock discipline CHECKED): CBMC cannot constant-propagate a pointer through (uintptr_t)p|1 / &~1, the packed word is examined by C06 and by the concurrent hand-off obligations
// ASSUME: GALOIS_FORCE_STANDALONE (the repository's own switch) routes FixedSizeAllocator to malloc; the Galois heaps are C09's subject
// ASSUME: ONE worker thread (pool thread 0 of a 1-thread pool) operates on the worklist; operation KINDS are enumerated as separate solver queries (vf_param); item values are solver variables in 0..3; --max-field-sensitivity-array-size 600 lets CBMC track the 512-byte per-thread blocks per byte
// ASSUME: worklists whose initial work arrives through push_initial (LocalQueue with a global queue, StableIterator, BulkSynchronous, OwnerComputes) get it exactly once, first, as ForEachExecutor::initThread does (kind 4 = push_initial(range of 2), kind 5 = push_initial(empty range))
// ASSUME: BulkSynchronous: no push after a pop that returned empty (its isEmpty flag is sticky by design; with one worker and no abort-retries the executor never pushes after an empty pop; the combination with abort-retries is listed outside the bounds in DESIGN.md section 4 item 14)
// ASSUME: GFIFO/GLIFO (Wrapper over gdeque) have no range push: Wrapper::push(Iter,Iter) calls container.insert(end,b,e), which galois::gdeque does not provide (it does not compile when instantiated), so only push(v)/pop are exercised there
// OB: ob_wl_simple tier=quick solver=cadical unwind=20 timeout=600 params=4 bounds="GFIFO<int>, GLIFO<int> (Wrapper over gdeque; range pushes split into single pushes), FIFO<int>, LIFO<int> (Wrapper over std::deque; push_initial + push(v) + push(range of 2) + pop), one after the other in each query, without the per-thread-storage environment (not used by them): 4 kind sequences of 5..6 ops (table SEQ_I); values symbolic in 0..3"
// OB: ob_wl_bulksync tier=quick solver=cadical unwind=32 timeout=600 cbmc="--max-field-sensitivity-array-size 600" params=4 bounds="BulkSynchronous<ChunkFIFO<2>,int,true> and BulkSynchronous<PerSocketChunkLIFO<2>,int,true>, 1 thread, the real CountingBarrier(1): 4 kind sequences (table SEQ_BS) of up to 7 ops: push_initial(range of 2 or 0) first, then {push(v), push(range of 2), pop} with no push after an empty pop" desc="work conservation, one worker, across round flips"
// OB: ob_wl_composite_rows tier=thorough solver=cadical unwind=32 timeout=600 cbmc="--max-field-sensitivity-array-size 600" params=4 bounds="as ob_wl_composite, all 4 rows of SEQ_I" desc="work conservation, one worker"
// OB: ob_wl_bulksync_rows tier=thorough solver=cadical unwind=32 timeout=600 cbmc="--max-field-sensitivity-array-size 600" params=5 bounds="as ob_wl_bulksync, all 5 rows of SEQ_BS" desc="work conservation, one worker, across round flips"
// OB: ob_wl_composite tier=quick solver=cadical unwind=32 timeout=600 cbmc="--max-field-sensitivity-array-size 600" params=3 bounds="LocalQueue<NoGlobalQueue,GFIFO> (single pushes), LocalQueue<ChunkFIFO<2>,ChunkLIFO<2>>, OwnerComputes<DummyIndexer,ChunkLIFO<2>>, StableIterator<false|true,PerSocketChunkFIFO<2>,int*>, one after the other in each query; 1 thread; 3 kind sequences (table SEQ_I rows 0-2): push_initial(range of 2 or 0) first, then {push(v), push(range of 2), pop}" desc="work conservation, one worker: initial range and pushed items all come back exactly once; an empty pop means nothing is pending"
#include "C01_wl_common.h"
#include "galois/worklists/Chunk.h"
#include "galois/worklists/Simple.h"
#include "galois/worklists/LocalQueue.h"
#include "galois/worklists/OwnerComputes.h"
#include "galois/worklists/StableIterator.h"
#include "galois/worklists/BulkSynchronous.h"
#include "vf_standalone.h"

using namespace galois::worklists;
namespace c01 {
// kinds: 0 push(v), 1 push(range of 2), 2 pop, 4 push_initial(range of 2), 5 push_initial(empty range), 9 end
static const unsigned char SEQ_I[][SEQLEN] = { // initial range first
    {4, 2, 0, 2, 1, 2, 9},
    {5, 0, 2, 2, 1, 9},
    {4, 1, 2, 2, 2, 0, 9},
    {4, 2, 2, 2, 0, 2, 9},
};
static const unsigned char SEQ_BS[][SEQLEN] = { // never a push after an empty pop
    {4, 2, 0, 2, 1, 2, 9},
    {5, 2, 9},
    {4, 1, 2, 2, 2, 0, 9},
    {4, 2, 0, 0, 2, 2, 1, 9}, // three rounds
    {5, 0, 2, 0, 2, 9},
};

static int initial_items[2];
template <typename WL>
void push_initial(WL& wl, Bag& bag, unsigned n) {
  for (unsigned i = 0; i < n; ++i) {
    initial_items[i] = value();
    bag.add(initial_items[i]);
  }
  Range r{initial_items, initial_items + n};
  wl.push_initial(r);
}

// adaptor with push_initial kinds; NoRange = the worklist has no range push
inline void vfenv_enter0() {
  if (vfenv::nthreads) vfenv::enter(0);
}
template <typename WL, bool HasRange = true>
struct OpsI {
  static constexpr bool has_flush = false;
  static void start(WL&, Bag&) {}
  static void initial(WL& wl, Bag& bag, unsigned n) {
    if constexpr (HasRange)
      push_initial(wl, bag, n);
    else
      for (unsigned i = 0; i < n; ++i) {
        int v = value();
        bag.add(v);
        wl.push(v);
      }
  }
  static void push(WL& wl, int v) { wl.push(v); }
  static void push2(WL& wl, int* b, int* e) {
    if constexpr (HasRange)
      wl.push(b, e);
    else {
      wl.push(*b);
      wl.push(*(b + 1));
    }
  }
  static galois::optional<int> pop(WL& wl) { return wl.pop(); }
  static void flush(WL&) {}
};

// BulkSynchronous: no push once a pop has returned empty (sticky isEmpty), see the ASSUME line
template <typename WL>
struct OpsBS : OpsI<WL> {
  static bool done;
  static void push(WL& wl, int v) {
    vf_assume(!done);
    wl.push(v);
  }
  static void push2(WL& wl, int* b, int* e) {
    vf_assume(!done);
    wl.push(b, e);
  }
  static galois::optional<int> pop(WL& wl) {
    galois::optional<int> r = wl.pop();
    if (!r) done = true;
    return r;
  }
};
template <typename WL>
bool OpsBS<WL>::done = false;

template <typename WL, typename O>
void run_row(const unsigned char* s) {
  vfenv_enter0();
  {
    WL wl;
    Bag bag;
    for (unsigned i = 0; i < SEQLEN; ++i) {
      if (s[i] == 9) break;
      if (s[i] == 4 || s[i] == 5)
        O::initial(wl, bag, s[i] == 4 ? 2 : 0);
      else
        step<WL, O>(wl, bag, s[i]);
    }
    drain<WL, O>(wl, bag);
  }
}
} // namespace c01

OB(wl_simple) {
  galois::substrate::ThreadPool::my_box.topo.tid = 0;
  const unsigned char* s = c01::SEQ_I[vf_param(0) < 4 ? vf_param(0) : 0];
  c01::run_row<GFIFO<int>, c01::OpsI<GFIFO<int>, false>>(s);
  c01::run_row<GLIFO<int>, c01::OpsI<GLIFO<int>, false>>(s);
  c01::run_row<FIFO<int>, c01::OpsI<FIFO<int>>>(s);
  c01::run_row<LIFO<int>, c01::OpsI<LIFO<int>>>(s);
}
static void composite_row(unsigned row) {
  typedef LocalQueue<NoGlobalQueue<>, GFIFO<int>, int> LQ0;
  typedef LocalQueue<ChunkFIFO<2>, ChunkLIFO<2>, int> LQ1;
  typedef OwnerComputes<DummyIndexer<int>, ChunkLIFO<2>, int> OC;
  typedef StableIterator<false, PerSocketChunkFIFO<2>, int*> S0;
  typedef StableIterator<true, PerSocketChunkFIFO<2>, int*> S1;
  c01::configure(0);
  const unsigned char* s = c01::SEQ_I[row < 4 ? row : 0];
  c01::run_row<LQ0, c01::OpsI<LQ0, false>>(s);
  c01::run_row<LQ1, c01::OpsI<LQ1>>(s);
  c01::run_row<OC, c01::OpsI<OC>>(s);
  c01::run_row<S0, c01::OpsI<S0>>(s);
  c01::run_row<S1, c01::OpsI<S1>>(s);
}
static void bulksync_row(unsigned row) {
  typedef BulkSynchronous<ChunkFIFO<2>, int, true> BS;
  typedef BulkSynchronous<PerSocketChunkLIFO<2>, int, true> BS2;
  c01::configure(0);
  const unsigned char* s = c01::SEQ_BS[row < 5 ? row : 0];
  c01::run_row<BS, c01::OpsBS<BS>>(s);
  c01::run_row<BS2, c01::OpsBS<BS2>>(s);
}
OB(wl_composite) { composite_row(vf_param(0)); }
OB(wl_composite_rows) { composite_row(vf_param(0)); }
OB(wl_bulksync) { bulksync_row(vf_param(0)); }
OB(wl_bulksync_rows) { bulksync_row(vf_param(0)); }
