// UNIT: id=C15
// ASSUME: sequential obligations only (one thread): every compare_exchange_weak succeeds when the expected value matches (no spurious failure); the T>=2 interleavings are a separate unit
// ASSUME: signed int32 operands of atomicAdd/atomicSubtract are bounded to |v| < 2^29 so that the signed addition in the real code cannot overflow (signed overflow is outside the documented domain); uint64 operands are full width (modular)
// ASSUME: double operands of atomicMin/atomicMax are arbitrary non-NaN bit patterns (incl. +-0, +-inf, denormals)
// OB: ob_atomic_minmax_i32 tier=quick unwind=4 timeout=120 bounds="std::atomic<int32_t>: symbolic initial value, 3 calls each symbolically atomicMin or atomicMax with a symbolic argument" desc="atomicMin/atomicMax return the previous value and leave min/max(previous, argument)"
// OB: ob_atomic_minmax_u64 tier=quick unwind=4 timeout=120 bounds="std::atomic<uint64_t>: symbolic initial value, 3 calls each symbolically atomicMin or atomicMax, full 64-bit arguments" desc="atomicMin/atomicMax on unsigned 64-bit"
// OB: ob_atomic_minmax_f64 tier=quick unwind=4 timeout=120 bounds="std::atomic<double>: symbolic non-NaN initial value, 2 calls each symbolically atomicMin or atomicMax, non-NaN arguments" desc="atomicMin/atomicMax on double (all-negative, signed zero, infinities included)"
// OB: ob_atomic_addsub_i32 tier=quick unwind=4 timeout=120 bounds="std::atomic<int32_t>: 3 calls each symbolically atomicAdd or atomicSubtract, |values| < 2^29" desc="atomicAdd/atomicSubtract return the previous value and leave previous +/- delta"
// OB: ob_atomic_addsub_u64 tier=quick unwind=4 timeout=120 bounds="std::atomic<uint64_t>: 3 calls each symbolically atomicAdd or atomicSubtract, full 64-bit (modular)" desc="atomicAdd/atomicSubtract on unsigned 64-bit"
// OB: ob_plain_minmaxadd tier=quick unwind=4 timeout=120 bounds="galois::min/max/add/set, both the std::atomic<T>& and the plain T& overloads, T=int32_t (|v|<2^29) and uint64_t, one call each, symbolic operands" desc="non-atomic min/max/add/set helpers: return value (previous value; set returns the new value) and final value"
#include "vf.h"
#include "galois/AtomicHelpers.h"
#include <cstring>

namespace {
template <typename T>
T nd();
template <>
int32_t nd<int32_t>() { return (int32_t)vf_nondet_u32(); }
template <>
uint64_t nd<uint64_t>() { return vf_nondet_u64(); }
template <>
double nd<double>() {
  uint64_t b = vf_nondet_u64();
  double d;
  std::memcpy(&d, &b, 8);
  vf_assume(d == d); // not NaN
  return d;
}

template <typename T>
bool same(T a, T b) { return a == b; }
// doubles are compared by bit pattern, except that the two zeros are one value for min/max purposes
template <>
bool same<double>(double a, double b) { return a == b; }

template <typename T, unsigned N>
void minmax_seq() {
  T cur = nd<T>();
  std::atomic<T> a(cur);
  for (unsigned i = 0; i < N; ++i) {
    T b      = nd<T>();
    bool mx  = vf_nondet_bool();
    T before = cur;
    T ret;
    if (mx) {
      ret = galois::atomicMax(a, b);
      if (before < b) cur = b;
    } else {
      ret = galois::atomicMin(a, b);
      if (before > b) cur = b;
    }
    VF_CHECKM(same(ret, before), "atomicMin/atomicMax returns the value held before the call");
    VF_CHECKM(same(a.load(), cur), "atomicMin/atomicMax leaves min/max of the previous value and the argument");
    VF_CHECKM(mx ? (a.load() >= b && a.load() >= before) : (a.load() <= b && a.load() <= before), "result bounds both operands");
  }
}

template <typename T, bool BOUNDED, unsigned N>
void addsub_seq() {
  T cur = nd<T>();
  if (BOUNDED) vf_assume(cur > -(T)(1 << 29) && cur < (T)(1 << 29));
  T lo = cur, hi = cur;
  std::atomic<T> a(cur);
  for (unsigned i = 0; i < N; ++i) {
    T d = nd<T>();
    if (BOUNDED) vf_assume(d > -(T)(1 << 27) && d < (T)(1 << 27));
    bool sub = vf_nondet_bool();
    T before = cur;
    T ret;
    if (sub) {
      ret = galois::atomicSubtract(a, d);
      cur = (T)(before - d);
    } else {
      ret = galois::atomicAdd(a, d);
      cur = (T)(before + d);
    }
    VF_CHECKM(ret == before, "atomicAdd/atomicSubtract returns the value held before the call");
    VF_CHECKM(a.load() == cur, "atomicAdd/atomicSubtract leaves previous +/- delta");
  }
  (void)lo;
  (void)hi;
}

template <typename T, bool BOUNDED>
void plain_ops() {
  T x = nd<T>(), y = nd<T>();
  if (BOUNDED) vf_assume(x > -(T)(1 << 29) && x < (T)(1 << 29) && y > -(T)(1 << 29) && y < (T)(1 << 29));
  {
    T a = x;
    T r = galois::min(a, y);
    VF_CHECK(r == x && a == (x > y ? y : x));
  }
  {
    T a = x;
    T r = galois::max(a, y);
    VF_CHECK(r == x && a == (x < y ? y : x));
  }
  {
    T a = x;
    T r = galois::add(a, y);
    VF_CHECK(r == x && a == (T)(x + y));
  }
  {
    T a = x;
    T r = galois::set(a, y);
    VF_CHECK(r == y && a == y);
  }
  {
    std::atomic<T> a(x);
    T r = galois::min(a, y);
    VF_CHECK(r == x && a.load() == (x > y ? y : x));
  }
  {
    std::atomic<T> a(x);
    T r = galois::max(a, y);
    VF_CHECK(r == x && a.load() == (x < y ? y : x));
  }
  {
    std::atomic<T> a(x);
    T r = galois::add(a, y);
    VF_CHECK(r == x && a.load() == (T)(x + y));
  }
  {
    std::atomic<T> b(y);
    T a = x;
    T r = galois::add(a, b);
    VF_CHECK(r == x && a == (T)(x + y) && b.load() == y);
  }
  {
    std::atomic<T> a(x);
    T r = galois::set(a, y);
    VF_CHECK(r == y && a.load() == y);
  }
}
} // namespace

OB(atomic_minmax_i32) { minmax_seq<int32_t, 3>(); }
OB(atomic_minmax_u64) { minmax_seq<uint64_t, 3>(); }
OB(atomic_minmax_f64) { minmax_seq<double, 2>(); }
OB(atomic_addsub_i32) { addsub_seq<int32_t, true, 3>(); }
OB(atomic_addsub_u64) { addsub_seq<uint64_t, false, 3>(); }
OB(plain_minmaxadd) {
  plain_ops<int32_t, true>();
  plain_ops<uint64_t, false>();
}
