// C15_env.h -- harness-built environment under which the REAL substrate::PerThreadStorage / PerBackend
// (libgalois/src/PerThreadStorage.cpp, included verbatim) runs without the thread pool, the topology probe or mmap.
//
//  * getThreadPool() returns a zero-filled fake ThreadPool object whose only initialised member is
//    mi.maxThreads (the only one PerThreadStorage / Reducible read).
//  * ThreadPool::my_box (the thread-local mailbox that holds the caller's tid) is defined here; "running on
//    thread t" = vf_env_enter(t): my_box.topo.tid = t and ptsBase = the block PerBackend::initPerThread
//    allocated for t.  Updates of a Reducible touch only the caller's slot, so the assignment of updates to
//    threads - not their interleaving - is the whole quantifier.
//  * the page allocator (substrate::allocSize/allocPages, subject of C09) is replaced by 512-byte zeroed malloc
//    blocks: the 2 MB huge page of the real allocator is only a capacity; PerBackend's arithmetic is unchanged.
#pragma once
#include "vf.h"
#include <cstdlib>
#include <cstring>
#include <new>
// fatal-error macro: the diagnostic text (std::ostringstream formatting) is dropped, the fatal exit is kept
#include "galois/gIO.h"
#undef GALOIS_DIE
#define GALOIS_DIE(...) abort()
#include "galois/substrate/ThreadPool.h"
#include "galois/substrate/PerThreadStorage.h"
#include "galois/substrate/PageAlloc.h"

namespace galois {
namespace substrate {
#ifndef VF_PTS_BYTES
#define VF_PTS_BYTES 512
#endif
size_t allocSize() { return VF_PTS_BYTES; }
void* allocPages(unsigned num, bool) { return std::calloc(num, VF_PTS_BYTES); }
void freePages(void* p, unsigned) { std::free(p); }

thread_local ThreadPool::per_signal ThreadPool::my_box;

// a TYPED, never-constructed pool object (a raw byte buffer would make every pointer stored in it - e.g. the
// signals vector - a byte-level value that CBMC cannot constant-propagate)
union VfFakePool {
  ThreadPool tp;
  VfFakePool() {}
  ~VfFakePool() {}
};
static VfFakePool vf_fake_pool;
ThreadPool& getThreadPool(void) { return vf_fake_pool.tp; }
} // namespace substrate
} // namespace galois

// resolved through -I<repo>/libgalois/include
#include "../src/SimpleLock.cpp"
#include "../src/PerThreadStorage.cpp"

namespace vfenv {
constexpr unsigned MAXT = 4;
static char* base[MAXT];
static unsigned nthreads;

// the calling context becomes pool thread t
inline void enter(unsigned t) {
  galois::substrate::ThreadPool::my_box.topo.tid = t;
  galois::substrate::ptsBase                     = base[t];
}

// build the environment for T pool threads: every thread runs the real per-thread initialisation
inline void init(unsigned T) {
  using namespace galois::substrate;
  nthreads                     = T;
  getThreadPool().mi.maxThreads = T;
  for (unsigned t = 0; t < T; ++t) {
    ThreadPool::my_box.topo.tid = t;
    base[t]                     = getPTSBackend().initPerThread(T);
  }
  enter(0);
}
} // namespace vfenv
