// UNIT: id=C09 cxxflags="-DGALOIS_FORCE_STANDALONE"
// ASSUME: GALOIS_FORCE_STANDALONE (the repository's own switch) routes every FixedSizeHeap of the Pow_2_BlockHeap table to MallocHeap, so the per-class heap identity is not observable here: 'alloc and dealloc pick the same class' is checked on the class index (nextLog2) and, end to end, by CBMC's free()/bounds checks on the returned block; the thread-private sized heaps behind the table are covered by the C09_heaps obligations
// ASSUME: the Pow_2_BlockHeap object is built in place (heapTable constructed, real populateTable() called) because its out-of-line constructor is compiled out by GALOIS_FORCE_STANDALONE; malloc never fails
// OB: ob_pow2_class tier=quick unwind=18 timeout=300 bounds="Pow_2_BlockHeap::nextLog2(size): ALL sizes 0..65536 symbolic" desc="class index i satisfies 3<=i<=16 (inside the 17-entry heapTable), 2^i >= size, and i==3 or 2^(i-1) < size (least power of two >= max(size,8)); the index is the same for the allocating and the freeing call"
// OB: ob_pow2_alloc tier=quick unwind=40 timeout=300 params=15 bounds="Pow_2_BlockHeap::allocateBlock/deallocateBlock on a populated 17-entry table: size class k=3..16 by vf_param (size symbolic in (2^(k-1),2^k], k=3: 1..8) and the malloc back-up class (65537..70000)" desc="block non-null, 8-aligned, writable at its first and last requested byte (CBMC bounds check against the real block length), two live blocks disjoint, the block of class k is usable for the whole class size 2^k (it is recycled for any request of that class), deallocateBlock frees exactly the block that was handed out (CBMC free checks)"
#include "vf.h"
#include "galois/runtime/Mem.h"
#include "vf_standalone.h"
#include <new>

using P2 = galois::runtime::Pow_2_BlockHeap;

OB(pow2_class) {
  uint64_t size = vf_nondet_u64();
  vf_assume(size <= 65536);
  unsigned i = P2::nextLog2(size);
  VF_CHECKM(i >= P2::LOG2_MIN_SIZE && i <= P2::LOG2_MAX_SIZE, "class index between LOG2_MIN_SIZE and LOG2_MAX_SIZE");
  VF_CHECKM(i < P2::LOG2_MAX_SIZE + 1, "class index inside heapTable (LOG2_MAX_SIZE+1 entries)");
  VF_CHECKM(P2::pow2(i) >= size, "class size >= requested size");
  VF_CHECKM(P2::pow2(i) >= 8, "class size >= 8");
  VF_CHECKM(i == P2::LOG2_MIN_SIZE || P2::pow2(i - 1) < size, "class is the least power of two >= size");
  VF_CHECKM(P2::nextLog2(size) == i, "allocateBlock and deallocateBlock compute the same class for the same size");
}

OB(pow2_alloc) {
  alignas(P2) static char buf[sizeof(P2)];
  P2* h = (P2*)buf;
  new (&h->heapTable) std::vector<galois::runtime::FixedSizeHeap>();
  h->populateTable();
  VF_CHECKM(h->heapTable.size() == P2::LOG2_MAX_SIZE + 1, "table has LOG2_MAX_SIZE+1 entries");
  unsigned k    = vf_param(0) + 3; // 3..16, 17 = malloc back-up
  uint64_t size = vf_nondet_u32();
  if (k == 3) vf_assume(size >= 1 && size <= 8);
  else if (k <= 16) vf_assume(size > ((uint64_t)1 << (k - 1)) && size <= ((uint64_t)1 << k));
  else vf_assume(size > 65536 && size <= 70000);
  char* p = (char*)h->allocateBlock(size);
  VF_CHECKM(p != nullptr && ((uint64_t)(uintptr_t)p & 7) == 0, "non-null, 8-aligned");
  // a block of class k returns to class k's free list on deallocation and may then serve ANY request of that class:
  // it must be usable for the whole class size 2^k (CBMC bounds check / ASan against the real block length)
  if (k <= 16) p[((uint64_t)1 << k) - 1] = 5;
  p[0]        = 1;
  p[size - 1] = 2;
  char* q = (char*)h->allocateBlock(size);
  VF_CHECKM(q != nullptr && q != p, "second block is a different block");
  uint64_t up = (uint64_t)(uintptr_t)p, uq = (uint64_t)(uintptr_t)q;
  VF_CHECKM(up + size <= uq || uq + size <= up, "two live blocks are disjoint");
  q[0]        = 3;
  q[size - 1] = 4;
  VF_CHECKM(p[size - 1] == 2, "first block intact");
  h->deallocateBlock(p, size);
  h->deallocateBlock(q, size);
}
