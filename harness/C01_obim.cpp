// UNIT: id=C01 cxxflags="-DGALOIS_FORCE_STANDALONE -DVF_PTS_BYTES=640"
// ASSUME: environment C01_env.h (fake ThreadPool object, hand-written topology of ONE thread, real PerThreadStorage.cpp / SimpleLock.cpp / Barrier_Counting.cpp, page allocator = 640-byte calloc blocks, getBarrier(n) = one real CountingBarrier, GALOIS_DIE = abort()), PtrLock model C01_ptrlock_model.h, GALOIS_FORCE_STANDALONE (FixedSizeAllocator -> malloc)
// ASSUME: an item is bucket*4 + payload; the BUCKET (0..2) is part of the operation kind (constant per query), the payload is a solver variable in 0..3: a symbolic bucket makes the shape of masterLog (std::deque) and of the per-thread flat_map symbolic and a 5-operation history did not finish in 120 s
// ASSUME: with the barrier option the worker follows ForEachExecutor::go(): pop until empty, then checkEmpty(wl) = wl.empty(), resume popping when that returns false
// ASSUME: the worklist object is never destroyed (~OrderedByIntegerMetric walks the std::deque masterLog backwards, which CBMC cannot bound)
// OB: ob_wl_obim tier=quick solver=cadical unwind=32 timeout=600 cbmc="--max-field-sensitivity-array-size 700" params=1,2 bounds="OrderedByIntegerMetric<Indexer, ChunkFIFO<2,Item>, BlockPeriod 0>: variants {BSP ascending, barrier ascending} (descending and more histories of both are exercised by the quick C08 obligations ob_lv_backscan / ob_lv_obim_barrier, all variants x all rows by ob_wl_obim_more) x 1 kind sequence of 6 ops (table SEQ_O row 0) from {push into bucket 0/1/2, pop, range push across buckets}; payloads symbolic; 1 thread" desc="pop returns only pending items, each once; an empty pop (with the barrier option: an empty pop confirmed by empty()) means nothing is pending; after draining nothing comes back"
// OB: ob_wl_obim_more tier=thorough solver=cadical unwind=32 timeout=600 cbmc="--max-field-sensitivity-array-size 700" params=6,7 bounds="OrderedByIntegerMetric: variants {BSP asc, barrier asc, BSP desc, no-BSP asc, barrier desc, BSP asc over PerSocketChunkFIFO<2,Item>, BlockPeriod 1} x all 6 rows of SEQ_O" desc="work conservation, one worker"
#include "C01_obim_common.h"
#include "vf_standalone.h"

using namespace galois::worklists;
namespace {
void run(unsigned row, unsigned variant) {
  const unsigned char* s = c01::SEQ_O[row < 6 ? row : 0];
  switch (variant) {
  case 0: c01::obim_conserve<c01::Obim<ChunkFIFO<2, c01::Item>, 0, true, false, false, false>, false>(s); break;
  case 1: c01::obim_conserve<c01::Obim<ChunkFIFO<2, c01::Item>, 0, true, true, false, false>, true>(s); break;
  case 2: c01::obim_conserve<c01::Obim<ChunkFIFO<2, c01::Item>, 0, true, false, false, true>, false>(s); break;
  case 3: c01::obim_conserve<c01::Obim<ChunkFIFO<2, c01::Item>, 0, false, false, false, false>, false>(s); break;
  case 4: c01::obim_conserve<c01::Obim<ChunkFIFO<2, c01::Item>, 0, true, true, false, true>, true>(s); break;
  case 5: c01::obim_conserve<c01::Obim<PerSocketChunkFIFO<2, c01::Item>, 0, true, false, false, false>, false>(s); break;
  default: c01::obim_conserve<c01::Obim<ChunkFIFO<2, c01::Item>, 1, true, false, false, false>, false>(s); break;
  }
}
} // namespace
OB(wl_obim) { run(vf_param(0), vf_param(1)); }
OB(wl_obim_more) { run(vf_param(0), vf_param(1)); }
