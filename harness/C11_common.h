// shared prelude of the C11 units: the REAL static-graph headers + real FileGraph.cpp, run on ONE modelled thread.
//   * galois/Loops.h (the parallel executors) is cut: do_all = sequential loop over the real range object,
//     on_each = body once with (tid 0, 1 thread); everything else of galois/Galois.h is the real header.
//   * LargeArray's NUMA allocators = zero-filled heap blocks of EXACTLY the requested size (0 bytes -> nullptr, as the
//     real allocPages(0)), so an access past an array is an out-of-bounds access for the checker.
//   * thread pool / per-thread storage: the one-thread model of the C12 units.
#pragma once
#include "vf.h"
#include <cstdlib>
// fatal-error macros: the diagnostic text (std::ostringstream formatting) is dropped, the abort() is kept
#include "galois/gIO.h"
#undef GALOIS_DIE
#undef GALOIS_SYS_DIE
#define GALOIS_DIE(...) abort()
#define GALOIS_SYS_DIE(...) abort()
#undef GALOIS_ASSERT
#define GALOIS_ASSERT(cond, ...) do { if (!(cond)) abort(); } while (0)

// ---- the cut: galois/Loops.h
#define GALOIS_LOOPS_H
#include <tuple>
#include "galois/GaloisForwardDecl.h"
#include "galois/gstl.h"
#include "galois/Threads.h"
#include "galois/Timer.h"
#include "galois/Traits.h"
#include "galois/runtime/Range.h"
#include "galois/runtime/Context.h"
#include "galois/runtime/Mem.h"
#include "galois/substrate/ThreadPool.h"
#include "galois/substrate/PerThreadStorage.h"
namespace galois {
template <typename RangeFunc, typename FunctionTy, typename... Args>
void do_all(const RangeFunc& rangeMaker, FunctionTy&& fn, const Args&... args) {
  auto tpl = std::make_tuple(args...);
  auto r   = rangeMaker(tpl);
  for (auto i = r.begin(), e = r.end(); i != e; ++i) fn(*i);
}
template <typename FunctionTy, typename... Args>
void on_each(FunctionTy&& fn, const Args&...) {
  fn(0u, 1u);
}
} // namespace galois

#include "../src/FileGraph.cpp"
#include "../src/GraphHelpers.cpp"
#include "../src/Context.cpp"
#include "../src/SimpleLock.cpp"
#include "../src/PtrLock.cpp"

// ---- harness prelude: one-thread pool, per-thread storage backend, large allocations, timers (see ASSUME)
namespace galois::substrate {
alignas(64) static char vf_tp_mem[sizeof(ThreadPool)];
ThreadPool& getThreadPool() {
  ThreadPool* tp    = reinterpret_cast<ThreadPool*>(vf_tp_mem);
  tp->mi.maxThreads = 1;
  return *tp;
}
alignas(128) static char vf_pts_page[4096];
static unsigned vf_pts_next = 0;
thread_local char* ptsBase  = vf_pts_page;
PerBackend::PerBackend() {}
unsigned PerBackend::allocOffset(const unsigned sz) {
  unsigned size = (sz + 127u) & ~127u;
  unsigned off  = vf_pts_next;
  vf_assume(off + size <= sizeof(vf_pts_page));
  vf_pts_next = off + size;
  return off;
}
void PerBackend::deallocOffset(const unsigned, const unsigned) {}
void* PerBackend::getRemote(unsigned, unsigned offset) { return &vf_pts_page[offset]; }
PerBackend& getPTSBackend() {
  static PerBackend b;
  return b;
}
thread_local ThreadPool::per_signal ThreadPool::my_box;
void ThreadPool::runInternal(unsigned) { work(); }

static LAptr vf_large(size_t bytes) {
#ifdef VF_C11_PAGE // page-rounded like the real allocator, the 2 MB page scaled down to VF_C11_PAGE bytes
  bytes = (bytes + (VF_C11_PAGE - 1)) / VF_C11_PAGE * VF_C11_PAGE;
#endif
  return LAptr{bytes ? std::calloc(bytes, 1) : nullptr, internal::largeFreer{bytes}};
}
void internal::largeFreer::operator()(void* ptr) const { std::free(ptr); }
LAptr largeMallocLocal(size_t bytes) { return vf_large(bytes); }
LAptr largeMallocFloating(size_t bytes) { return vf_large(bytes); }
LAptr largeMallocInterleaved(size_t bytes, unsigned) { return vf_large(bytes); }
LAptr largeMallocBlocked(size_t bytes, unsigned) { return vf_large(bytes); }
} // namespace galois::substrate

unsigned galois::runtime::activeThreads = 1;
unsigned int galois::getActiveThreads() noexcept { return galois::runtime::activeThreads; }

// statistics timers: no clock, no report.  StatTimer's two gstl::Str members stay empty (no allocation), so the
// power-of-two heap singleton their allocator points to is an empty object.
galois::runtime::Pow_2_BlockHeap::Pow_2_BlockHeap() noexcept {}
namespace galois {
TimeAccumulator::TimeAccumulator() : ltimer(), acc(0) {}
StatTimer::StatTimer(const char* const, const char* const) : valid_(false) {}
StatTimer::~StatTimer() {}
void StatTimer::start() {}
void StatTimer::stop() {}
} // namespace galois

using galois::graphs::FileGraph;

namespace {
constexpr unsigned MAXN = 3, MAXE = 4;

struct Model {
  unsigned n, e;
  uint64_t idx[MAXN + 1]; // idx[i] = end of node i's edges
  uint32_t dst[MAXE + 1];
  uint32_t data[MAXE + 1];
  uint64_t begin(unsigned k) const { return k ? idx[k - 1] : 0; }
  // source node of edge x = number of nodes whose range ends at or before x
  unsigned src(unsigned x) const {
    unsigned s = 0;
    for (unsigned k = 0; k < n; ++k)
      if (idx[k] <= x) ++s;
    return s;
  }
};

// shapes: (numNodes, numEdges, out-index) - one solver query per shape.  The out-index is enumerated, not symbolic:
// loops of the library whose trip counts depend on it (constructFrom, transpose, sort) must have concrete bounds
// for the checker (measured with a symbolic out-index: 27 M variables, > 4 min for ONE 2-node/4-edge graph).
// All monotone out-index arrays ending at numEdges for nodes <= 3, edges <= 4, ordered by edge count:
// shapes [0,35) have <= 3 edges, [35,56) have 4 edges.
struct Shape { unsigned n, e; unsigned idx[MAXN]; };
struct ShapeTab { Shape s[56]; unsigned cnt; };
constexpr ShapeTab make_shapes() {
  ShapeTab t{};
  for (unsigned e = 0; e <= MAXE; ++e)
    for (unsigned n = 0; n <= MAXN; ++n) {
      if (n == 0) {
        if (e == 0) { t.s[t.cnt] = Shape{0, 0, {0, 0, 0}}; ++t.cnt; }
        continue;
      }
      for (unsigned a = 0; a <= e; ++a)
        for (unsigned b = a; b <= e; ++b) {
          // idx = (a, b, e) truncated to n entries, last entry = e
          if (n == 1 && !(a == e && b == e)) continue;
          if (n == 2 && !(b == e)) continue;
          Shape s{n, e, {a, b, e}};
          if (n == 1) { s.idx[1] = e; s.idx[2] = e; }
          if (n == 2) { s.idx[2] = e; }
          t.s[t.cnt] = s;
          ++t.cnt;
        }
    }
  return t;
}
constexpr ShapeTab SHAPES = make_shapes();
static_assert(SHAPES.cnt == 56, "shape table");
static_assert(SHAPES.s[34].e == 3 && SHAPES.s[35].e == 4, "shape table order");

// graph with a concrete shape and symbolic destinations (< n) and edge data
void make_model(Model& m, unsigned shape) {
  const Shape& s = SHAPES.s[shape];
  m.n = s.n; m.e = s.e;
  for (unsigned i = 0; i < MAXN; ++i) m.idx[i] = s.idx[i];
  m.idx[MAXN] = s.e;
  for (unsigned i = 0; i <= MAXE; ++i) {
    m.dst[i] = vf_nondet_u8();
    if (i < m.e) vf_assume(m.dst[i] < m.n);
  }
  for (unsigned i = 0; i <= MAXE; ++i) m.data[i] = vf_nondet_u32();
}

// one solver query covers a GROUP of 5 consecutive shapes (the per-query start-up cost dominates otherwise)
template <typename F>
inline void for_group(unsigned base, unsigned limit, F f) {
  for (unsigned i = 0; i < 5; ++i) {
    unsigned s = base + 5 * vf_param(0) + i;
    if (s < limit) f(s);
  }
}
#define NOINL __attribute__((noinline))

// the input "file": real FileGraph::fromArrays (version 1, 32-bit destinations), never destroyed
FileGraph& build_file(const Model& m, bool withData) {
  uint64_t idx[MAXN + 1];
  uint32_t d32[MAXE + 1], e32[MAXE + 1];
  for (unsigned i = 0; i <= MAXN; ++i) idx[i] = m.idx[i];
  for (unsigned i = 0; i <= MAXE; ++i) {
    d32[i] = m.dst[i];
    e32[i] = m.data[i];
  }
  FileGraph& g = *new FileGraph;
  g.fromArrays(idx, m.n, d32, m.e, withData ? (char*)e32 : nullptr, withData ? 4 : 0, 0, 0, false, 1);
  return g;
}
} // namespace
