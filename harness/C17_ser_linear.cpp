// UNIT: id=C17 include="libdist/include" cxxflags="-DGALOIS_FORCE_STANDALONE -ffunction-sections -fdata-sections" ldflags="-Wl,--gc-sections"
// ASSUME: GALOIS_FORCE_STANDALONE (the repository's own switch) routes gdeque's FixedSizeAllocator to malloc
// ASSUME: container sizes and the pad length (0..7 bytes in front of the value: every buffer alignment, both branches of gDeserializeLinearSeq) are enumerated as separate solver queries (vf_param); all values are solver variables
// ASSUME: std::string values stay within the 15-character small-string capacity (reallocating growth _M_mutate is a BOUND failure)
// ASSUME: malloc/realloc results are maximally aligned (CBMC: alignment is decided by the offset inside the object), as glibc guarantees for 16 bytes
// OB: ob_podarray_u32 tier=quick unwind=30 timeout=300 params=8,4 bounds="PODResizeableArray<uint32_t> of 0..3 symbolic elements followed by a uint16, pad 0..7 (32 queries), target non-empty beforehand" desc="memcpy-path sequence round-trips at every alignment (aligned-cast and extract branches)"
// OB: ob_vector_u32 tier=quick unwind=30 timeout=300 params=8,4 bounds="std::vector<uint32_t> of 0..3 symbolic elements followed by a uint16, pad 0..7" desc="memcpy-path vector round-trips at every alignment"
// OB: ob_vector_u64 tier=quick unwind=30 timeout=300 params=8,4 bounds="std::vector<uint64_t> of 0..3 symbolic elements followed by a uint16, pad 0..7" desc="memcpy-path vector (8-byte alignment) round-trips at every alignment"
// OB: ob_concat tier=quick unwind=30 timeout=300 params=8,3,3 bounds="vector<uint16_t>[0..2] then PODResizeableArray<uint64_t>[0..2], pad 0..7 (72 queries)" desc="two sequences of different alignment back to back"
#include "C17_common.h"

// ---------------------------------------------------------------- linear sequences (memcpy path)
// a sequence of n symbolic elements, then a 16-bit sentinel (concatenation), after the pad
template <typename Seq>
static void linear_seq(unsigned k, unsigned n) {
  typedef typename Seq::value_type T;
  Seq x, y;
  T model[4];
  for (unsigned i = 0; i < n; ++i) {
    model[i] = (T)vf_nondet_u64();
    x.push_back(model[i]);
  }
  y.push_back((T)7); // the target is not empty beforehand
  uint16_t s = vf_nondet_u16(), t = 0;
  SerializeBuffer b;
  pad(b, k);
  gSerialize(b, x, s);
  VF_CHECKM(b.size() == k + gSized(x, s), "gSized equals the bytes produced");
  VF_CHECK(b.size() == k + 8 + n * sizeof(T) + 2);
  DeSerializeBuffer d(std::move(b));
  VF_CHECKM((uintptr_t)d.linearData() % 8 == 0, "buffer base is 8-aligned, so the pad length selects the branch of gDeserializeLinearSeq");
  skip(d, k);
  gDeserialize(d, y, t);
  VF_CHECKM(d.getOffset() == d.size(), "read offset ends exactly at the buffer size");
  VF_CHECKM(y.size() == n, "sequence length");
  for (unsigned i = 0; i < n; ++i) VF_CHECKM(y[i] == model[i], "sequence element");
  VF_CHECKM(s == t, "value after the sequence");
}
OB(podarray_u32) { linear_seq<galois::PODResizeableArray<uint32_t>>(vf_param(0), vf_param(1)); }
OB(vector_u32) { linear_seq<std::vector<uint32_t>>(vf_param(0), vf_param(1)); }
OB(vector_u64) { linear_seq<std::vector<uint64_t>>(vf_param(0), vf_param(1)); }

// two sequences of different element width back to back, then a gdeque
OB(concat) {
  unsigned k = vf_param(0), n1 = vf_param(1), n2 = vf_param(2);
  std::vector<uint16_t> x1, y1;
  galois::PODResizeableArray<uint64_t> x2, y2;
  uint16_t m1[3];
  uint64_t m2[3];
  for (unsigned i = 0; i < n1; ++i) {
    m1[i] = vf_nondet_u16();
    x1.push_back(m1[i]);
  }
  for (unsigned i = 0; i < n2; ++i) {
    m2[i] = vf_nondet_u64();
    x2.push_back(m2[i]);
  }
  SerializeBuffer b;
  pad(b, k);
  gSerialize(b, x1, x2);
  VF_CHECKM(b.size() == k + gSized(x1, x2), "gSized equals the bytes produced");
  DeSerializeBuffer d(std::move(b));
  skip(d, k);
  gDeserialize(d, y1, y2);
  VF_CHECKM(d.getOffset() == d.size(), "read offset ends exactly at the buffer size");
  VF_CHECK(y1.size() == n1 && y2.size() == n2);
  for (unsigned i = 0; i < n1; ++i) VF_CHECK(y1[i] == m1[i]);
  for (unsigned i = 0; i < n2; ++i) VF_CHECK(y2[i] == m2[i]);
}

