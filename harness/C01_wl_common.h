// C01_wl_common.h -- the one-worker work-conservation driver shared by the C01_worklists*.cpp units.
// Operation KINDS come from vf_param (one solver query per kind sequence); item values are solver variables in 0..3;
// the oracle is a multiset kept in four counters.
#pragma once
#include "C01_env.h"
#include "galois/optional.h"

namespace c01 {
constexpr unsigned NVAL  = 4;  // plain worklists: item values 0..3
constexpr unsigned NSLOT = 16; // priority worklists: item = bucket * 4 + payload, bucket 0..2 (see C01_obim.cpp)

struct Bag {
  unsigned cnt[NSLOT] = {0, 0, 0, 0, 0, 0, 0, 0, 0, 0, 0, 0, 0, 0, 0, 0}; // symbolic: pending copies of each value
  unsigned n         = 0;            // pending items; stays a constant under constant operation kinds (keeps harness loops concrete)
  void add(int v) {
    ++cnt[v & 15];
    ++n;
  }
  bool empty() const { return n == 0; }
  // an item came out of the worklist
  void take(int v) {
    VF_CHECKM(n > 0, "pop returned an item although nothing is pending (duplicate or invented item)");
    if (n) --n;
    VF_CHECKM(v >= 0 && v < (int)NSLOT, "pop returned a value that was never pushed (out of the value range)");
    unsigned c = cnt[v & 15];
    VF_CHECKM(c > 0, "pop returned an item that is not pending (never pushed, or returned twice)");
    cnt[v & 15] = c ? c - 1 : 0;
  }
  // n == 0 must agree with the per-value counters
  void check_consistent() const {
    unsigned t = 0;
    for (unsigned i = 0; i < NSLOT; ++i) t += cnt[i];
    VF_CHECKM(t == n, "per-value counters disagree with the number of pending items");
  }
};

inline int value() {
  unsigned v = vf_nondet_u8();
  vf_assume(v < NVAL);
  return (int)v;
}

// initial range handed to push_initial (what runtime::Range gives the executor: local_pair() = this thread's share)
struct Range {
  int* b;
  int* e;
  typedef int* iterator;
  std::pair<int*, int*> local_pair() const { return std::make_pair(b, e); }
  int* begin() const { return b; }
  int* end() const { return e; }
};

// default adaptor: plain push / range push / pop; worklists with flush() or a different pop protocol specialise
template <typename WL>
struct Ops {
  static constexpr bool has_flush = false;
  static void start(WL&, Bag&) {}
  static void push(WL& wl, int v) { wl.push(v); }
  static void push2(WL& wl, int* b, int* e) { wl.push(b, e); }
  static galois::optional<int> pop(WL& wl) { return wl.pop(); }
  static void flush(WL&) {}
};

// op kinds: 0 push(v)  1 push(range of 2)  2 pop  3 flush (where it exists; otherwise the sequence is skipped)
template <typename WL, typename O = Ops<WL>>
void step(WL& wl, Bag& bag, unsigned op) {
  switch (op) {
  case 0: {
    int v = value();
    O::push(wl, v);
    bag.add(v);
    break;
  }
  case 1: {
    int a[2] = {value(), value()};
    O::push2(wl, a, a + 2);
    bag.add(a[0]);
    bag.add(a[1]);
    break;
  }
  case 2: {
    galois::optional<int> r = O::pop(wl);
    if (r)
      bag.take(*r);
    else
      VF_CHECKM(bag.empty(), "pop returned empty while pushed items are still pending (work stranded)");
    break;
  }
  default:
    vf_assume(O::has_flush);
    O::flush(wl);
    break;
  }
}

// after the sequence: the single worker keeps popping; it must get every pending item back, each once, then empty
template <typename WL, typename O = Ops<WL>>
void drain(WL& wl, Bag& bag) {
  unsigned pending = bag.n;
  for (unsigned k = 0; k < pending; ++k) {
    galois::optional<int> r = O::pop(wl);
    VF_CHECKM((bool)r, "pop returned empty while pushed items are still pending (work stranded)");
    if (!r) return;
    bag.take(*r);
  }
  bag.check_consistent();
  galois::optional<int> r = O::pop(wl);
  VF_CHECKM(!r, "pop returned an item although everything pushed was already popped (duplicate)");
  r = O::pop(wl);
  VF_CHECKM(!r, "pop returned an item although everything pushed was already popped (duplicate)");
}

// pool configurations: 0 = one thread; 1 = two threads on two sockets, the modelled worker is thread 1 (leader of
// socket 1), thread 0 exists but never touches the worklist; 2 = two threads on one socket, the worker is thread 1
// (not a socket leader)
inline void configure(unsigned cfg) {
  if (cfg == 0) {
    vfenv::init(1);
    galois::runtime::activeThreads = 1;
    return;
  }
  unsigned so[vfenv::MAXT] = {0, cfg == 1 ? 1u : 0u, 0, 0, 0, 0, 0, 0};
  vfenv::init_pool(2, so);
  vfenv::init_storage();
  galois::runtime::activeThreads = 2;
}
inline void become_worker(unsigned cfg) { vfenv::enter(cfg == 0 ? 0 : 1); }

// one worklist instance, one kind sequence: constructed by the master thread (thread 0) as for_each_impl does, used by
// the worker, destroyed by the master
template <typename WL, typename O, typename KindAt>
void run_one(unsigned cfg, unsigned len, KindAt kindAt) {
  vfenv::enter(0);
  {
    WL wl;
    become_worker(cfg);
    Bag bag;
    O::start(wl, bag);
    for (unsigned i = 0; i < len; ++i) {
      unsigned k = kindAt(i);
      if (k == 9) break;
      step<WL, O>(wl, bag, k);
    }
    drain<WL, O>(wl, bag);
    vfenv::enter(0);
  }
}

// every kind sequence of NOPS operations: vf_param(base..base+NOPS-1) = kinds, vf_param(base+NOPS) = pool configuration
template <typename WL, unsigned NOPS, typename O = Ops<WL>>
void conserve(unsigned base = 0) {
  unsigned cfg = vf_param(base + NOPS);
  configure(cfg);
  run_one<WL, O>(cfg, NOPS, [base](unsigned i) { return vf_param(base + i); });
}

// a table of longer kind sequences (terminated by 9): vf_param(base) = row, vf_param(base+1) = pool configuration;
// the worklist types of the pack are exercised one after the other in the same environment (one solver query)
constexpr unsigned SEQLEN = 10;
template <typename... WLs>
void conserve_table(const unsigned char (*tab)[SEQLEN], unsigned n, unsigned base = 0) {
  unsigned cfg = vf_param(base + 1);
  configure(cfg);
  const unsigned char* s = tab[vf_param(base) < n ? vf_param(base) : 0];
  (run_one<WLs, Ops<WLs>>(cfg, SEQLEN, [s](unsigned i) { return (unsigned)s[i]; }), ...);
}

// kind sequences used by the quick tier (0 push(v), 1 push(range of 2), 2 pop, 3 flush, 9 end); chunk size 2
// with flush():
static const unsigned char SEQ_F[][SEQLEN] = {
    {1, 0, 2, 2, 2, 9},       // fill a chunk, overflow into a second one, pop across the chunk boundary
    {0, 3, 0, 2, 1, 2, 9},    // flush a half-full chunk, keep pushing, pops interleaved
    {1, 1, 2, 0, 3, 2, 9},    // two full chunks, pop, push, flush, pop
    {2, 0, 2, 2, 1, 3, 1, 9}, // pop on empty first; an empty pop in the middle; flush between two range pushes
    {0, 2, 0, 2, 0, 2, 9},    // strictly alternating: every pop is served from the worker's own push chunk
    {1, 3, 1, 3, 2, 2, 0, 9}, // two flushed chunks, then pops and a late push
};
// without flush():
static const unsigned char SEQ_N[][SEQLEN] = {
    {1, 0, 2, 2, 2, 9},
    {0, 2, 0, 2, 1, 2, 9},
    {1, 1, 2, 0, 2, 2, 9},
    {2, 0, 2, 2, 1, 1, 9},
    {1, 1, 0, 2, 2, 1, 9},
};
} // namespace c01
