// UNIT: id=C15
// ASSUME: sequential obligations only (one thread); the T=2 merge/find interleavings are a separate unit
// ASSUME: operations and their operand nodes are enumerated as separate solver queries (vf_param): std::atomic<T*> is compiled to integer loads + inttoptr, and dereferencing solver-chosen inttoptr values costs > 4 GB per query (measured); union-find carries no data values, so within these queries nothing is left for the solver to choose: this is exhaustive enumeration of the listed operation sequences on the translated real code
// ASSUME: nodes live in one array, so the address order merge() uses to direct links is the index order
// OB: ob_uf_seq3 tier=quick unwind=6 timeout=120 params=28,28,28 param_limit=12 bounds="UnionFindNode: 4 nodes; sequences of 3 operations from 28 concrete operations {merge(a,b) all 16 ordered pairs, find/findAndCompress/compress on each node}: 12 of the 21952 sequences (each query costs ~12 s, 1.2 GB) (VERIF_SEED); after every operation the full partition (all pairs) is compared" desc="the partition induced by find() equals the model partition (union closure of the merges); find/findAndCompress return a representative; merge returns non-null iff two sets were joined; compress/findAndCompress never change the partition; no cycle"
// OB: ob_uf_chain tier=quick unwind=6 timeout=120 params=28,28 param_limit=12 bounds="4 nodes linked into the worst-case chain 3->2->1->0 by three merges, then 2 operations from the 28 (12 of 784 pairs, VERIF_SEED; all 784 in the thorough tier)" desc="path compression on the longest possible path keeps the partition (compress: node points to the root afterwards; findAndCompress: returns the root, no path gets longer)"
// OB: ob_uf_seq4 tier=thorough unwind=6 timeout=120 params=28,28,28,28 param_limit=300 bounds="4 nodes; 300 of the 614656 sequences of 4 operations (VERIF_SEED)" desc="as ob_uf_seq3, deeper"
// OB: ob_uf_chain_all tier=thorough unwind=6 timeout=120 params=28,28 bounds="worst-case chain then all 784 pairs of operations" desc="as ob_uf_chain, exhaustive"
#include "vf.h"
#include "galois/UnionFind.h"

namespace {
constexpr unsigned N = 4;
struct Node : public galois::UnionFindNode<Node> {
  Node() : galois::UnionFindNode<Node>(const_cast<Node*>(this)) {}
};

unsigned pick() {
  unsigned v = vf_nondet_u8();
  vf_assume(v < N);
  return v;
}

struct World {
  Node n[N];
  unsigned cls[N]; // model: class label of every node

  World() {
    for (unsigned i = 0; i < N; ++i) cls[i] = i;
  }
  unsigned idx(const Node* p) {
    unsigned k = N;
    for (unsigned i = 0; i < N; ++i)
      if (p == &n[i]) k = i;
    VF_CHECKM(k < N, "result points into the node set");
    return k;
  }
  unsigned depth(unsigned i) { // length of the parent chain (bounded: a cycle would exceed N)
    unsigned d = 0;
    Node* p    = &n[i];
    while (!p->isRep()) {
      p = p->get();
      ++d;
      VF_CHECKM(d < N, "parent chain longer than the node count: cycle");
      if (d >= N) break;
    }
    return d;
  }
  void check() {
    unsigned rep[N];
    for (unsigned i = 0; i < N; ++i) {
      Node* r = n[i].find();
      rep[i]  = idx(r);
      VF_CHECKM(r->isRep(), "find returns a representative");
      VF_CHECKM(cls[rep[i]] == cls[i], "the representative is in the node's own class");
      (void)depth(i);
    }
    for (unsigned i = 0; i < N; ++i)
      for (unsigned j = i + 1; j < N; ++j)
        VF_CHECKM((rep[i] == rep[j]) == (cls[i] == cls[j]), "same representative iff same class in the model partition");
  }
  void do_merge(unsigned a, unsigned b) {
    bool same = cls[a] == cls[b];
    Node* r   = n[a].merge(&n[b]);
    VF_CHECKM((r == nullptr) == same, "merge returns null iff both nodes were already in one set");
    if (!same) {
      VF_CHECKM(r->isRep() && (cls[idx(r)] == cls[a] || cls[idx(r)] == cls[b]), "merge returns the surviving representative");
      unsigned from = cls[a], to = cls[b];
      for (unsigned i = 0; i < N; ++i)
        if (cls[i] == from) cls[i] = to;
    }
  }
  void op(unsigned kind, unsigned a, unsigned b) {
    switch (kind) {
    case 0: do_merge(a, b); break;
    case 1: {
      const Node& c = n[a];
      VF_CHECK(c.find() == n[a].find());
      break;
    }
    case 2: {
      Node* before = n[a].find();
      unsigned d0[N];
      for (unsigned i = 0; i < N; ++i) d0[i] = depth(i);
      Node* r = n[a].findAndCompress();
      VF_CHECKM(r == before, "findAndCompress returns the root find() returns");
      for (unsigned i = 0; i < N; ++i) VF_CHECKM(depth(i) <= d0[i], "findAndCompress never lengthens any path");
      break;
    }
    case 3: {
      Node* before = n[a].find();
      n[a].compress();
      VF_CHECKM(n[a].get() == before, "compress makes the node point directly at the root");
      break;
    }
    }
    check();
  }
};

} // namespace

static World gw; // one obligation per process/query: the global starts fresh

// operation code: 0..15 = merge(a,b) with a=code/4, b=code%4; 16..27 = kind 1+(code-16)/4 (find, findAndCompress, compress) on node (code-16)%4
static void coded(World& w, unsigned code) {
  if (code < 16)
    w.op(0, code / 4, code % 4);
  else
    w.op(1 + (code - 16) / 4, (code - 16) % 4, 0);
}

OB(uf_seq3) {
  World& w = gw;
  coded(w, vf_param(0));
  coded(w, vf_param(1));
  coded(w, vf_param(2));
}

OB(uf_seq4) {
  World& w = gw;
  coded(w, vf_param(0));
  coded(w, vf_param(1));
  coded(w, vf_param(2));
  coded(w, vf_param(3));
}

OB(uf_chain) {
  World& w = gw;
  // merge directs the higher address to the lower: 3->2, then 2->1, then 1->0 gives the chain 3->2->1->0
  w.op(0, 3, 2);
  w.op(0, 2, 1);
  w.op(0, 1, 0);
  VF_CHECKM(w.depth(3) == 3, "three merges built the worst-case chain");
  coded(w, vf_param(0));
  coded(w, vf_param(1));
}

OB(uf_chain_all) {
  World& w = gw;
  w.op(0, 3, 2);
  w.op(0, 2, 1);
  w.op(0, 1, 0);
  coded(w, vf_param(0));
  coded(w, vf_param(1));
}
