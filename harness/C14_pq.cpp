// UNIT: id=C14 cxxflags="-DGALOIS_FORCE_STANDALONE"
// ASSUME: GALOIS_FORCE_STANDALONE (the repository's own switch) routes FixedSizeHeap to malloc; the Galois heaps are C09's subject
// ASSUME: Pow_2_BlockHeap's constructor (libgalois/src/Mem.cpp, which does not compile under the switch) is supplied by the harness with the same two-line body
// ASSUME: MinHeap is instantiated with Cont = std::vector<int> (its documented third parameter) for the step obligations; ThreadSafeMinHeap keeps its fixed Pow_2_BlockAllocator vector
// ASSUME: inductive step: the pre-state is ANY vector of n values (n enumerated) satisfying the min-heap order (the invariant every operation is checked to re-establish), values symbolic; spare capacity 0 or 2
// ASSUME: reference model: a multiset; pop()/top() yield a minimum; remove(x) reports whether x was present, removes at least one and (if x is not the minimum) every copy of x -- the header does not say which, other elements are untouched; pop()/top() are called on non-empty heaps only
// ASSUME: multiset equality is checked for a universally quantified probe value: count(p) in the container equals count(p) in the model for every p
// ASSUME: ThreadSafe* containers are driven from one thread (SimpleLock never contended)
// OB: ob_minheap_step quick_limit=24 tier=quick unwind=8 unwindset=g__ZNSt6vectorIiSaIiEE17_M_realloc_insertIJRKiEEEvN9__gnu_cxx17__normal_iteratorIPiS1_EEDpOT_.4:22,g__ZNSt6vectorIiSaIiEE17_M_realloc_insertIJRKiEEEvN9__gnu_cxx17__normal_iteratorIPiS1_EEDpOT_.5:22 timeout=120 params=6,6,2 bounds="MinHeap<int,less,std::vector<int>>: arbitrary heap-ordered pre-state of n=p1 in 0..5 symbolic values, spare capacity 0/2, ONE op of 6 kinds {push, pop, remove(symbolic), top+find(symbolic), clear, push_back/insert aliases}; result, size/empty, heap order and multiset of the post-state" desc="min-heap: one step from an arbitrary heap equals a multiset model"
// OB: ob_minheap_sort tier=quick unwind=20 timeout=120 params=5,2 bounds="MinHeap (p1=0, std::vector) / ThreadSafeMinHeap (p1=1, Pow_2_BlockAllocator) of int: push k=p0 in 0..4 symbolic values then pop all" desc="min-heap: pop order is sorted order and the popped multiset equals the pushed one"
// OB: ob_minheap_range_ctor tier=quick unwind=18 timeout=120 params=5 bounds="MinHeap<int,less,std::vector<int>>(first,last) from k=p0 in 0..4 symbolic values; top() and the pop sequence" desc="min-heap: range constructor yields a heap whose top is the minimum"
// OB: ob_minheap_remove_empty tier=quick unwind=8 timeout=120 params=2 bounds="MinHeap<int,less,std::vector<int>>: remove(x) on an empty heap (p0=0 never used, p0=1 used and cleared)" desc="min-heap: remove on an empty heap returns false"
#include "vf.h"
#include "galois/PriorityQueue.h"
#include "vf_standalone.h"
#include "../src/SimpleLock.cpp"
#include "../src/PtrLock.cpp"

#ifdef GALOIS_FORCE_STANDALONE
galois::runtime::Pow_2_BlockHeap::Pow_2_BlockHeap(void) noexcept : heapTable() { populateTable(); }
#endif

namespace {
typedef galois::MinHeap<int, std::less<int>, std::vector<int>> H;
constexpr unsigned CAP = 8;

unsigned count_in(const int* a, unsigned n, int p) {
  unsigned c = 0;
  for (unsigned j = 0; j < n; ++j) c += a[j] == p;
  return c;
}

// post-state: heap order + multiset equality with the model for a universally quantified probe
void check_heap(H& h, const int* model, unsigned n) {
  VF_CHECK(h.size() == n);
  VF_CHECK(h.empty() == (n == 0));
  int p = (int)vf_nondet_u32();
  unsigned c = 0, k = 0;
  for (auto it = h.begin(); it != h.end(); ++it, ++k) {
    VF_CHECKM(k < n, "traversal yields more elements than the model");
    if (k >= n) return;
    c += *it == p;
    if (k) VF_CHECKM(!(*it < h.container[(k - 1) / 2]), "heap order: parent <= child");
  }
  VF_CHECKM(k == n, "traversal length");
  VF_CHECKM(c == count_in(model, n, p), "multiset of the container equals the model");
  VF_CHECKM(h.find(p) == (c > 0), "find(p) iff p is in the model");
  if (n) {
    int mn = model[0];
    for (unsigned j = 1; j < n; ++j) if (model[j] < mn) mn = model[j];
    VF_CHECKM(h.top() == mn, "top() is the minimum");
  }
}

void arbitrary(H& h, int* model, unsigned n, unsigned slack) {
  if (n + slack) h.reserve(n + slack);
  for (unsigned j = 0; j < n; ++j) {
    int v = (int)vf_nondet_u32();
    if (j) vf_assume(!(v < model[(j - 1) / 2]));
    h.container.push_back(v);
    model[j] = v;
  }
}

void del_at(int* model, unsigned& n, unsigned i) {
  for (unsigned j = i; j + 1 < n; ++j) model[j] = model[j + 1];
  --n;
}
unsigned min_at(const int* model, unsigned n) {
  unsigned m = 0;
  for (unsigned j = 1; j < n; ++j) if (model[j] < model[m]) m = j;
  return m;
}
} // namespace

OB(minheap_step) {
  H h;
  int model[CAP];
  unsigned n = vf_param(1);
  arbitrary(h, model, n, vf_param(2) ? 2 : 0);
  int x = (int)vf_nondet_u32();
  switch (vf_param(0)) {
  case 0:
    h.push(x);
    model[n++] = x;
    break;
  case 1: {
    vf_assume(n > 0);
    unsigned m = min_at(model, n);
    int r = h.pop();
    VF_CHECKM(r == model[m], "pop() returns the minimum");
    del_at(model, n, m);
    break;
  }
  case 2: {
    vf_assume(n > 0);
    unsigned before = count_in(model, n, x);
    bool r = h.remove(x);
    VF_CHECKM(r == (before > 0), "remove(x) reports whether x was present");
    unsigned m = min_at(model, n);
    if (before && model[m] == x && h.size() + 1 == n) {
      del_at(model, n, m); // x was the minimum: exactly one copy removed
    } else if (before) {
      unsigned w = 0; // otherwise every copy is removed
      for (unsigned j = 0; j < n; ++j) if (model[j] != x) model[w++] = model[j];
      n = w;
    }
    break;
  }
  case 3: {
    const H& ch = h;
    VF_CHECK(ch.find(x) == (count_in(model, n, x) > 0));
    if (n) VF_CHECK(ch.top() == model[min_at(model, n)]);
    break;
  }
  case 4:
    h.clear();
    n = 0;
    break;
  case 5: {
    h.push_back(x);
    model[n++] = x;
    int y = (int)vf_nondet_u32();
    h.insert(y);
    model[n++] = y;
    break;
  }
  }
  check_heap(h, model, n);
}

template <typename Heap>
static void sort_check(unsigned k) {
  Heap h;
  int in[CAP], out[CAP];
  VF_CHECK(h.empty() && h.size() == 0);
  for (unsigned j = 0; j < k; ++j) {
    in[j] = (int)vf_nondet_u32();
    h.push(in[j]);
    VF_CHECK(h.size() == j + 1);
    int mn = in[0];
    for (unsigned i = 1; i <= j; ++i) if (in[i] < mn) mn = in[i];
    VF_CHECKM(h.top() == mn, "top() is the minimum of what was pushed");
  }
  for (unsigned j = 0; j < k; ++j) {
    VF_CHECK(!h.empty());
    out[j] = h.pop();
    VF_CHECK(h.size() == k - 1 - j);
    if (j) VF_CHECKM(!(out[j] < out[j - 1]), "pop order is non-decreasing");
  }
  VF_CHECK(h.empty());
  int p = (int)vf_nondet_u32();
  VF_CHECKM(count_in(in, k, p) == count_in(out, k, p), "popped multiset equals pushed multiset");
}

OB(minheap_sort) {
  if (vf_param(1) == 0) sort_check<H>(vf_param(0));
  else sort_check<galois::ThreadSafeMinHeap<int>>(vf_param(0));
}

OB(minheap_range_ctor) {
  unsigned k = vf_param(0);
  int in[CAP];
  for (unsigned j = 0; j < k; ++j) in[j] = (int)vf_nondet_u32();
  H h(in, in + k);
  VF_CHECK(h.size() == k);
  if (k) {
    int mn = in[0];
    for (unsigned i = 1; i < k; ++i) if (in[i] < mn) mn = in[i];
    VF_CHECKM(h.top() == mn, "after MinHeap(first,last) top() is the minimum");
    int prev = h.pop();
    VF_CHECKM(prev == mn, "after MinHeap(first,last) the first pop() is the minimum");
    for (unsigned j = 1; j < k; ++j) {
      int c = h.pop();
      VF_CHECKM(!(c < prev), "after MinHeap(first,last) pop order is non-decreasing");
      prev = c;
    }
  }
  VF_CHECK(h.empty());
}

OB(minheap_remove_empty) {
  H h;
  int x = (int)vf_nondet_u32();
  if (vf_param(0) == 1) {
    h.push((int)vf_nondet_u32());
    h.clear();
  }
  bool r = h.remove(x);
  VF_CHECKM(!r, "remove(x) on an empty heap returns false");
  VF_CHECK(h.empty() && h.size() == 0);
}
