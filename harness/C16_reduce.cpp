// UNIT: id=C16 cxxflags="-DGALOIS_FORCE_STANDALONE -DGALOIS_PSTL_CUTOFF=vf_pstl_cutoff -DGALOIS_PSTL_BLOCK=vf_pstl_block"
// ASSUME: count_if / accumulate / map_reduce / partial_sum / destroy run over the do_all stand-in of C16_env.h: the T modelled pool threads run ONE AFTER ANOTHER, thread t executing the loop of the non-stealing do_all (ChooseDoAllImpl<false>) over the REAL StandardRange::local_begin()/local_end() (block_range by thread id); the REAL GAccumulator / Reducible / PerThreadStorage run underneath (environment of C15_env.h: fake pool object with only maxThreads, 512-byte calloc pages). The thread pool, stealing do_all and the barrier are C03/C05's subject
// ASSUME: find_if runs over the for_each stand-in of C16_env.h: harness FIFO work-list, every item on a solver-chosen pool thread with a REAL galois::UserContext (break flag wired as UserContextAccess::setBreakFlag does); after breakLoop() a solver-chosen number of further items still run (threads that have not seen the flag yet). The ForEach executor / PerSocketChunkFIFO are not run (C01)
// ASSUME: element counts and T are enumerated (vf_param); element values are solver variables. accumulate/map_reduce are called with the identity of the operation as their 'identity' argument (its documented meaning)
// ASSUME: partial_sum: serial cut-off 2 (literal 1024, overridable only under GALOIS_VERIF), numBlocks = getActiveThreads() = T; unsigned 32-bit (modular) sums so that the order of additions is irrelevant
// ASSUME: unwind=32 because PerBackend() resizes its free-list table to 30 entries; every other loop has a concrete trip count <= 7
// OB: ob_count_if tier=quick solver=cadical unwind=32 timeout=120 params=6,3 bounds="count_if over n = 0..5 symbolic bytes (uint8_t*), T = 1..3 (18 queries)" desc="count_if returns the number of elements satisfying the predicate (= std::count_if)"
// OB: ob_accumulate tier=quick solver=cadical unwind=32 timeout=120 params=6,3 bounds="accumulate(first,last,0,plus) and accumulate(first,last,0,bit_xor) over n = 0..5 symbolic uint32 values, T = 1..3" desc="accumulate equals std::accumulate (modular sum; xor fold)"
// OB: ob_map_reduce tier=quick solver=cadical unwind=32 timeout=120 params=6,3 bounds="map_reduce over n = 0..5 symbolic uint32 values, map v -> (v & 0xffff) + 1, reduce = max, identity 0, T = 1..3" desc="map_reduce equals the sequential fold of the mapped values"
// OB: ob_partial_sum tier=quick solver=cadical unwind=32 timeout=120 params=7,3,2 bounds="partial_sum over n = 0..6 symbolic uint32 values, T = numBlocks = 1..3, separate output array or in place (42 queries); cut-off 2, so n >= 2 takes the blocked path incl. blocks that are empty because T*blockSize > n" desc="output[i] = in[0]+..+in[i] (modular) for all i, nothing written past n, returned iterator = d_first + n (= std::partial_sum)"
// OB: ob_find_if tier=quick solver=cadical unwind=32 timeout=180 params=5,2 bounds="find_if over n = 0..4 symbolic bytes, T = 1..2, items on solver-chosen threads, late break observation" desc="the result points to an element of the range that satisfies the predicate whenever one exists, and is last otherwise"
// OB: ob_destroy tier=quick solver=cadical unwind=32 timeout=120 params=6,3 bounds="destroy over n = 0..5 objects with a counting destructor, T = 1..3; scalar overload on ints" desc="every element of the range is destroyed exactly once and no other; the scalar overload does nothing"
#include "C16_env.h"
#include "vf_standalone.h"

namespace {
constexpr unsigned MAXN = 8;

struct Odd {
  bool operator()(uint8_t v) const { return v & 1; }
};

struct Tracked {
  unsigned id;
  static unsigned dtors[MAXN + 2];
  ~Tracked() { dtors[id]++; }
};
unsigned Tracked::dtors[MAXN + 2];
} // namespace

OB(count_if) {
  unsigned n = vf_param(0), T = vf_param(1) + 1;
  vf16::init(T, 2, 2);
  static uint8_t a[MAXN];
  size_t expect = 0;
  vf16::unrolled<MAXN>(n, [&](unsigned i) {
    a[i] = vf_nondet_u8();
    expect += a[i] & 1;
  });
  size_t got = galois::ParallelSTL::count_if(a, a + n, Odd());
  VF_CHECKM(got == expect, "count_if equals the number of elements satisfying the predicate");
}

OB(accumulate) {
  unsigned n = vf_param(0), T = vf_param(1) + 1;
  vf16::init(T, 2, 2);
  static uint32_t a[MAXN];
  uint32_t sum = 0, x = 0;
  vf16::unrolled<MAXN>(n, [&](unsigned i) {
    a[i] = vf_nondet_u32();
    sum += a[i];
    x ^= a[i];
  });
  // the 3-argument overload cannot be instantiated here: its unqualified call accumulate(first, last, identity,
  // std::plus<T>()) is ambiguous with std::accumulate (found by ADL on std::plus) once <numeric> is visible
  uint32_t got = galois::ParallelSTL::accumulate(a, a + n, (uint32_t)0, std::plus<uint32_t>());
  VF_CHECKM(got == sum, "accumulate(first,last,0,plus) equals the sum");
  uint32_t gx = galois::ParallelSTL::accumulate(a, a + n, (uint32_t)0, std::bit_xor<uint32_t>());
  VF_CHECKM(gx == x, "accumulate(first,last,0,op) equals the fold with op");
}

OB(map_reduce) {
  unsigned n = vf_param(0), T = vf_param(1) + 1;
  vf16::init(T, 2, 2);
  static uint32_t a[MAXN];
  uint32_t expect = 0;
  auto mapf       = [](uint32_t v) { return (uint32_t)((v & 0xffff) + 1); };
  vf16::unrolled<MAXN>(n, [&](unsigned i) {
    a[i]       = vf_nondet_u32();
    uint32_t m = mapf(a[i]);
    if (m > expect) expect = m;
  });
  uint32_t got = galois::ParallelSTL::map_reduce(
      a, a + n, mapf, [](uint32_t l, uint32_t r) { return l > r ? l : r; }, (uint32_t)0);
  VF_CHECKM(got == expect, "map_reduce equals the sequential fold of the mapped values");
}

OB(partial_sum) {
  unsigned n = vf_param(0), T = vf_param(1) + 1, inplace = vf_param(2);
  vf16::init(T, 2, 2);
  static uint32_t a[MAXN + 1], out[MAXN + 1], in[MAXN + 1];
  vf16::unrolled<MAXN + 1>(n + 1, [&](unsigned i) { // one guard element past the end
    a[i]   = vf_nondet_u32();
    in[i]  = a[i];
    out[i] = 0xdeadbeef;
  });
  uint32_t* d = inplace ? a : out;
  uint32_t* r = galois::ParallelSTL::partial_sum(a, a + n, d);
  VF_CHECKM(r == d + n, "returned iterator is d_first + n");
  uint32_t run = 0;
  vf16::unrolled<MAXN>(n, [&](unsigned i) {
    run += in[i];
    VF_CHECKM(d[i] == run, "output[i] is the sum of the first i+1 inputs");
    if (!inplace) VF_CHECKM(a[i] == in[i], "input untouched when the output is a separate array");
  });
  VF_CHECKM(d[n] == (inplace ? in[n] : 0xdeadbeef), "nothing is written past the end of the output");
}

OB(find_if) {
  unsigned n = vf_param(0), T = vf_param(1) + 1;
  vf16::init(T, 2, 2);
  static uint8_t a[MAXN];
  bool any = false;
  vf16::unrolled<MAXN>(n, [&](unsigned i) {
    a[i] = vf_nondet_u8();
    any  = any || (a[i] & 1);
  });
  uint8_t* r = galois::ParallelSTL::find_if(a, a + n, Odd());
  if (any) {
    VF_CHECKM(r >= a && r < a + n, "an element satisfying the predicate exists: the result points into the range");
    if (r >= a && r < a + n) VF_CHECKM(*r & 1, "the element found satisfies the predicate");
  } else {
    VF_CHECKM(r == a + n, "no element satisfies the predicate: the result is last");
  }
}

OB(destroy) {
  unsigned n = vf_param(0), T = vf_param(1) + 1;
  vf16::init(T, 2, 2);
  alignas(Tracked) static unsigned char buf[sizeof(Tracked) * (MAXN + 2)];
  Tracked* t = reinterpret_cast<Tracked*>(buf);
  vf16::unrolled<MAXN + 2>(n + 2, [&](unsigned i) {
    t[i].id           = i;
    Tracked::dtors[i] = 0;
  });
  // the range is [1, n+1): elements 0 and n+1 are guards
  galois::ParallelSTL::destroy(t + 1, t + 1 + n);
  VF_CHECKM(Tracked::dtors[0] == 0 && Tracked::dtors[n + 1] == 0, "elements outside the range are not destroyed");
  vf16::unrolled<MAXN>(n, [&](unsigned i) { VF_CHECKM(Tracked::dtors[i + 1] == 1, "every element of the range is destroyed exactly once"); });
  static int s[4] = {1, 2, 3, 4};
  galois::ParallelSTL::destroy(s, s + 4);
  VF_CHECKM(s[0] == 1 && s[1] == 2 && s[2] == 3 && s[3] == 4, "scalar overload does nothing");
}
