// UNIT: id=C03 spurious=1 checks=min threads=3 hb=1 vf_maxloc=6 vf_maxpay=6 plain=invisible validate=0 validate_reason="concurrent unit: the schedule is a solver variable of the sequentialised step machine"
// ASSUME: threads are sequentialised by ir2c: every atomic access is a scheduling point; plain accesses are glued (wbegin/wend of a mailbox are written by the parent before wakeup() and read by the owner after wait(); the ghost clocks check exactly that ordering through the payload variables)
// ASSUME: CBMC's per-dereference pointer checks are off in this unit (checks=min: they multiply the formula beyond memory); harness assertions, deadlock probe, step-bound and unwinding assertions are on
// ASSUME: values follow SC interleavings; ghost vector clocks honour the memory orders in the IR
// ASSUME: the pool object is a harness fake (signals[] point to each modelled thread's real thread_local my_box; mi.maxThreads=3); each obligation runs ONE half of a parallel region with the mailboxes preset to the state the other half leaves (join half: wbegin/wend as cascade() assigned them, done = 0 as wakeup() stored it; fork half: thread 0's range as runInternal sets it); decascade(), cascade(), per_signal::wait/wakeup are the real code; 'fast mode' (burnPower) only
// OB: ob_join_T2 tier=quick unwind=40 timeout=900 solver=cadical mem_gb=8 bounds="JOIN half of a region with num=2: thread 1 writes plain data then runs decascade(); thread 0 runs decascade() then reads the data; 24 steps" desc="the master leaves decascade() only after the worker has entered its own (done = 1), and everything the worker wrote before is visible to the master afterwards: the done flag is a release/acquire edge under the memory orders in the code; no deadlock"
// OB: ob_join_T3 tier=quick unwind=50 timeout=900 solver=cadical mem_gb=8 bounds="JOIN half with num=3: thread 0 waits for threads 1 and 2 (both its children in the wake-up tree); 34 steps" desc="as ob_join_T2 with two children"
// ASSUME: std::mutex / std::condition_variable are contract models (rt/vf_externs.h); ONE spurious return from condition_variable::wait per execution is allowed (unit option spurious=1)
// OB: ob_fork_slow_T2 tier=thorough unwind=40 timeout=900 solver=cadical mem_gb=14 bounds="FORK half with num=2 in the mutex/condition-variable mode: thread 0 writes plain data then runs cascade(false); thread 1 runs wait(false) then reads the data; one spurious wake-up allowed; 24 steps" desc="a parked pool thread leaves wait() only after its parent woke it (done = 0), also across a spurious return of the condition variable, and then sees everything the master wrote before the region; no deadlock"
// OB: ob_fork_T2 tier=quick unwind=40 timeout=900 solver=cadical mem_gb=8 bounds="FORK half with num=2: thread 0 writes plain data then runs cascade(true); thread 1 runs wait(true) then reads the data and its mailbox range; 24 steps" desc="the woken thread sees everything the master wrote before the region (fastRelease is a release/acquire edge) and the sub-range its parent assigned; no deadlock"
#include "vf.h"
#include "vf_nodie.h"
#include <condition_variable>
#include <mutex>
#include "galois/substrate/ThreadPool.h"

// the whole real source file: only what the thread bodies reach (per_signal::wait/wakeup, cascade, decascade) is translated
#include "../src/ThreadPool.cpp"

namespace galois {
namespace substrate {
// a TYPED, never-constructed pool object (a raw byte buffer would make every pointer stored in it - e.g. the
// signals vector - a byte-level value that CBMC cannot constant-propagate)
union VfFakePool {
  ThreadPool tp;
  VfFakePool() {}
  ~VfFakePool() {}
};
static VfFakePool vf_fake_pool;
static ThreadPool& pool() { return vf_fake_pool.tp; }
} // namespace substrate
} // namespace galois

using namespace galois::substrate;

extern "C" void vf_sched_join(unsigned n, unsigned steps);
extern "C" void vf_sched_fork(unsigned n, unsigned steps);
extern "C" void vf_sched_forkslow(unsigned n, unsigned steps);

namespace {
unsigned vfg_num;
int vfg_in;      // plain payload: written by the master before the region
int vfg_out[3];  // plain payload: written by each worker inside the region
unsigned vfg_left[3]; // ghost: thread has entered decascade()'s final store (finished its part)

inline void preset(unsigned tid, unsigned wb, unsigned we, int done) {
  auto& me       = ThreadPool::my_box;
  me.topo.tid    = tid;
  me.wbegin      = wb;
  me.wend        = we;
  me.done        = done;
  me.fastRelease = 0;
  pool().signals[tid] = &me;
  vf_hb_register(&me.done);
  vf_hb_register(&me.fastRelease);
}
} // namespace

// ---- join half.  Mailboxes as cascade() leaves them for num = vfg_num: thread 0 [1,num), thread 1 [2,mid), thread 2 [3,3)
extern "C" void vf_tinit_join(unsigned tid) {
  if (tid == 0)
    preset(0, 1, vfg_num, 0);
  else if (tid == 1)
    preset(1, 2, 2, 0);
  else
    preset(2, 3, 3, 0);
}
extern "C" void vf_thread_join(unsigned tid) {
  ThreadPool& tp = pool();
  if (tid == 0) {
    tp.decascade();
    for (unsigned u = 1; u < vfg_num; ++u) {
      vf_assert(vfg_left[u] == 1, "the master left decascade() before a thread it woke had finished");
      vf_hb_read(&vfg_out[u]);
      vf_assert(vfg_out[u] == (int)(10 * u), "master does not see data written by a worker in the region");
    }
  } else {
    vf_hb_write(&vfg_out[tid]);
    vfg_out[tid]  = (int)(10 * tid);
    vfg_left[tid] = 1;
    tp.decascade();
  }
}
OB(join_T2) {
  ThreadPool& tp   = pool();
  tp.mi.maxThreads = 3;
  new (&tp.signals) std::vector<ThreadPool::per_signal*>();
  tp.signals.resize(3);
  vfg_num = 2;
  vf_sched_join(2, 24);
}
OB(join_T3) {
  ThreadPool& tp   = pool();
  tp.mi.maxThreads = 3;
  new (&tp.signals) std::vector<ThreadPool::per_signal*>();
  tp.signals.resize(3);
  vfg_num = 3;
  vf_sched_join(3, 34);
}

// ---- fork half
extern "C" void vf_tinit_fork(unsigned tid) {
  if (tid == 0)
    preset(0, 1, 2, 1);
  else
    preset(tid, 0, 0, 1); // state after initThread: done = 1, range empty
}
extern "C" void vf_thread_fork(unsigned tid) {
  ThreadPool& tp = pool();
  auto& me       = ThreadPool::my_box;
  if (tid == 0) {
    vf_hb_write(&vfg_in);
    vfg_in = 7;
    tp.cascade(true);
  } else {
    me.wait(true);
    vf_hb_read(&vfg_in);
    vf_assert(vfg_in == 7, "the woken thread does not see data written by the master before the region");
    vf_assert(me.wbegin == 2 && me.wend == 2, "the woken thread's mailbox does not hold the sub-range its parent assigned");
    vf_assert(me.done.load(std::memory_order_relaxed) == 0, "a woken thread must be marked not-done before it is released");
  }
}
OB(fork_T2) {
  ThreadPool& tp   = pool();
  tp.mi.maxThreads = 3;
  new (&tp.signals) std::vector<ThreadPool::per_signal*>();
  tp.signals.resize(3);
  vf_sched_fork(2, 24);
}

// ---- fork half, mutex / condition-variable mode
extern "C" void vf_tinit_forkslow(unsigned tid) {
  if (tid == 0)
    preset(0, 1, 2, 1);
  else
    preset(tid, 0, 0, 1);
}
extern "C" void vf_thread_forkslow(unsigned tid) {
  ThreadPool& tp = pool();
  auto& me       = ThreadPool::my_box;
  if (tid == 0) {
    vf_hb_write(&vfg_in);
    vfg_in     = 7;
    vfg_left[0] = 1; // ghost: the master has reached the wake-up
    tp.cascade(false);
  } else {
    me.wait(false);
    vf_assert(vfg_left[0] == 1, "a parked pool thread left wait() before its parent woke it");
    vf_hb_read(&vfg_in);
    vf_assert(vfg_in == 7, "the woken thread does not see data written by the master before the region");
    vf_assert(me.wbegin == 2 && me.wend == 2, "the woken thread's mailbox does not hold the sub-range its parent assigned");
  }
}
OB(fork_slow_T2) {
  ThreadPool& tp   = pool();
  tp.mi.maxThreads = 3;
  new (&tp.signals) std::vector<ThreadPool::per_signal*>();
  tp.signals.resize(3);
  vf_sched_forkslow(2, 24);
}
