// C01_ptrlock_model.h -- sequential stand-in for galois/substrate/PtrLock.h (include BEFORE any Galois header).
//
// The real PtrLock<T> packs the pointer and the lock flag into one std::atomic<uintptr_t> ((uintptr_t)p | 1,
// value & ~1).  CBMC cannot constant-propagate a pointer through integer or/and, so every chunk pointer that has been
// through a ConExtLinkedQueue/Stack becomes a symbolic address and a 4-operation worklist history costs minutes and
// gigabytes.  The bit packing itself is the subject of C06 (locks) and of the concurrent chunk hand-off obligations;
// the ONE-worker obligations of C01/C08 keep the pointer and the flag in two fields with the identical interface
// (the repository's own DummyPtrLock does the same for non-concurrent builds) and additionally CHECK the lock
// discipline that the packed representation only assert()s: no lock() while locked (a single worker would spin
// forever), no unlock*() while unlocked, CAS only succeeds on an unlocked word, stealing_CAS only on a locked one.
#pragma once
#ifdef GALOIS_SUBSTRATE_PTRLOCK_H
#error "C01_ptrlock_model.h must be included before galois/substrate/PtrLock.h"
#endif
#define GALOIS_SUBSTRATE_PTRLOCK_H
#include <cstdint>
#include <atomic>
#include "vf.h"
#include "galois/config.h"
#include "galois/substrate/CompilerSpecific.h"

namespace galois {
namespace substrate {

template <typename T>
class PtrLock {
  T* _ptr;
  bool _locked;

public:
  constexpr PtrLock() : _ptr(nullptr), _locked(false) {}
  PtrLock(const PtrLock& p) : _ptr(p._ptr), _locked(p._locked) {}
  PtrLock& operator=(const PtrLock& p) {
    _ptr    = p._ptr;
    _locked = p._locked;
    return *this;
  }

  inline void lock() {
    vf_assert(!_locked, "PtrLock::lock() on a word this single worker already holds locked (would spin forever)");
    _locked = true;
  }
  inline void unlock() {
    vf_assert(_locked, "PtrLock::unlock() on an unlocked word");
    _locked = false;
  }
  inline void unlock_and_clear() {
    vf_assert(_locked, "PtrLock::unlock_and_clear() on an unlocked word");
    _ptr    = nullptr;
    _locked = false;
  }
  inline void unlock_and_set(T* val) {
    vf_assert(_locked, "PtrLock::unlock_and_set() on an unlocked word");
    _ptr    = val;
    _locked = false;
  }
  inline T* getValue() const { return _ptr; }
  inline void setValue(T* val) { _ptr = val; }
  inline bool try_lock() {
    if (_locked) return false;
    _locked = true;
    return true;
  }
  inline bool is_locked() const { return _locked; }
  //! CAS only works on unlocked values
  inline bool CAS(T* oldval, T* newval) {
    if (_locked || _ptr != oldval) return false;
    _ptr = newval;
    return true;
  }
  //! CAS that works on locked values
  inline bool stealing_CAS(T* oldval, T* newval) {
    if (!_locked || _ptr != oldval) return false;
    _ptr = newval;
    return true;
  }
};

template <typename T>
class DummyPtrLock {
  T* _lock;

public:
  DummyPtrLock() : _lock() {}
  inline void lock() {}
  inline void unlock() {}
  inline void unlock_and_clear() { _lock = 0; }
  inline void unlock_and_set(T* val) { _lock = val; }
  inline T* getValue() const { return _lock; }
  inline void setValue(T* val) { _lock = val; }
  inline bool try_lock() const { return true; }
  inline bool is_locked() const { return false; }
  inline bool CAS(T* oldval, T* newval) {
    if (_lock == oldval) {
      _lock = newval;
      return true;
    }
    return false;
  }
  inline bool stealing_CAS(T* oldval, T* newval) { return CAS(oldval, newval); }
};

} // end namespace substrate
} // end namespace galois
