// UNIT: id=C06 threads=3 hb=1 vf_maxloc=2 vf_maxpay=2 validate=0 validate_reason="concurrent unit: the schedule is a solver variable of the sequentialised step machine; native runs only smoke-test the translated machine"
// ASSUME: threads are sequentialised by ir2c: every atomic/volatile/shared plain access is a scheduling point; a spin iteration that reaches asm(pause) is pruned in run mode and counted as 'blocked' in the deadlock probe
// ASSUME: values follow SC interleavings; the ghost vector clocks honour the memory orders found in the IR (release sequences, fences per C++20)
// ASSUME: compare_exchange_weak never fails spuriously
// OB: ob_simplelock_T2 tier=quick unwind=30 timeout=900 solver=cadical bounds="SimpleLock: T=2 threads x 2 acquisitions each via lock() (slow path included), 26 scheduler steps" desc="mutual exclusion, release->acquire is happens-before for a plain vfg_payload, no deadlock"
// OB: ob_simplelock_try_T2 tier=quick unwind=30 timeout=900 solver=cadical bounds="SimpleLock: T=2, thread 0 lock(), thread 1 try_lock() loop of <=2 attempts" desc="try_lock never admits a second holder and never blocks"
// OB: ob_simplelock_asym_T2 tier=quick unwind=36 timeout=900 solver=cadical bounds="SimpleLock: T=2, thread 0 one lock(), thread 1 three lock()s (a slow-path waiter can lose a compare-exchange and then meet a re-acquired lock), 30 scheduler steps" desc="mutual exclusion, release->acquire is happens-before, no deadlock"
// OB: ob_simplelock_T3 tier=attic unwind=40 timeout=5400 solver=cadical bounds="SimpleLock: T=3 x 2 acquisitions, 36 steps" desc="mutual exclusion + HB, three threads"
#include "vf.h"
#include "galois/substrate/SimpleLock.h"
#include "../src/SimpleLock.cpp"

extern "C" void vf_sched_simplelock(unsigned n, unsigned steps);
extern "C" void vf_sched_trylock(unsigned n, unsigned steps);
extern "C" void vf_sched_asym(unsigned n, unsigned steps);

namespace {
galois::substrate::SimpleLock L;
int vfg_payload;    // plain data protected by L; race-checked by the ghost clocks (ghost-named: accesses are not scheduling points)
int vfg_holders;    // ghost: number of threads inside the critical section
int vfg_entries;    // ghost: completed critical sections

inline void critical(unsigned tid) {
  ++vfg_holders;
  vf_assert(vfg_holders == 1, "mutual exclusion: two holders inside the critical section");
  vf_hb_write(&vfg_payload);
  vfg_payload = (int)tid;
  vf_yield(); // let the other threads run while we are inside
  vf_hb_read(&vfg_payload);
  vf_assert(vfg_payload == (int)tid, "data written under the lock was overwritten while the lock was held");
  --vfg_holders;
  ++vfg_entries;
}
} // namespace

extern "C" void vf_thread_simplelock(unsigned tid) {
  for (unsigned k = 0; k < 2; ++k) {
    L.lock();
    critical(tid);
    L.unlock();
  }
}

extern "C" void vf_thread_asym(unsigned tid) {
  for (unsigned k = 0; k < (tid == 0 ? 1u : 3u); ++k) {
    L.lock();
    critical(tid);
    L.unlock();
  }
}

extern "C" void vf_thread_trylock(unsigned tid) {
  if (tid == 0) {
    L.lock();
    critical(tid);
    L.unlock();
  } else {
    for (unsigned k = 0; k < 2; ++k) {
      if (L.try_lock()) {
        critical(tid);
        L.unlock();
      }
    }
  }
}

OB(simplelock_T2) {
  vf_hb_register(&L);
  vf_sched_simplelock(2, 26);
  VF_CHECKM(vfg_entries == 4, "every requester was admitted");
  VF_CHECKM(!L.is_locked(), "lock free at the end");
}
OB(simplelock_asym_T2) {
  vf_hb_register(&L);
  vf_sched_asym(2, 30);
  VF_CHECKM(vfg_entries == 4, "every requester was admitted");
  VF_CHECKM(!L.is_locked(), "lock free at the end");
}
OB(simplelock_T3) {
  vf_hb_register(&L);
  vf_sched_simplelock(3, 36);
  VF_CHECK(vfg_entries == 6);
  VF_CHECK(!L.is_locked());
}
OB(simplelock_try_T2) {
  vf_hb_register(&L);
  vf_sched_trylock(2, 26);
  VF_CHECK(vfg_entries >= 1 && vfg_entries <= 3);
  VF_CHECK(!L.is_locked());
}
