// UNIT: id=C11 cxxflags="-ffunction-sections -fdata-sections" ldflags="-Wl,--gc-sections"
// ASSUME: same environment as C11_csr: one modelled thread (do_all sequential, on_each once), enumerated out-index with symbolic destinations/data, FileGraph::fromArrays input with mmap as a heap block, no runtime context installed
// ASSUME: LargeArray blocks here are PAGE-ROUNDED like the real allocator, with the 2 MB huge page scaled down to 128 bytes (0 bytes -> nullptr): an access is flagged iff it leaves the page-rounded block; every access legal in this model is legal with 2 MB pages
// ASSUME: one solver query covers a group of 5 consecutive out-index arrays
// OB: ob_inline_enum tier=quick unwind=14 unwindfn=vf_byte_:26 timeout=300 params=7 bounds="LC_InlineEdge_Graph<int,uint32_t>: 35 out-index arrays (nodes<=3, edges<=3); destinations, data symbolic" desc="allocateFrom+constructFrom(FileGraph,0,1): node iteration yields numNodes nodes; node k's edges are exactly the input's, in file order, destination = k'-th node handle, data equal"
// OB: ob_inline_enum_void tier=thorough unwind=14 unwindfn=vf_byte_:26 timeout=300 params=7 bounds="LC_InlineEdge_Graph<int,void>: 35 out-index arrays (nodes<=3, edges<=3); destinations, data symbolic" desc="allocateFrom+constructFrom(FileGraph,0,1): node iteration yields numNodes nodes; node k's edges are exactly the input's, in file order, destination = k'-th node handle, data equal"
// OB: ob_inline_enum_e4 tier=thorough unwind=14 unwindfn=vf_byte_:26 timeout=300 params=5,2 bounds="the 21 out-index arrays with 4 edges" desc="LC_InlineEdge_Graph presents the input (4 edges)"
// OB: ob_linear_enum tier=quick unwind=14 unwindfn=vf_byte_:26 timeout=300 params=7 bounds="LC_Linear_Graph<int,uint32_t>: 35 out-index arrays (edges<=3)" desc="readGraph(FileGraph): nodes and per-node edges are exactly the input's, in file order; every access stays inside the (page-rounded) node/edge buffer"
// OB: ob_linear_enum_void tier=thorough unwind=14 unwindfn=vf_byte_:26 timeout=300 params=7 bounds="LC_Linear_Graph<int,void>: 35 out-index arrays (edges<=3)" desc="readGraph(FileGraph): nodes and per-node edges are exactly the input's, in file order; every access stays inside the (page-rounded) node/edge buffer"
// OB: ob_linear_enum_e4 tier=thorough unwind=14 unwindfn=vf_byte_:26 timeout=300 params=5,2 bounds="the 21 out-index arrays with 4 edges" desc="LC_Linear_Graph presents the input (4 edges)"
// OB: ob_linear_enum_t2 tier=quick unwind=14 unwindfn=vf_byte_:26 timeout=300 params=7,2 bounds="LC_Linear_Graph<int,uint32_t> built by TWO constructing threads (allocateFrom, then constructNodesFrom(tid,2) for both, then constructEdgesFrom(tid,2) for both, either thread first): 35 out-index arrays (edges<=3)" desc="the two threads' node/edge blocks do not overlap and the graph presents exactly the input"
// OB: ob_inline_enum_t2 tier=quick unwind=14 unwindfn=vf_byte_:26 timeout=300 params=7,2 bounds="LC_InlineEdge_Graph<int,uint32_t> built by TWO constructing threads (constructFrom(tid,2), either thread first): 35 out-index arrays (edges<=3)" desc="the graph presents exactly the input"
// OB: ob_inout_sym tier=quick unwind=14 unwindfn=vf_byte_:26 timeout=300 params=7 bounds="LC_InOut_Graph<LC_CSR_Graph<int,uint32_t>> read from ONE file (symmetric mode): 35 out-index arrays (edges<=3)" desc="out-edges are the input; the in-edge view is the same edge list (in_edge_begin/in_edge_end/getInEdgeDst/getInEdgeData)"
// OB: ob_inout_asym tier=quick unwind=14 unwindfn=vf_byte_:26 timeout=300 params=7 bounds="LC_InOut_Graph<LC_CSR_Graph<int,uint32_t>> read from TWO files (graph + user-supplied transpose): 35 out-index arrays for the graph; the second file has the same node count and 2 edges split 1+1 between the first and the last node, symbolic destinations/data" desc="out-edges present file 1, in-edges (in_edge_begin/in_edge_end/getInEdgeDst/getInEdgeData) present file 2 exactly, in file order"
// OB: ob_inout_asym_all tier=thorough unwind=14 unwindfn=vf_byte_:26 timeout=300 params=7,3 bounds="LC_InOut_Graph<LC_CSR_Graph<int,uint32_t>> read from TWO files (graph + user-supplied transpose): 35 out-index arrays for the graph; the second file is one of 3 fixed shapes with the same node count, symbolic destinations/data" desc="out-edges present file 1, in-edges (in_edge_begin/in_edge_end/getInEdgeDst/getInEdgeData) present file 2 exactly, in file order"
#define VF_C11_PAGE 128
#include "C11_common.h"
#include "galois/graphs/LC_CSR_Graph.h"
#include "galois/graphs/LC_InlineEdge_Graph.h"
#include "galois/graphs/LC_Linear_Graph.h"
#include "galois/graphs/LC_InOut_Graph.h"
#include "galois/graphs/ReadGraph.h"

using galois::MethodFlag;
typedef galois::graphs::LC_InlineEdge_Graph<int, uint32_t> InlineW;
typedef galois::graphs::LC_InlineEdge_Graph<int, void> InlineV;
typedef galois::graphs::LC_Linear_Graph<int, uint32_t> LinearW;
typedef galois::graphs::LC_Linear_Graph<int, void> LinearV;
typedef galois::graphs::LC_InOut_Graph<galois::graphs::LC_CSR_Graph<int, uint32_t>> InOutW;

namespace {
constexpr unsigned E4 = 35;
template <typename G>
constexpr bool has_data = !std::is_void<typename G::edge_data_type>::value;

// galois::graphs::readGraph(LC_InlineEdge_Graph&, FileGraph&) is ill-formed (ReadGraph.h passes a 4th argument
// readUnweighted that LC_InlineEdge_Graph::constructFrom does not take): its two steps are called directly
template <typename N, typename E>
void read_into(galois::graphs::LC_InlineEdge_Graph<N, E>& g, FileGraph& f) {
  g.allocateFrom(f);
  g.constructFrom(f, 0, 1);
}
template <typename G>
void read_into(G& g, FileGraph& f) {
  galois::graphs::readGraph(g, f);
}

// two constructing threads, as readGraph's on_each phases run them (each phase completes before the next starts);
// the two bodies of a phase write disjoint parts of the graph, so they are run one after the other in either order
// (first = which thread id goes first); finer interleavings of the two bodies are not modelled
template <typename N, typename E>
void read_into2(galois::graphs::LC_InlineEdge_Graph<N, E>& g, FileGraph& f, unsigned first) {
  g.allocateFrom(f);
  g.constructFrom(f, first, 2);
  g.constructFrom(f, 1 - first, 2);
}
template <typename N, typename E>
void read_into2(galois::graphs::LC_Linear_Graph<N, E>& g, FileGraph& f, unsigned first) {
  typename galois::graphs::LC_Linear_Graph<N, E>::ReadGraphAuxData aux;
  g.allocateFrom(f, aux);
  g.constructNodesFrom(f, first, 2, aux);
  g.constructNodesFrom(f, 1 - first, 2, aux);
  g.constructEdgesFrom(f, first, 2, aux);
  g.constructEdgesFrom(f, 1 - first, 2, aux);
}

// pointer-handle graphs: the k-th node of the iteration is input node k
template <typename G>
NOINL void enum_ptr(unsigned shape, unsigned threads = 1, unsigned first = 0) {
  Model m;
  make_model(m, shape);
  FileGraph& f = build_file(m, has_data<G>);
  G& g         = *new G;
  if (threads == 2)
    read_into2(g, f, first);
  else
    read_into(g, f);
  VF_CHECK(g.size() == m.n);
  VF_CHECK(g.sizeEdges() == m.e);
  typename G::GraphNode node[MAXN + 1] = {};
  unsigned cnt = 0;
  auto it = g.begin();
  for (unsigned k = 0; k < m.n; ++k) {
    VF_CHECKM(it != g.end(), "node iteration ends early");
    node[k] = *it;
    ++it;
  }
  VF_CHECKM(it == g.end(), "node iteration yields more than numNodes nodes");
  for (unsigned k = 0; k < m.n; ++k)
    for (unsigned j = 0; j < k; ++j) VF_CHECKM(node[j] != node[k], "node iteration yields a node twice");
  for (unsigned k = 0; k < m.n; ++k) {
    auto eb = g.edge_begin(node[k], MethodFlag::UNPROTECTED);
    auto ee = g.edge_end(node[k], MethodFlag::UNPROTECTED);
    unsigned deg = m.idx[k] - m.begin(k);
    VF_CHECKM((size_t)(ee - eb) == deg, "number of edges of the node differs from the input");
    for (unsigned j = 0; j < deg; ++j) {
      unsigned x = m.begin(k) + j;
      unsigned d = m.dst[x] < MAXN ? m.dst[x] : MAXN;
      VF_CHECKM(g.getEdgeDst(eb + j) == node[d], "edge destination differs");
      if constexpr (has_data<G>) VF_CHECKM(g.getEdgeData(eb + j) == m.data[x], "edge data differs");
    }
  }
}

NOINL void inout_sym(unsigned shape) {
  Model m;
  make_model(m, shape);
  FileGraph& f = build_file(m, true);
  InOutW& g    = *new InOutW;
  galois::graphs::readGraph(g, f);
  VF_CHECK(g.size() == m.n && g.sizeEdges() == m.e);
  for (unsigned k = 0; k < m.n; ++k) {
    auto ob = g.edge_begin(k, MethodFlag::UNPROTECTED), oe = g.edge_end(k, MethodFlag::UNPROTECTED);
    VF_CHECK(*ob == m.begin(k) && *oe == m.idx[k]);
    auto ib = g.in_edge_begin(k, MethodFlag::UNPROTECTED), ie = g.in_edge_end(k, MethodFlag::UNPROTECTED);
    unsigned deg = m.idx[k] - m.begin(k);
    VF_CHECKM((size_t)(ie - ib) == deg, "symmetric mode: in-degree = out-degree");
    for (unsigned j = 0; j < deg; ++j) {
      unsigned x = m.begin(k) + j;
      VF_CHECKM(g.getEdgeDst(ob + j) == m.dst[x] && g.getEdgeData(ob + j) == m.data[x], "out-edge differs");
      VF_CHECKM(g.getInEdgeDst(ib + j) == m.dst[x] && g.getInEdgeData(ib + j) == m.data[x], "in-edge differs from the out-edge");
    }
  }
}

// second file: fixed shapes per node count (index t): all edges on node 0 / spread / all on the last node
NOINL void inout_asym(unsigned shape, unsigned t) {
  Model m;
  make_model(m, shape);
  Model r;
  r.n = m.n;
  r.e = m.n == 0 ? 0 : 2;
  for (unsigned i = 0; i < MAXN; ++i) r.idx[i] = i + 1 >= m.n ? r.e : t == 0 ? 2 : t == 1 ? 1 : 0;
  r.idx[MAXN] = r.e;
  for (unsigned i = 0; i <= MAXE; ++i) {
    r.dst[i] = vf_nondet_u8();
    if (i < r.e) vf_assume(r.dst[i] < r.n);
    r.data[i] = vf_nondet_u32();
  }
  FileGraph& f1 = build_file(m, true);
  FileGraph& f2 = build_file(r, true);
  InOutW& g     = *new InOutW;
  galois::graphs::readGraph(g, f1, f2);
  VF_CHECK(g.size() == m.n && g.sizeEdges() == m.e);
  for (unsigned k = 0; k < m.n; ++k) {
    auto ob = g.edge_begin(k, MethodFlag::UNPROTECTED), oe = g.edge_end(k, MethodFlag::UNPROTECTED);
    VF_CHECK(*ob == m.begin(k) && *oe == m.idx[k]);
    for (unsigned x = m.begin(k); x < m.idx[k]; ++x)
      VF_CHECKM(g.getEdgeDst(InOutW::edge_iterator(x)) == m.dst[x] && g.getEdgeData(InOutW::edge_iterator(x)) == m.data[x], "out-edge differs");
    auto ib = g.in_edge_begin(k, MethodFlag::UNPROTECTED), ie = g.in_edge_end(k, MethodFlag::UNPROTECTED);
    unsigned deg = r.idx[k] - r.begin(k);
    VF_CHECKM((size_t)(ie - ib) == deg, "in-degree differs from the transpose file");
    for (unsigned j = 0; j < deg; ++j) {
      unsigned x = r.begin(k) + j;
      VF_CHECKM(g.getInEdgeDst(ib + j) == r.dst[x], "in-edge source differs from the transpose file");
      VF_CHECKM(g.getInEdgeData(ib + j) == r.data[x], "in-edge data differs from the transpose file");
    }
  }
}
} // namespace

#define BY_TYPE(fn, A, B) (vf_param(1) == 0 ? fn<A>(s) : fn<B>(s))
OB(inline_enum_t2) { for_group(0, E4, [](unsigned s) { enum_ptr<InlineW>(s, 2, vf_param(1)); }); }
OB(linear_enum_t2) { for_group(0, E4, [](unsigned s) { enum_ptr<LinearW>(s, 2, vf_param(1)); }); }
OB(inline_enum) { for_group(0, E4, [](unsigned s) { enum_ptr<InlineW>(s); }); }
OB(inline_enum_void) { for_group(0, E4, [](unsigned s) { enum_ptr<InlineV>(s); }); }
OB(inline_enum_e4) { for_group(E4, 56, [](unsigned s) { BY_TYPE(enum_ptr, InlineW, InlineV); }); }
OB(linear_enum) { for_group(0, E4, [](unsigned s) { enum_ptr<LinearW>(s); }); }
OB(linear_enum_void) { for_group(0, E4, [](unsigned s) { enum_ptr<LinearV>(s); }); }
OB(linear_enum_e4) { for_group(E4, 56, [](unsigned s) { BY_TYPE(enum_ptr, LinearW, LinearV); }); }
OB(inout_sym) { for_group(0, E4, [](unsigned s) { inout_sym(s); }); }
OB(inout_asym) { for_group(0, E4, [](unsigned s) { inout_asym(s, 1); }); }
OB(inout_asym_all) { for_group(0, E4, [](unsigned s) { inout_asym(s, vf_param(1)); }); }
