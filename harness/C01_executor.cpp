// UNIT: id=C01 cxxflags="-DGALOIS_FORCE_STANDALONE -DVF_PTS_BYTES=512"
// ASSUME: environment C01_env.h (fake ThreadPool object, ONE thread, real PerThreadStorage.cpp / SimpleLock.cpp / Barrier_Counting.cpp; page allocator = 512-byte calloc blocks; runtime::getBarrier = one real CountingBarrier; GALOIS_DIE / GALOIS_ASSERT keep the fatal exit and drop the iostream text); real Context.cpp and Termination.cpp are included; the system termination detector is a real LocalTerminationDetection installed with setTermDetect as SharedMem does
// ASSUME: substrate::PtrLock<T> is replaced by C01_ptrlock_model.h (unavoidable: pointer through (uintptr_t)p|1 is not constant-propagated by CBMC); it serves both the chunk queues and Lockable::owner
// ASSUME: SystemHeap's constructor/destructor (Mem.cpp) and the page pool (PagePool.cpp: pagePoolAlloc/Free/Size) are harness stubs: the per-iteration allocator object is constructed and cleared but the operator never allocates from it (allocator behaviour is C09)
// ASSUME: the loop has no loopname, hence LoopStatistics<false> and PerThreadTimer<false> (statistics/reporting are not part of the property)
// ASSUME: the executor pieces are driven by hand exactly as go<couldAbort=true>() does for one iteration: ThreadLocalData on the stack, setThreadContext(&tld.ctx), runQueue<1>(tld, wl) (= setjmp + pop + doProcess, longjmp -> abortIteration); the conflicting lockable is owned by a second SimpleRuntimeContext that stands for another thread's iteration
// ASSUME: setjmp/longjmp are modelled by the translator as return-propagation to the frame that called _setjmp
// OB: ob_exec_step tier=quick solver=cadical unwind=32 timeout=600 cbmc="--max-field-sensitivity-array-size 600" params=2,5 bounds="ForEachExecutor<ChunkFIFO<2>, Op, Args> with conflict detection: worklist holds 2 symbolic items; ONE iteration whose operator pushes k = 0 or 2 symbolic children (k = 1 is ob_exec_retry) and then {commits; acquires a free lockable and commits; calls ctx.abort(); acquires a free lockable, pushes, then hits a lockable owned by another context (signalConflict -> longjmp); acquires nothing and hits the owned lockable}" desc="commit: the worklist holds exactly the other initial item plus the k children, the push buffer is empty, the abort queue is empty, no lockable is still owned by the iteration; abort/conflict: the worklist holds exactly the other initial item (no child became work), the abort queue holds exactly the aborted item with retries 1, the push buffer is empty, every lockable acquired by the attempt is released and the foreign lockable still belongs to its owner; the operator ran exactly once"
// OB: ob_exec_step_k1 tier=thorough solver=cadical unwind=32 timeout=600 cbmc="--max-field-sensitivity-array-size 600" params=5 bounds="as ob_exec_step with k = 1 child" desc="commit/abort step of the executor, k = 1"
// OB: ob_exec_retry tier=quick solver=cadical unwind=32 timeout=600 cbmc="--max-field-sensitivity-array-size 600" params=2 bounds="as ob_exec_step with k = 1 and a voluntary abort, then runQueue<1> on the abort queue (what handleAborts does) with the operator aborting again | committing" desc="a retried item that aborts again returns to the abort queue with retries 2 and nothing else changes; a retried item that commits leaves the abort queue empty and its child becomes work"
// OB: ob_exec_noabort tier=quick solver=cadical unwind=32 timeout=600 cbmc="--max-field-sensitivity-array-size 600" params=3 bounds="ForEachExecutor with disable_conflict_detection (needsAborts = false): runQueueSimple drains a worklist of 2 items whose operator pushes k = 0..2 children for the first item only" desc="every item and every child is applied exactly once and the loop body returns with an empty worklist and an empty push buffer"
#include "C01_env.h"
#undef GALOIS_ASSERT
#define GALOIS_ASSERT(cond, ...) \
  do {                           \
    if (!(cond)) abort();        \
  } while (0)
#include "galois/runtime/Executor_ForEach.h"
#include "vf_standalone.h"
#include "../src/Context.cpp"
#include "../src/Termination.cpp"

// Mem.cpp / PagePool.cpp cut
galois::runtime::SystemHeap::SystemHeap() {}
galois::runtime::SystemHeap::~SystemHeap() {}
void* galois::runtime::pagePoolAlloc() { return std::calloc(1, 2 * 1024 * 1024); }
void galois::runtime::pagePoolFree(void* p) { std::free(p); }
size_t galois::runtime::pagePoolSize() { return 2 * 1024 * 1024; }

using namespace galois::runtime;
namespace {
// ---- the operator program (kinds from vf_param, values symbolic)
unsigned g_k, g_mode, g_ran;
int g_child[2];
int g_seen;
Lockable g_free1, g_foreign;
SimpleRuntimeContext g_other; // another thread's iteration: owns g_foreign

struct Op {
  void operator()(int& item, galois::UserContext<int>& ctx) const {
    ++g_ran;
    g_seen = item;
    switch (g_mode) {
    case 0: // push, commit
      for (unsigned j = 0; j < g_k; ++j) ctx.push(g_child[j]);
      return;
    case 1: // acquire, push, commit
      galois::runtime::acquire(&g_free1, galois::MethodFlag::WRITE);
      for (unsigned j = 0; j < g_k; ++j) ctx.push(g_child[j]);
      return;
    case 2: // push, voluntary abort
      for (unsigned j = 0; j < g_k; ++j) ctx.push(g_child[j]);
      ctx.abort();
      return;
    case 3: // acquire, push, conflict
      galois::runtime::acquire(&g_free1, galois::MethodFlag::WRITE);
      for (unsigned j = 0; j < g_k; ++j) ctx.push(g_child[j]);
      galois::runtime::acquire(&g_foreign, galois::MethodFlag::WRITE);
      return;
    default: // push, conflict on the first acquire
      for (unsigned j = 0; j < g_k; ++j) ctx.push(g_child[j]);
      galois::runtime::acquire(&g_foreign, galois::MethodFlag::WRITE);
      return;
    }
  }
};

typedef galois::worklists::ChunkFIFO<2> WLTy;
typedef decltype(std::make_tuple(galois::wl<WLTy>())) ArgsA; // conflict detection on, pushes on, no loopname -> no stats
typedef decltype(std::make_tuple(galois::wl<WLTy>(), galois::disable_conflict_detection())) ArgsN; // needsAborts = false
typedef ForEachExecutor<WLTy, Op, ArgsA> ExA;
typedef ForEachExecutor<WLTy, Op, ArgsN> ExN;

struct Range {
  int *b, *e;
  std::pair<int*, int*> local_pair() const { return std::make_pair(b, e); }
};

int sym() {
  unsigned v = vf_nondet_u8();
  vf_assume(v < 4);
  return (int)v;
}

void setup_env() {
  vfenv::init(1);
  galois::runtime::activeThreads = 1;
  galois::substrate::internal::setTermDetect(new galois::substrate::internal::LocalTerminationDetection<>());
}

// the worklist must hold exactly the multiset exp[0..n)
void expect_worklist(WLTy& wl, const int* exp, unsigned n) {
  unsigned cnt[4] = {0, 0, 0, 0};
  for (unsigned i = 0; i < n; ++i) ++cnt[exp[i] & 3];
  for (unsigned i = 0; i < n; ++i) {
    galois::optional<int> r = wl.pop();
    VF_CHECKM((bool)r, "the worklist holds fewer items than it must (work lost)");
    if (!r) return;
    VF_CHECKM(*r >= 0 && *r < 4 && cnt[*r & 3] > 0, "the worklist holds an item it must not hold (pushes of an aborted attempt became work, or a duplicate)");
    if (cnt[*r & 3]) --cnt[*r & 3];
  }
  galois::optional<int> r = wl.pop();
  VF_CHECKM(!r, "the worklist holds more items than it must (pushes of an aborted attempt became work, or a duplicate)");
}

bool owned(Lockable& l) { return l.owner.getValue() != nullptr || l.owner.is_locked(); }
} // namespace

static void exec_step_body(unsigned k, unsigned mode) {
  setup_env();
  g_k    = k;
  g_mode = mode;
  for (unsigned j = 0; j < 2; ++j) g_child[j] = sym();
  static int init[2];
  init[0] = sym();
  init[1] = sym();
  // the foreign lockable is held by another iteration
  g_other.acquire(&g_foreign, galois::MethodFlag::WRITE);

  Op op;
  ArgsA args = std::make_tuple(galois::wl<WLTy>());
  ExA ex(op, args);
  Range r{init, init + 2};
  ex.initThread(r);
  ExA::ThreadLocalData tld(ex.origFunction, ex.loopname);
  setThreadContext(&tld.ctx);
  bool did = ex.runQueue<1>(tld, ex.wl);
  setThreadContext(0);

  VF_CHECKM(did, "runQueue reported no work although the worklist was not empty");
  VF_CHECKM(g_ran == 1, "the operator did not run exactly once");
  VF_CHECKM(g_seen == init[0], "the operator saw a different item than the one at the head of the FIFO");
  VF_CHECKM(tld.facing.getPushBuffer().empty(), "the push buffer is not empty after the iteration ended");
  VF_CHECKM(tld.ctx.locks == nullptr, "the iteration's neighbourhood list is not empty after commit/abort");
  VF_CHECKM(!owned(g_free1), "a lockable acquired by the iteration is still owned after commit/abort");
  VF_CHECKM(g_foreign.owner.getValue() == &g_other, "the lockable of the other iteration changed owner");
  bool aborts = g_mode >= 2;
  galois::optional<AbortHandler<int>::Item> a = ex.aborted.getQueue()->pop();
  if (!aborts) {
    VF_CHECKM(!a, "a committed iteration left an entry in the abort queue");
    int exp[3] = {init[1], g_child[0], g_child[1]};
    expect_worklist(ex.wl, exp, 1 + g_k);
  } else {
    VF_CHECKM((bool)a, "the aborted item is not in the abort queue (lost work)");
    if (a) {
      VF_CHECKM(a->val == init[0], "the abort queue holds a different item than the aborted one");
      VF_CHECKM(a->retries == 1, "first abort must be recorded with retries == 1");
    }
    galois::optional<AbortHandler<int>::Item> a2 = ex.aborted.getQueue()->pop();
    VF_CHECKM(!a2, "the abort queue gained more than the one aborted item");
    int exp[1] = {init[1]};
    expect_worklist(ex.wl, exp, 1);
  }
}

OB(exec_step) { exec_step_body(vf_param(0) * 2, vf_param(1)); }
OB(exec_step_k1) { exec_step_body(1, vf_param(0)); }

OB(exec_retry) {
  setup_env();
  g_k        = 1;
  g_mode     = 2;
  g_child[0] = sym();
  g_child[1] = sym();
  static int init[1];
  init[0] = sym();
  Op op;
  ArgsA args = std::make_tuple(galois::wl<WLTy>());
  ExA ex(op, args);
  Range r{init, init + 1};
  ex.initThread(r);
  ExA::ThreadLocalData tld(ex.origFunction, ex.loopname);
  setThreadContext(&tld.ctx);
  ex.runQueue<1>(tld, ex.wl);
  // retry from the abort queue: one step of handleAborts
  g_mode   = vf_param(0) == 0 ? 2 : 0;
  bool did = ex.runQueue<1>(tld, *ex.aborted.getQueue());
  setThreadContext(0);
  VF_CHECKM(did && g_ran == 2, "the retried item was not applied");
  VF_CHECKM(g_seen == init[0], "the retry applied a different item");
  VF_CHECKM(tld.facing.getPushBuffer().empty(), "the push buffer is not empty after the retry");
  galois::optional<AbortHandler<int>::Item> a = ex.aborted.getQueue()->pop();
  if (vf_param(0) == 0) {
    VF_CHECKM((bool)a, "an item that aborted twice is not in the abort queue (lost work)");
    if (a) VF_CHECKM(a->val == init[0] && a->retries == 2, "second abort must keep the item and record retries == 2");
    galois::optional<AbortHandler<int>::Item> a2 = ex.aborted.getQueue()->pop();
    VF_CHECKM(!a2, "the abort queue gained more than the one aborted item");
    expect_worklist(ex.wl, init, 0);
  } else {
    VF_CHECKM(!a, "a retried item that committed is still in the abort queue (it would run twice)");
    expect_worklist(ex.wl, g_child, 1);
  }
}

OB(exec_noabort) {
  setup_env();
  g_k    = vf_param(0);
  g_mode = 0;
  for (unsigned j = 0; j < 2; ++j) g_child[j] = sym();
  static int init[2];
  init[0] = sym();
  init[1] = sym();
  Op op;
  ArgsN args = std::make_tuple(galois::wl<WLTy>(), galois::disable_conflict_detection());
  ExN ex(op, args);
  Range r{init, init + 2};
  ex.initThread(r);
  ExN::ThreadLocalData tld(ex.origFunction, ex.loopname);
  // first item pushes k children, everything after pushes nothing: run the first iteration alone, then the rest
  galois::optional<int> p = ex.wl.pop();
  VF_CHECKM((bool)p && *p == init[0], "FIFO head");
  if (!p) return;
  ex.doProcess(*p, tld);
  VF_CHECKM(tld.facing.getPushBuffer().empty(), "the push buffer is not empty after commit");
  g_k      = 0;
  bool did = ex.runQueueSimple(tld);
  VF_CHECKM(did, "runQueueSimple reported no work");
  VF_CHECKM(g_ran == 2 + vf_param(0), "not every item and child was applied exactly once");
  galois::optional<int> q = ex.wl.pop();
  VF_CHECKM(!q, "worklist not empty after runQueueSimple returned");
}
