// UNIT: id=C14 validate=0 validate_reason="the obligation exercises undefined behaviour of the real code (value-returning function without return statement): the native C++ build has no defined result to compare with; counterexamples replay on the translated C"
// ASSUME: arbitrary valid representation (start < N, count <= N, contents symbolic) as in C14_ring.cpp
// ASSUME: the two const accessors are called through noinline+optnone wrappers so that the optimiser cannot fold the caller around the undefined behaviour; the wrappers add no behaviour
// OB: ob_ring_const_reverse tier=quick unwind=7 timeout=120 params=2 bounds="FixedSizeRing<int,N> N in {3,4}: arbitrary valid state, reverse traversal through a const reference (rbegin() const / rend() const)" desc="ring: const reverse traversal equals the model reversed"
#include "vf.h"
#include "galois/FixedSizeRing.h"

namespace {
template <unsigned N>
__attribute__((noinline, optnone)) auto const_rbegin(const galois::FixedSizeRing<int, N>& r) { return r.rbegin(); }
template <unsigned N>
__attribute__((noinline, optnone)) auto const_rend(const galois::FixedSizeRing<int, N>& r) { return r.rend(); }

template <unsigned N>
void const_reverse() {
  galois::FixedSizeRing<int, N> r;
  int model[N + 1];
  unsigned start = vf_nondet_u8(), n = vf_nondet_u8();
  vf_assume(start < N);
  vf_assume(n <= N);
  for (unsigned j = 0; j < n; ++j) {
    int v = (int)vf_nondet_u32();
    r.datac.emplace((start + j) % N, v);
    model[j] = v;
  }
  r.start = start;
  r.count = n;
  const galois::FixedSizeRing<int, N>& cr = r;
  unsigned q = 0;
  auto e = const_rend<N>(cr);
  for (auto it = const_rbegin<N>(cr); it != e; ++it, ++q) {
    VF_CHECKM(q < n, "const reverse traversal yields more elements than the model");
    if (q >= n) return;
    VF_CHECKM(*it == model[n - 1 - q], "const reverse traversal differs from model");
  }
  VF_CHECKM(q == n, "const reverse traversal length");
}
} // namespace

OB(ring_const_reverse) {
  if (vf_param(0) == 0) const_reverse<3>();
  else const_reverse<4>();
}
