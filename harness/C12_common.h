// shared prelude of the C12 units: real FileGraph.cpp + one-thread substrate model + graph model and checks
#pragma once
#include "vf.h"
// fatal-error macros: the diagnostic text (std::ostringstream formatting) is dropped, the abort() is kept
#include "galois/gIO.h"
#undef GALOIS_DIE
#undef GALOIS_SYS_DIE
#define GALOIS_DIE(...) abort()
#define GALOIS_SYS_DIE(...) abort()
#undef GALOIS_ASSERT
#define GALOIS_ASSERT(cond, ...) do { if (!(cond)) abort(); } while (0)
#include "../src/FileGraph.cpp"
#include "../src/PageAlloc.cpp"

// ---- harness prelude: one-thread pool and per-thread storage backend (see ASSUME)
namespace galois::substrate {
alignas(64) static char vf_tp_mem[sizeof(ThreadPool)];
ThreadPool& getThreadPool() {
  ThreadPool* tp    = reinterpret_cast<ThreadPool*>(vf_tp_mem);
  tp->mi.maxThreads = 1;
  return *tp;
}
alignas(128) static char vf_pts_page[4096];
static unsigned vf_pts_next = 0;
thread_local char* ptsBase  = vf_pts_page;
PerBackend::PerBackend() {}
unsigned PerBackend::allocOffset(const unsigned sz) {
  unsigned size = (sz + 127u) & ~127u;
  unsigned off  = vf_pts_next;
  vf_assume(off + size <= sizeof(vf_pts_page));
  vf_pts_next = off + size;
  return off;
}
void PerBackend::deallocOffset(const unsigned, const unsigned) {}
void* PerBackend::getRemote(unsigned, unsigned offset) { return &vf_pts_page[offset]; }
PerBackend& getPTSBackend() {
  static PerBackend b;
  return b;
}
void internal::largeFreer::operator()(void* ptr) const { ::munmap(ptr, bytes); }
// referenced only by partFromFile's NUMA page-in branch (numaMap=true), which no obligation takes
thread_local ThreadPool::per_signal ThreadPool::my_box;
void ThreadPool::runInternal(unsigned) { work(); }
} // namespace galois::substrate

unsigned galois::runtime::activeThreads = 1;

using galois::graphs::FileGraph;
using galois::graphs::FileGraphWriter;

namespace {
constexpr unsigned MAXN = 3, MAXE = 3;
const unsigned SZ[3] = {0, 4, 8};
const char* const VF_FILE = "/tmp/vfc12.gr"; // <= 15 characters (small-string); one model file

struct Model {
  unsigned n, e, se, ver;
  uint64_t idx[MAXN + 1]; // idx[i] = end of node i's edges
  uint64_t dst[MAXE + 1];
  uint64_t data[MAXE + 1]; // edge data of edge i (low 32 bits when the width is 4)
};

// symbolic graph with concrete shape parameters
void make_model(Model& m, unsigned n, unsigned e, unsigned se, unsigned ver) {
  m.n = n; m.e = e; m.se = se; m.ver = ver;
  uint64_t prev = 0;
  for (unsigned i = 0; i < MAXN; ++i) {
    uint64_t v = vf_nondet_u8();
    if (i < n) {
      vf_assume(v >= prev && v <= e);
      if (i == n - 1) vf_assume(v == e);
    }
    m.idx[i] = v;
    prev     = v;
  }
  for (unsigned i = 0; i < MAXE; ++i) {
    m.dst[i] = vf_nondet_u64();
    if (ver == 1) m.dst[i] &= 0xffffffffu;
  }
  for (unsigned i = 0; i < MAXE; ++i) {
    m.data[i] = vf_nondet_u64();
    if (se == 4) m.data[i] &= 0xffffffffu;
  }
}

// the whole block [base, base+len) must contain header, out-index, destinations and edge data, in this order
void check_layout(FileGraph& g, const Model& m) {
  VF_CHECKM(g.mappings.size() == 1, "one mapping");
  char* base = (char*)g.mappings[0].ptr;
  size_t len = g.mappings[0].len;
  size_t dw  = m.ver == 1 ? 4 : 8;
  VF_CHECKM((char*)g.outIdx == base + 32, "out-index follows the 4-word header");
  VF_CHECKM((char*)g.outs == base + 32 + 8 * m.n, "destinations follow the out-index");
  VF_CHECKM((char*)g.outs + dw * m.e <= base + len, "destination array inside the block");
  if (m.se && m.e) {
    VF_CHECKM(g.edgeData != nullptr, "edge data present");
    VF_CHECKM(g.edgeData >= (char*)g.outs + dw * m.e, "edge data after destinations");
    VF_CHECKM(((g.edgeData - base) & 7) == 0, "edge data 8-aligned");
    VF_CHECKM(g.edgeData + (size_t)m.se * m.e <= base + len, "edge data inside the block sized by rawBlockSize");
  }
}

// enumerate g against the model: every node's edge range, then every edge's destination and data.
// (Per-node ranges are compared as intervals and the edges by id, so all loop bounds are concrete.)
void check_same(FileGraph& g, const Model& m) {
  VF_CHECK(g.size() == m.n);
  VF_CHECK(g.sizeEdges() == m.e);
  VF_CHECK(g.edgeSize() == m.se);
  VF_CHECKM(*g.begin() == 0 && *g.end() == m.n, "node ids are 0..n-1");
  for (unsigned k = 0; k < m.n; ++k) {
    uint64_t b = *g.edge_begin(k), en = *g.edge_end(k);
    VF_CHECKM(b == (k ? m.idx[k - 1] : 0), "edge_begin equals the model's out-index");
    VF_CHECKM(en == m.idx[k], "edge_end equals the model's out-index");
  }
  if (m.se && m.e) VF_CHECKM(g.edgeData != nullptr, "edge data lost");
  for (unsigned x = 0; x < m.e; ++x) {
    FileGraph::edge_iterator jj(x);
    VF_CHECKM(g.getEdgeDst(jj) == m.dst[x], "edge destination differs");
    if (!g.edgeData) continue;
    if (m.se == 4)
      VF_CHECKM(g.getEdgeData<uint32_t>(jj) == (uint32_t)m.data[x], "32-bit edge data differs");
    else if (m.se == 8)
      VF_CHECKM(g.getEdgeData<uint64_t>(jj) == m.data[x], "64-bit edge data differs");
  }
}

void build_from_arrays(FileGraph& g, const Model& m, bool converted) {
  uint64_t idx[MAXN + 1];
  uint32_t d32[MAXE + 1];
  uint64_t d64[MAXE + 1];
  for (unsigned i = 0; i < MAXN; ++i) idx[i] = m.idx[i];
  uint32_t e32[MAXE + 1];
  uint64_t e64[MAXE + 1];
  for (unsigned i = 0; i < MAXE; ++i) {
    d32[i] = (uint32_t)m.dst[i];
    d64[i] = m.dst[i];
    e32[i] = (uint32_t)m.data[i];
    e64[i] = m.data[i];
  }
  char* ed = m.se == 0 ? nullptr : m.se == 4 ? (char*)e32 : (char*)e64;
  g.fromArrays(idx, m.n, m.ver == 1 ? (void*)d32 : (void*)d64, m.e, ed, m.se, 0, 0, converted, (int)m.ver);
}
} // namespace

namespace {
struct Tup { unsigned nb, ne, eb, ee; };
// all consistent tuples for a 2-node, e-edge graph: 0<=nb<=ne<=2, eb<=ee<=e, eb = first edge of node nb
// (computed at compile time: the table is constant data for the solver)
struct Tab { Tup t[24]; unsigned n; };
constexpr Tab make_tab(unsigned e) {
  Tab r{};
  for (unsigned nb = 0; nb <= 2; ++nb)
    for (unsigned ne = nb; ne <= 2; ++ne)
      for (unsigned eb = 0; eb <= e; ++eb)
        for (unsigned ee = eb; ee <= e; ++ee) {
          if (nb == 0 && eb != 0) continue;
          if (nb == 2 && eb != e) continue;
          if (ne == nb && ee != eb) continue;
          r.t[r.n].nb = nb; r.t[r.n].ne = ne; r.t[r.n].eb = eb; r.t[r.n].ee = ee;
          ++r.n;
        }
  return r;
}
constexpr Tab TAB2 = make_tab(2), TAB3 = make_tab(3);
static_assert(TAB2.n == 17 && TAB3.n == 24, "parameter space");
} // namespace

// a sub-range view h of the whole graph m: global nodes [nb,ne), global edges [eb,ee)
static void check_sub(FileGraph& h, const Model& m, unsigned nb, unsigned ne, uint64_t eb, uint64_t ee) {
  const unsigned e = m.e, se = m.se;
  VF_CHECK(h.size() == ne - nb);
  VF_CHECK(h.sizeEdges() == ee - eb);
  VF_CHECK(h.edgeSize() == se);
  VF_CHECKM(*h.begin() == nb && *h.end() == ne, "global node ids");
  for (unsigned N = nb; N < ne; ++N) {
    uint64_t mb = N ? m.idx[N - 1] : 0, me = m.idx[N];
    if (mb > ee) mb = ee;
    if (me > ee) me = ee;
    VF_CHECKM(*h.edge_begin(N) == mb - eb, "edge_begin: local id of the node's first edge (clamped at the cut)");
    VF_CHECKM(*h.edge_end(N) == me - eb, "edge_end: local id past the node's last edge (clamped at the cut)");
  }
  if (se && ee > eb) VF_CHECKM(h.edgeData != nullptr, "edge data mapped");
  for (unsigned x = 0; x < e; ++x) {
    if (x < eb || x >= ee) continue;
    FileGraph::edge_iterator jj(x - eb);
    VF_CHECKM(h.getEdgeDst(jj) == m.dst[x], "edge destination differs in the sub-range read");
    if (!h.edgeData) continue;
    if (se == 4)
      VF_CHECKM(h.getEdgeData<uint32_t>(jj) == (uint32_t)m.data[x], "32-bit edge data differs in the sub-range read");
    else if (se == 8)
      VF_CHECKM(h.getEdgeData<uint64_t>(jj) == m.data[x], "64-bit edge data differs in the sub-range read");
  }
}
