// C01_obim_common.h -- OrderedByIntegerMetric under one worker (shared by C01_obim.cpp and C08_levels.cpp).
// An item is {bucket, payload}: the bucket (0..2) is part of the operation KIND (vf_param / table), the payload (0..3) is a
// solver variable.  A symbolic bucket makes the shape of masterLog (std::deque) and of the per-thread flat_map depend on
// solver variables: a 5-operation history did not finish in 300 s (the two are kept in separate fields because CBMC
// does not fold (b*4+p)>>2 to b under the assumption p<4).
#pragma once
#include "C01_wl_common.h"
#include <deque>
#include <vector>
#include "galois/FlatMap.h"
#include "galois/runtime/Substrate.h"
#include "galois/substrate/Termination.h"
#include "galois/worklists/Chunk.h"
// Inside Obim.h the two std::deque members (masterLog: push_back, operator[], rbegin/rend; ThreadData::stored: push_back,
// front, begin/end, erase(it), empty) are instantiated as std::vector: libstdc++'s deque orders its map pointers with
// `cur < nfinish`, which the translator emits as an integer comparison of addresses that CBMC cannot fold, so every
// deque operation turns symbolic (3 push_back = out of memory at 5.7 GB).  std::vector offers the same operations with
// the same sequence semantics for the uses in Obim.h (entries are copied out by value before any further push).
// Everything Obim.h includes is included above, so the macro touches Obim.h only.
#ifdef VF_VECTOR_FOR_DEQUE
#define deque vector
#endif
#include "galois/worklists/Obim.h"
#undef deque

namespace c01 {
// The copy operations are user-provided on purpose: a trivially copyable 8-byte struct (and std::pair<int, Item>, which
// Obim.h passes by value) travels in registers as ONE i64 = bucket | payload << 32, and CBMC does not fold the constant
// half out of such a word; a non-trivial copy makes the ABI pass it in memory, field by field.
struct Item {
  int bucket;  // priority level = bucket index
  int payload; // symbolic identity within the level
  Item() : bucket(0), payload(0) {}
  Item(const Item& o) : bucket(o.bucket), payload(o.payload) {}
  Item& operator=(const Item& o) {
    bucket  = o.bucket;
    payload = o.payload;
    return *this;
  }
};
inline int slot(const Item& it) { return it.bucket * 4 + it.payload; } // key of the multiset oracle
struct BucketIndexer {
  int operator()(const Item& it) const { return it.bucket; }
};
// filled in place: returning the 8-byte struct by value makes clang pack both fields into one i64 (bucket | payload << 32),
// from which CBMC no longer folds the constant bucket
inline void item_in(Item& it, unsigned bucket) {
  it.bucket  = (int)bucket;
  it.payload = value();
}

// template parameters of OrderedByIntegerMetric: Indexer, Container, BlockPeriod, BSP, T, Index, UseBarrier, UseMonotonic, UseDescending, Concurrent
template <typename C, unsigned BP, bool BSP, bool BAR, bool MONO, bool DESC>
using Obim = galois::worklists::OrderedByIntegerMetric<BucketIndexer, C, BP, BSP, Item, int, BAR, MONO, DESC, true>;

// The executor's view of pop: runQueue pops until pop() returns empty; after global termination go() calls
// checkEmpty(wl) = wl.empty() (exists only with the barrier option) and resumes popping when that returns false.
template <typename WL, bool Barrier>
struct ObimPop {
  static galois::optional<Item> pop(WL& wl) { return wl.pop(); }
};
template <typename WL>
struct ObimPop<WL, true> {
  static galois::optional<Item> pop(WL& wl) {
    galois::optional<Item> r = wl.pop();
    if (r) return r;
    if (wl.empty()) return r; // every thread agrees: nothing left
    r = wl.pop();
    VF_CHECKM((bool)r, "empty() reported pending work but the next pop() returned nothing");
    return r;
  }
};

// kinds: 0,1,2 push(item of bucket 0/1/2)  3 pop  4 push(range: bucket 1 then bucket 0)  5 push(range: bucket 2, bucket 2)
template <typename WL, bool Barrier>
void obim_step(WL& wl, Bag& bag, unsigned k) {
  switch (k) {
  case 0: case 1: case 2: {
    Item v;
    item_in(v, k);
    wl.push(v);
    bag.add(slot(v));
    break;
  }
  case 3: {
    galois::optional<Item> r = ObimPop<WL, Barrier>::pop(wl);
    if (r)
      bag.take(slot(*r));
    else
      VF_CHECKM(bag.empty(), "pop returned empty while pushed items are still pending (work stranded)");
    break;
  }
  case 4: case 5: {
    Item a[2];
    item_in(a[0], k == 4 ? 1 : 2);
    item_in(a[1], k == 4 ? 0 : 2);
    wl.push(a, a + 2);
    bag.add(slot(a[0]));
    bag.add(slot(a[1]));
    break;
  }
  }
}

template <typename WL, bool Barrier>
void obim_drain(WL& wl, Bag& bag) {
  unsigned pending = bag.n;
  for (unsigned k = 0; k < pending; ++k) {
    galois::optional<Item> r = ObimPop<WL, Barrier>::pop(wl);
    VF_CHECKM((bool)r, "pop returned empty while pushed items are still pending (work stranded)");
    if (!r) return;
    bag.take(slot(*r));
  }
  bag.check_consistent();
  galois::optional<Item> r = ObimPop<WL, Barrier>::pop(wl);
  VF_CHECKM(!r, "pop returned an item although everything pushed was already popped (duplicate)");
}

// the worklist is heap allocated and never destroyed: ~OrderedByIntegerMetric walks masterLog (std::deque) backwards,
// which CBMC cannot bound (93 unwindings and counting); destruction is not part of the property
template <typename WL, bool Barrier>
void obim_conserve(const unsigned char* s) {
  configure(0);
  WL& wl = *new WL();
  Bag bag;
  for (unsigned i = 0; i < SEQLEN; ++i) {
    if (s[i] == 9) break;
    obim_step<WL, Barrier>(wl, bag, s[i]);
  }
  obim_drain<WL, Barrier>(wl, bag);
}

static const unsigned char SEQ_O[][SEQLEN] = {
    {1, 0, 3, 2, 3, 3, 9},    // a more urgent bucket appears after a less urgent one; a third bucket while popping
    {2, 3, 0, 3, 3, 1, 9},    // push below the scan start after popping (back-scan prevention), empty pop, late push
    {4, 3, 1, 3, 5, 3, 9},    // range pushes that span buckets
    {0, 0, 0, 3, 1, 3, 3, 9}, // chunk overflow inside one bucket
    {2, 1, 0, 3, 3, 3, 9},    // strictly descending arrival
    {0, 3, 3, 2, 3, 1, 9},    // empty pop, then new buckets
};
} // namespace c01
