// UNIT: id=C14 cxxflags="-DGALOIS_FORCE_STANDALONE"
// ASSUME: GALOIS_FORCE_STANDALONE (the repository's own switch) routes FixedSizeHeap to malloc; the Galois heaps are C09's subject
// ASSUME: operation KINDS are enumerated as separate solver queries (vf_param); element values are solver variables
// ASSUME: concurrent_gslist is driven from one thread; compare_exchange never fails spuriously
// ASSUME: reference model: std::forward_list (push_front/pop_front/front/clear, iteration newest first); pop_front on an empty list returns false
// OB: ob_gslist_seq quick_limit=25 tier=quick unwind=8 timeout=180 params=7,7 bounds="gslist<int,2>: 3 push_front (2 blocks) then every pair of ops from 7 kinds {push_front, emplace_front, pop_front(heap), pop_front(promise_to_dealloc), clear(heap), move construct+assign, clear(promise_to_dealloc)}; after every op empty() and forward + const traversal" desc="gslist equals a forward_list model (contents, order, emptiness)"
// OB: ob_gslist_seq3 tier=thorough unwind=8 timeout=180 params=7,7,7 bounds="gslist<int,2>: all 343 kind-sequences of 3 ops from the empty list" desc="gslist equals a forward_list model (from empty)"
// OB: ob_gslist_front quick_limit=25 tier=quick unwind=8 timeout=180 params=7,7 bounds="as ob_gslist_seq, additionally front() == newest element after every op that leaves the list non-empty" desc="gslist::front() is the newest element"
// OB: ob_gslist_counted quick_limit=25 tier=quick unwind=8 timeout=180 params=7,7 bounds="gslist<Counted,2>: 3 emplace_front then every pair of ops from 7 kinds; ghost live-instance map; list destroyed at the end" desc="gslist constructs/destroys each element exactly once"
// OB: ob_cgslist_seq tier=quick unwind=8 timeout=180 params=5,5 bounds="concurrent_gslist<int,2> from one thread: 3 push_front then every pair of ops from 5 kinds {push_front, pop_front(heap), pop_front(promise), clear(heap), move}" desc="concurrent_gslist (one thread) equals a forward_list model"
// OB: ob_cgslist_counted tier=quick unwind=8 timeout=180 params=5,5 bounds="concurrent_gslist<Counted,2> from one thread: 3 push_front then every pair of ops from 5 kinds; ghost live-instance map" desc="concurrent_gslist (one thread) constructs/destroys each element exactly once"
#include "vf.h"
#include "galois/gslist.h"
#include "vf_standalone.h"

namespace {
struct Counted {
  static int live;
  static int ctor, dtor;
  int v;
  Counted* self;
  Counted() : v(0), self(this) { ++live; ++ctor; }
  explicit Counted(int x) : v(x), self(this) { ++live; ++ctor; }
  Counted(Counted&& o) : v(o.v), self(this) { ++live; ++ctor; }
  Counted(const Counted& o) : v(o.v), self(this) { ++live; ++ctor; }
  Counted& operator=(Counted&& o) { v = o.v; return *this; }
  Counted& operator=(const Counted& o) { v = o.v; return *this; }
  ~Counted() {
    vf_assert(self == this, "destructor runs on an object that was never constructed (or destroyed twice)");
    self = nullptr;
    --live;
    ++dtor;
  }
};
int Counted::live = 0;
int Counted::ctor = 0;
int Counted::dtor = 0;

inline int val(int x) { return x; }
inline int val(const Counted& c) { return c.v; }
inline void alive(const int&) {}
inline void alive(const Counted& c) { VF_CHECKM(c.self == &c, "container exposes an element that is not alive"); }
template <typename T> struct Is { static const bool counted = false; };
template <> struct Is<Counted> { static const bool counted = true; };

constexpr unsigned CAP = 8;
typedef galois::runtime::FixedSizeHeap Heap;

template <typename L>
void check_equal(L& l, const int* model, unsigned n, bool withFront) {
  typedef typename L::value_type T;
  VF_CHECKM(l.empty() == (n == 0), "empty() iff the model is empty");
  unsigned k = 0;
  for (auto it = l.begin(); it != l.end(); ++it, ++k) {
    VF_CHECKM(k < n, "traversal yields more elements than the model");
    if (k >= n) return;
    alive(*it);
    VF_CHECKM(val(*it) == model[n - 1 - k], "traversal is not newest-first");
  }
  VF_CHECKM(k == n, "traversal length");
  const L& cl = l;
  k = 0;
  for (auto it = cl.begin(); it != cl.end(); ++it, ++k) {
    VF_CHECKM(k < n, "const traversal yields more elements than the model");
    if (k >= n) return;
    VF_CHECKM(val(*it) == model[n - 1 - k], "const traversal is not newest-first");
  }
  VF_CHECKM(k == n, "const traversal length");
  if (withFront && n) {
    VF_CHECKM(val(l.front()) == model[n - 1], "front() is the newest element");
    VF_CHECKM(val(cl.front()) == model[n - 1], "front() const is the newest element");
  }
  if (Is<T>::counted) VF_CHECKM(Counted::live == (int)n, "live instances equal container size");
}

// kinds: 0 push_front 1 pop_front(heap) 2 pop_front(promise) 3 clear(heap) 4 move 5 emplace_front 6 clear(promise)
template <typename L, bool Conc>
struct Ops {
  static void run(L& l, Heap& heap, int* model, unsigned& n, unsigned op) {
    typedef typename L::value_type T;
    int v = (int)vf_nondet_u32();
    switch (op) {
    case 0: {
      T w(v);
      l.push_front(heap, w);
      model[n++] = v;
      break;
    }
    case 1: case 2: {
      bool r = op == 1 ? l.pop_front(heap) : l.pop_front(typename L::promise_to_dealloc());
      VF_CHECKM(r == (n > 0), "pop_front reports whether something was popped");
      if (n > 0) --n;
      break;
    }
    case 3:
      l.clear(heap);
      n = 0;
      break;
    case 4: {
      L e(std::move(l));
      VF_CHECKM(l.empty() && l.begin() == l.end(), "moved-from list is empty");
      check_equal(e, model, n, false);
      l = std::move(e);
      VF_CHECKM(e.empty(), "move assignment leaves the source empty");
      break;
    }
    case 6:
      l.clear(typename L::promise_to_dealloc());
      n = 0;
      break;
    }
  }
};

template <typename L>
void seq_op(L& l, Heap& heap, int* model, unsigned& n, unsigned op) {
  if (op == 5) {
    int v = (int)vf_nondet_u32();
    l.emplace_front(heap, v);
    model[n++] = v;
  } else
    Ops<L, false>::run(l, heap, model, n, op);
}

template <typename T, unsigned NOPS, unsigned PRE>
void run_seq(bool withFront) {
  {
    Heap heap(sizeof(typename galois::gslist<T, 2>::block_type));
    galois::gslist<T, 2> l;
    int model[CAP];
    unsigned n = 0;
    for (unsigned i = 0; i < PRE; ++i) seq_op(l, heap, model, n, 5);
    check_equal(l, model, n, withFront);
    for (unsigned i = 0; i < NOPS; ++i) {
      seq_op(l, heap, model, n, vf_param(i));
      check_equal(l, model, n, withFront);
    }
  }
  if (Is<T>::counted) {
    VF_CHECKM(Counted::live == 0, "all elements destroyed when the list dies");
    VF_CHECK(Counted::ctor == Counted::dtor);
  }
}

template <typename T, unsigned NOPS, unsigned PRE>
void run_conc() {
  {
    typedef galois::concurrent_gslist<T, 2> L;
    Heap heap(sizeof(typename L::block_type));
    L l;
    int model[CAP];
    unsigned n = 0;
    for (unsigned i = 0; i < PRE; ++i) Ops<L, true>::run(l, heap, model, n, 0);
    check_equal(l, model, n, false);
    for (unsigned i = 0; i < NOPS; ++i) {
      Ops<L, true>::run(l, heap, model, n, vf_param(i));
      check_equal(l, model, n, false);
    }
  }
  if (Is<T>::counted) {
    VF_CHECKM(Counted::live == 0, "all elements destroyed when the list dies");
    VF_CHECK(Counted::ctor == Counted::dtor);
  }
}
} // namespace

OB(gslist_seq) { run_seq<int, 2, 3>(false); }
OB(gslist_seq3) { run_seq<int, 3, 0>(false); }
OB(gslist_front) { run_seq<int, 2, 3>(true); }
OB(gslist_counted) { run_seq<Counted, 2, 3>(false); }
OB(cgslist_seq) { run_conc<int, 2, 3>(); }
OB(cgslist_counted) { run_conc<Counted, 2, 3>(); }
