// UNIT: id=C17 include="libdist/include" cxxflags="-DGALOIS_FORCE_STANDALONE -ffunction-sections -fdata-sections" ldflags="-Wl,--gc-sections"
// ASSUME: GALOIS_FORCE_STANDALONE (the repository's own switch) routes gdeque's FixedSizeAllocator to malloc
// ASSUME: container sizes and the pad length (0..7 bytes in front of the value: every buffer alignment, both branches of gDeserializeLinearSeq) are enumerated as separate solver queries (vf_param); all values are solver variables
// ASSUME: std::string values stay within the 15-character small-string capacity (reallocating growth _M_mutate is a BOUND failure)
// ASSUME: malloc/realloc results are maximally aligned (CBMC: alignment is decided by the offset inside the object), as glibc guarantees for 16 bytes
// OB: ob_vector_nonpod tier=quick unwind=30 timeout=300 params=8,4 bounds="std::vector<std::pair<uint32_t,std::vector<uint8_t>>> of 0..3 elements (inner lengths 1,2,0) followed by a uint16, pad 0..7" desc="element-wise sequence path round-trips"
// OB: ob_vector_custom tier=quick unwind=30 timeout=300 params=8,4 bounds="std::vector of a struct with tt_has_serialize (u32 + vector<u8>), 0..3 elements, pad 0..7" desc="user serialize()/deserialize() hooks round-trip inside a sequence"
// OB: ob_gdeque tier=quick unwind=30 timeout=300 params=8,4 bounds="gdeque<int,2> of 0..3 elements (2 blocks) followed by a uint16, pad 0..7, target non-empty beforehand" desc="gdeque round-trips"
// OB: ob_bitset tier=quick unwind=30 timeout=300 params=8,5 bounds="DynamicBitSet of 0/1/64/100/128 bits, words symbolic, followed by a uint16, pad 0..7" desc="bitset round-trips (size and words)"
#include "C17_common.h"

// ---------------------------------------------------------------- element-wise sequences (non-memory-copyable elements)
namespace {
// a user type with the serialize trait
struct Custom {
  uint32_t a;
  std::vector<uint8_t> v;
  typedef int tt_has_serialize;
  void serialize(SerializeBuffer& s) const { gSerialize(s, a, v); }
  void deserialize(DeSerializeBuffer& s) { gDeserialize(s, a, v); }
};
} // namespace

// vector of n pairs (u32, vector<u8> of length (i+1)%3), then a sentinel
OB(vector_nonpod) {
  unsigned k = vf_param(0), n = vf_param(1);
  typedef std::pair<uint32_t, std::vector<uint8_t>> E;
  std::vector<E> x, y;
  uint32_t m1[3];
  uint8_t m2[3][2];
  size_t bytes = 8;
  for (unsigned i = 0; i < n; ++i) {
    E e;
    e.first = m1[i] = vf_nondet_u32();
    unsigned len    = (i + 1) % 3;
    for (unsigned j = 0; j < len; ++j) {
      m2[i][j] = vf_nondet_u8();
      e.second.push_back(m2[i][j]);
    }
    x.push_back(e);
    bytes += 4 + 8 + len;
  }
  y.resize(1);
  uint16_t s = vf_nondet_u16(), t = 0;
  SerializeBuffer b;
  pad(b, k);
  gSerialize(b, x, s);
  VF_CHECKM(b.size() == k + bytes + 2, "bytes produced");
  DeSerializeBuffer d(std::move(b));
  skip(d, k);
  gDeserialize(d, y, t);
  VF_CHECKM(d.getOffset() == d.size(), "read offset ends exactly at the buffer size");
  VF_CHECKM(y.size() == n, "sequence length");
  for (unsigned i = 0; i < n; ++i) {
    unsigned len = (i + 1) % 3;
    VF_CHECK(y[i].first == m1[i]);
    VF_CHECK(y[i].second.size() == len);
    for (unsigned j = 0; j < len; ++j) VF_CHECK(y[i].second[j] == m2[i][j]);
  }
  VF_CHECKM(s == t, "value after the sequence");
}

OB(vector_custom) {
  unsigned k = vf_param(0), n = vf_param(1);
  std::vector<Custom> x, y;
  uint32_t m1[3];
  uint8_t m2[3][2];
  for (unsigned i = 0; i < n; ++i) {
    Custom e;
    e.a = m1[i] = vf_nondet_u32();
    unsigned len = (i + 1) % 3;
    for (unsigned j = 0; j < len; ++j) {
      m2[i][j] = vf_nondet_u8();
      e.v.push_back(m2[i][j]);
    }
    x.push_back(e);
  }
  uint16_t s = vf_nondet_u16(), t = 0;
  SerializeBuffer b;
  pad(b, k);
  gSerialize(b, x, s);
  DeSerializeBuffer d(std::move(b));
  skip(d, k);
  gDeserialize(d, y, t);
  VF_CHECKM(d.getOffset() == d.size(), "read offset ends exactly at the buffer size");
  VF_CHECKM(y.size() == n, "sequence length");
  for (unsigned i = 0; i < n; ++i) {
    unsigned len = (i + 1) % 3;
    VF_CHECK(y[i].a == m1[i]);
    VF_CHECK(y[i].v.size() == len);
    for (unsigned j = 0; j < len; ++j) VF_CHECK(y[i].v[j] == m2[i][j]);
  }
  VF_CHECKM(s == t, "value after the sequence");
}

// ---------------------------------------------------------------- gdeque<int,2>
OB(gdeque) {
  unsigned k = vf_param(0), n = vf_param(1);
  galois::gdeque<int, 2> x, y;
  int model[4];
  for (unsigned i = 0; i < n; ++i) {
    model[i] = (int)vf_nondet_u32();
    x.push_back(model[i]);
  }
  y.push_back(7);
  uint16_t s = vf_nondet_u16(), t = 0;
  SerializeBuffer b;
  pad(b, k);
  gSerialize(b, x, s);
  VF_CHECKM(b.size() == k + gSized(x, s), "gSized equals the bytes produced");
  VF_CHECK(b.size() == k + 8 + 4 * n + 2);
  DeSerializeBuffer d(std::move(b));
  skip(d, k);
  gDeserialize(d, y, t);
  VF_CHECKM(d.getOffset() == d.size(), "read offset ends exactly at the buffer size");
  VF_CHECKM(y.size() == n, "sequence length");
  unsigned i = 0;
  for (auto it = y.begin(); it != y.end(); ++it, ++i) {
    if (i >= n) break;
    VF_CHECKM(*it == model[i], "sequence element");
  }
  VF_CHECK(i == n);
  VF_CHECKM(s == t, "value after the sequence");
}

// ---------------------------------------------------------------- DynamicBitSet
OB(bitset) {
  static const unsigned BITS[5] = {0, 1, 64, 100, 128};
  unsigned k = vf_param(0), nbits = BITS[vf_param(1)];
  unsigned words = (nbits + 63) / 64;
  galois::DynamicBitSet x, y;
  x.resize(nbits);
  uint64_t model[2];
  for (unsigned i = 0; i < words; ++i) {
    model[i]       = vf_nondet_u64();
    x.get_vec()[i] = model[i];
  }
  y.resize(64);
  uint16_t s = vf_nondet_u16(), t = 0;
  SerializeBuffer b;
  pad(b, k);
  gSerialize(b, x, s);
  VF_CHECK(b.size() == k + 8 + 8 + 8 * words + 2);
  DeSerializeBuffer d(std::move(b));
  skip(d, k);
  gDeserialize(d, y, t);
  VF_CHECKM(d.getOffset() == d.size(), "read offset ends exactly at the buffer size");
  VF_CHECKM(y.size() == nbits, "bitset size");
  VF_CHECK(y.get_vec().size() == words);
  for (unsigned i = 0; i < words; ++i) VF_CHECKM(y.get_vec()[i].load() == model[i], "bitset word");
  VF_CHECKM(s == t, "value after the bitset");
}

// std::deque<T>: not exercised.  gSerialize(buf, std::deque) does not compile (its sizing overload is misnamed
// gSerializeObj, Serialize.h:364, so gSized() finds no gSizedObj), and the internal overloads over a real std::deque
// exhaust the solver (5 GB after 38 s for 2 elements: libstdc++ deque map bookkeeping).
