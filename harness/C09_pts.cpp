// UNIT: id=C09
// ASSUME: galois::substrate::allocSize() (PageAlloc.cpp) is replaced by a harness definition returning 1024, so per-thread storage is 1024 bytes = 8 cache lines and the free-list / 'vending machine change' paths of allocOffset are reachable within 4 operations; allocPages is a malloc stub (not called by the obligations); the rest is the real PerThreadStorage.cpp
// ASSUME: GALOIS_DIE keeps its fatal meaning but drops the iostream message; the fatal exit 'per-thread storage out of memory' of allocOffset sets a harness flag that ends the history (the real macro aborts the process: the caller asked for more than the storage holds); the abort of nextLog2 (size > 2^29) is unreachable for sizes <= 1024 and stays an assertion
// ASSUME: deallocOffset is called with the offset and the size of a currently live allocation (what PerThreadStorage<T>::destruct does); sizes are 1..1024 bytes
// ASSUME: operation kinds INCLUDING the size class and the freed allocation are enumerated as separate solver queries (vf_param): a symbolic size makes the free-list index symbolic and one 4-operation query then exceeds 5 GB / 8 min; the size-to-class map is proved for all sizes by ob_pts_nextlog2
// ASSUME: single thread: nextLoc/freeOffsetsLock are exercised sequentially (the concurrent variant is a thorough-tier item of the design, not encoded here)
// OB: ob_pts_nextlog2 tier=quick unwind=8 timeout=300 bounds="PerBackend::nextLog2(size): ALL sizes 0..1024 symbolic" desc="class k satisfies 7<=k<=10, 2^k >= size, k==7 or 2^(k-1) < size (least power of two >= max(size, cache line))"
// OB: ob_pts_hist3 tier=quick unwind=32 timeout=300 params=120 bounds="PerBackend over 1024 bytes: EVERY history of 3 operations (allocOffset of class 128/256/512/1024, deallocOffset of any live allocation): 112 feasible kind-sequences, mixed-radix code in vf_param(0), one query each; request sizes are the class boundaries 2^k and 2^(k-1)+1 (ob_pts_nextlog2 shows the class is all that allocOffset uses of the size); a history ends at per-thread storage out of memory" desc="after every operation: each live range [off, off+2^k) is 128-aligned, inside the storage, >= the requested size, pairwise disjoint and below the bump pointer; the free-list entries (classes 7..10; larger classes empty) are aligned, inside [0,nextLoc), disjoint from each other and from every live range; live + free + untouched tail account for exactly 1024 bytes (a split covers its donor exactly, nothing is lost or duplicated)"
// OB: ob_pts_hist4 tier=thorough unwind=32 timeout=300 params=840 bounds="as ob_pts_hist3 with EVERY history of 4 operations (mixed-radix codes 0..839)" desc="after every operation: each live range [off, off+2^k) is 128-aligned, inside the storage, >= the requested size, pairwise disjoint and below the bump pointer; the free-list entries (classes 7..10; larger classes empty) are aligned, inside [0,nextLoc), disjoint from each other and from every live range; live + free + untouched tail account for exactly 1024 bytes (a split covers its donor exactly, nothing is lost or duplicated)"
// OB: ob_pts_hist5 tier=thorough unwind=32 timeout=300 params=6720 param_limit=600 bounds="as ob_pts_hist3 with histories of 5 operations (600 of the 6720 mixed-radix codes, VERIF_SEED)" desc="after every operation: each live range [off, off+2^k) is 128-aligned, inside the storage, >= the requested size, pairwise disjoint and below the bump pointer; the free-list entries (classes 7..10; larger classes empty) are aligned, inside [0,nextLoc), disjoint from each other and from every live range; live + free + untouched tail account for exactly 1024 bytes (a split covers its donor exactly, nothing is lost or duplicated)"
// OB: ob_pts_split tier=quick unwind=32 timeout=300 params=43 bounds="PerBackend over 1024 bytes: 43 histories of 5..8 operations (table SPLIT_HIST, one query each): fill the storage completely (6 fill patterns), free one or two allocations that are not at the bump end, then 2..3 smaller allocations; every one of them is served by splitting a bigger free block at least once (checked), 14 of them split twice or reuse the change of an earlier split" desc="split of a bigger donor into vending-machine change and reuse of that change: after every operation: each live range [off, off+2^k) is 128-aligned, inside the storage, >= the requested size, pairwise disjoint and below the bump pointer; the free-list entries (classes 7..10; larger classes empty) are aligned, inside [0,nextLoc), disjoint from each other and from every live range; live + free + untouched tail account for exactly 1024 bytes (a split covers its donor exactly, nothing is lost or duplicated)"
// OB: ob_pts_family tier=thorough unwind=32 timeout=300 params=6,4,3,3 bounds="PerBackend over 1024 bytes: 6 fill patterns x freed allocation #0..#3 x two further allocations of class 128/256/512 (216 sequences of 5..7 operations, all)" desc="after every operation: each live range [off, off+2^k) is 128-aligned, inside the storage, >= the requested size, pairwise disjoint and below the bump pointer; the free-list entries (classes 7..10; larger classes empty) are aligned, inside [0,nextLoc), disjoint from each other and from every live range; live + free + untouched tail account for exactly 1024 bytes (a split covers its donor exactly, nothing is lost or duplicated)"
#include "vf.h"
// fatal-error macros: the diagnostic text (std::ostringstream formatting) is dropped, the fatal exit is kept
#include "galois/gIO.h"
#undef GALOIS_DIE
#define GALOIS_DIE(...) (c09_died = true)
static bool c09_died; // documented fatal exit: the harness ends the history there (the real macro aborts the process)
#include "galois/substrate/PageAlloc.h"
#include "galois/substrate/PerThreadStorage.h"

namespace {
constexpr unsigned STORAGE = 1024;
}
size_t galois::substrate::allocSize() { return STORAGE; }
void* galois::substrate::allocPages(unsigned num, bool) { return malloc((size_t)num * STORAGE); }
thread_local galois::substrate::ThreadPool::per_signal galois::substrate::ThreadPool::my_box;

// resolved through -I<repo>/libgalois/include, so that VF_REPO is honoured
#include "../src/SimpleLock.cpp"
#include "../src/PerThreadStorage.cpp"

namespace {
using galois::substrate::PerBackend;
constexpr unsigned MAXL = 8; // 1024 bytes hold at most 8 live allocations

struct Model {
  unsigned off[MAXL], req[MAXL], cls[MAXL]; // live allocations: offset, requested size, granted size
  unsigned n = 0;
};

// independent oracle for the granted size
unsigned grant_of(unsigned sz) {
  unsigned g = 128;
  if (sz > 128) g = 256;
  if (sz > 256) g = 512;
  if (sz > 512) g = 1024;
  return g;
}

void check_live(const Model& m) {
  for (unsigned i = 0; i < MAXL; ++i) {
    if (i >= m.n) continue;
    VF_CHECKM(m.off[i] % 128 == 0, "live offset is cache-line (128 byte) aligned");
    VF_CHECKM(m.off[i] <= STORAGE && m.cls[i] <= STORAGE - m.off[i], "live range lies inside the per-thread storage");
    VF_CHECKM(m.cls[i] >= m.req[i], "granted range is at least as large as requested");
    for (unsigned j = 0; j < MAXL; ++j)
      if (j < i) VF_CHECKM(m.off[i] + m.cls[i] <= m.off[j] || m.off[j] + m.cls[j] <= m.off[i], "live ranges are pairwise disjoint");
  }
}

unsigned g_splits; // ghost: allocations served by splitting a bigger free block
unsigned do_alloc(PerBackend& pb, Model& m, unsigned sz) {
  {
    unsigned g = grant_of(sz), c = g == 128 ? 7 : g == 256 ? 8 : g == 512 ? 9 : 10;
    bool any = false;
    for (unsigned k = 7; k <= 10; ++k) any = any || (k > c && !pb.freeOffsets[k].empty());
    if (pb.nextLoc.load(std::memory_order_relaxed) + g > STORAGE && pb.freeOffsets[c].empty() && any) ++g_splits;
  }
  unsigned o = pb.allocOffset(sz);
  if (c09_died) return ~0u; // 'per-thread storage out of memory' (GALOIS_DIE) = end of history
  VF_CHECKM(m.n < MAXL, "more live allocations than cache lines in the storage");
  if (m.n >= MAXL) return o;
  m.off[m.n] = o;
  m.req[m.n] = sz;
  m.cls[m.n] = grant_of(sz);
  ++m.n;
  return o;
}

void do_free(PerBackend& pb, Model& m, unsigned k) {
  vf_assume(k < m.n);
  pb.deallocOffset(m.off[k], m.req[k]);
  for (unsigned j = k; j + 1 < m.n; ++j) {
    m.off[j] = m.off[j + 1];
    m.req[j] = m.req[j + 1];
    m.cls[j] = m.cls[j + 1];
  }
  --m.n;
}

// free-list side of the invariant: classes 7..10 are the only ones that can be populated in 1024 bytes
void check_free(PerBackend& pb, const Model& m) {
  unsigned nl = pb.nextLoc.load(std::memory_order_relaxed);
  VF_CHECKM(nl <= STORAGE && nl % 128 == 0, "bump pointer inside the storage and cache-line aligned");
  unsigned total = STORAGE - nl;
  for (unsigned i = 0; i < MAXL; ++i)
    if (i < m.n) {
      total += m.cls[i];
      VF_CHECKM(m.off[i] + m.cls[i] <= nl, "live range lies below the bump pointer");
    }
  unsigned foff[8], fsz[8], nf = 0;
  for (unsigned c = 7; c <= 10; ++c) {
    const std::vector<unsigned>& v = pb.freeOffsets[c];
    unsigned cnt                   = (unsigned)v.size();
    VF_CHECKM(cnt <= 5, "more free entries in one class than operations");
    for (unsigned e = 0; e < 5; ++e) {
      if (e >= cnt) continue;
      VF_CHECKM(nf < 8, "more free entries than cache lines in the storage");
      if (nf >= 8) return;
      foff[nf] = v[e];
      fsz[nf]  = 1u << c;
      ++nf;
    }
  }
  for (unsigned c = 11; c < 30; ++c) VF_CHECKM(pb.freeOffsets[c].empty(), "no free entry larger than the storage");
  for (unsigned a = 0; a < 8; ++a) {
    if (a >= nf) continue;
    total += fsz[a];
    VF_CHECKM(foff[a] % 128 == 0 && foff[a] <= nl && fsz[a] <= nl - foff[a], "free entry aligned and inside [0,nextLoc)");
    for (unsigned b = 0; b < 8; ++b)
      if (b < a) VF_CHECKM(foff[a] + fsz[a] <= foff[b] || foff[b] + fsz[b] <= foff[a], "free entries are pairwise disjoint");
    for (unsigned i = 0; i < MAXL; ++i)
      if (i < m.n) VF_CHECKM(foff[a] + fsz[a] <= m.off[i] || m.off[i] + m.cls[i] <= foff[a], "a free entry overlaps a live range");
  }
  VF_CHECKM(total == STORAGE, "live + free + untouched tail account for exactly the storage (split covers the donor exactly)");
}
} // namespace

OB(pts_nextlog2) {
  unsigned sz = vf_nondet_u32();
  vf_assume(sz <= STORAGE);
  unsigned k = PerBackend::nextLog2(sz);
  VF_CHECKM(k >= 7 && k <= 10, "class between cache line and storage size");
  VF_CHECKM((1u << k) >= sz, "class size >= requested");
  VF_CHECKM(k == 7 || (1u << (k - 1)) < sz, "least such power of two");
  VF_CHECKM((1u << k) == grant_of(sz), "harness oracle agrees");
}

namespace {
// Operation codes: 0..3 = allocOffset of class 128<<p (request = top of the class on odd positions, bottom of the class on even
// positions), 4+j = deallocOffset of live allocation #j (offset and size as recorded at allocation).
bool run_op(PerBackend& pb, Model& m, unsigned pos, unsigned op) {
  if (op < 4) {
    unsigned g  = 128u << op;
    unsigned sz = (pos & 1) ? g : (g == 128 ? 1 : g / 2 + 1);
    do_alloc(pb, m, sz);
    if (c09_died) return false;
  } else {
    do_free(pb, m, op - 4);
  }
  check_live(m);
  check_free(pb, m);
  return true;
}
// vf_param(0) enumerates the feasible histories in a mixed radix: with n live allocations the next operation has 4+n kinds
template <unsigned N>
void run_hist() {
  PerBackend pb;
  Model m;
  unsigned idx = vf_param(0);
  for (unsigned i = 0; i < N; ++i) {
    unsigned r  = 4 + m.n;
    unsigned op = idx % r;
    idx /= r;
    if (!run_op(pb, m, i, op)) break;
  }
  vf_assume(idx == 0 || c09_died); // codes beyond the last feasible history
}
// Histories that reach the split ("vending machine change") path: the storage is filled completely, one or two allocations
// not at the bump end are freed, then smaller requests are served from the freed donor(s) and from the change.
// Selected by simulation out of the pts_family space below; the final check confirms each of them really splits.
const unsigned char SPLIT_HIST[][9] = {
  {2,2,4,0,0,255,255,255,255},
  {2,2,4,0,1,255,255,255,255},
  {2,2,4,1,0,255,255,255,255},
  {2,2,4,1,1,255,255,255,255},
  {1,1,2,4,0,0,255,255,255},
  {1,1,2,5,0,0,255,255,255},
  {2,1,1,4,0,0,255,255,255},
  {2,1,1,4,0,1,255,255,255},
  {2,1,1,4,1,0,255,255,255},
  {2,1,1,4,1,1,255,255,255},
  {2,1,1,5,0,0,255,255,255},
  {1,2,1,4,0,0,255,255,255},
  {1,2,1,5,0,0,255,255,255},
  {1,2,1,5,0,1,255,255,255},
  {1,2,1,5,1,0,255,255,255},
  {1,2,1,5,1,1,255,255,255},
  {0,0,1,2,6,0,0,255,255},
  {2,0,0,1,4,0,0,255,255},
  {2,0,0,1,4,0,1,255,255},
  {2,0,0,1,4,1,0,255,255},
  {2,0,0,1,4,1,1,255,255},
  {1,1,2,4,4,0,0,255,255},
  {1,1,2,5,4,0,0,255,255},
  {2,1,1,4,4,0,0,255,255},
  {2,1,1,4,4,0,1,255,255},
  {2,1,1,5,4,0,0,255,255},
  {2,1,1,5,4,0,1,255,255},
  {1,2,1,4,4,0,0,255,255},
  {1,2,1,4,4,0,1,255,255},
  {1,2,1,5,4,0,0,255,255},
  {1,2,1,5,4,0,1,255,255},
  {2,0,0,1,4,4,1,1,255},
  {2,0,0,1,4,5,1,1,255},
  {2,0,0,1,5,4,1,1,255},
  {2,0,0,1,6,4,1,1,255},
  {2,2,4,0,0,1,255,255,255},
  {2,2,4,0,1,0,255,255,255},
  {2,1,1,4,0,0,1,255,255},
  {2,1,1,4,0,1,0,255,255},
  {1,2,1,5,0,0,1,255,255},
  {1,2,1,5,0,1,0,255,255},
  {2,0,0,1,4,0,0,1,255},
  {2,0,0,1,4,0,1,0,255},
};
constexpr unsigned NSPLIT = sizeof(SPLIT_HIST) / sizeof(SPLIT_HIST[0]);
void pts_split_body() {
  PerBackend pb;
  Model m;
  const unsigned char* h = SPLIT_HIST[vf_param(0) < NSPLIT ? vf_param(0) : 0];
  for (unsigned i = 0; i < 9; ++i) {
    if (h[i] == 255) break;
    bool ok = run_op(pb, m, i, h[i]);
    VF_CHECKM(ok, "selected history does not run out of storage");
    if (!ok) return;
  }
  VF_CHECKM(g_splits >= 1, "selected history reaches the split path");
}
// fill pattern (6) x freed allocation (4) x two further allocations (3 classes each)
const unsigned char FILL[6][5] = {{2, 2, 255}, {1, 1, 2, 255}, {2, 1, 1, 255}, {1, 2, 1, 255}, {0, 0, 1, 2, 255}, {2, 0, 0, 1, 255}};
void pts_family_body() {
  PerBackend pb;
  Model m;
  const unsigned char* f = FILL[vf_param(0) < 6 ? vf_param(0) : 0];
  unsigned pos = 0;
  for (unsigned i = 0; i < 5; ++i) {
    if (f[i] == 255) break;
    if (!run_op(pb, m, pos++, f[i])) return;
  }
  vf_assume(vf_param(1) < m.n);
  if (!run_op(pb, m, pos++, 4 + vf_param(1))) return;
  if (!run_op(pb, m, pos++, vf_param(2))) return;
  if (!run_op(pb, m, pos++, vf_param(3))) return;
}
} // namespace

OB(pts_hist3) { run_hist<3>(); }
OB(pts_hist4) { run_hist<4>(); }
OB(pts_hist5) { run_hist<5>(); }
// fill with two allocations, free one of them, allocate twice more: reaches exact reuse, the split of a bigger donor, and the
// reuse of the change produced by the split
OB(pts_split) { pts_split_body(); }
OB(pts_family) { pts_family_body(); }
