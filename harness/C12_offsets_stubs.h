/* External-function models for the C12 units (the same text is used by every C12_* unit).
 * One-file in-memory file system + mmap as heap blocks of EXACTLY the requested / available length, so that any
 * access past a mapping or past the end of the file is an out-of-bounds access for the checker. */
#include "vf_rt.h"
#ifndef VF_C12_STUBS_H
#define VF_C12_STUBS_H

static char* vf_fs_data;     /* contents of the single model file */
static uint64_t vf_fs_len;
static uint8_t vf_fs_exists;

/* open(path, flags[, mode]): the path is ignored (one file); O_WRONLY(1)|O_CREAT|O_TRUNC creates/truncates -> fd 3,
 * O_RDONLY of an existing file -> fd 4 */
#define VF_HAVE_x_open
VF_X uint32_t x_open(char* path, uint32_t flags) {
  if (flags & 1u) { vf_fs_data = 0; vf_fs_len = 0; vf_fs_exists = 1; return 3; }
  VF_ASSUME(vf_fs_exists);
  return 4;
}
/* write(fd, p, n): appends all n bytes (no short writes) */
#define VF_HAVE_x_write
VF_X uint64_t x_write(uint32_t fd, char* p, uint64_t n) {
  char* q = x_malloc(vf_fs_len + n);
  if (vf_fs_len) memcpy(q, vf_fs_data, vf_fs_len);
  if (n) memcpy(q + vf_fs_len, p, n);
  vf_fs_data = q;
  vf_fs_len += n;
  return n;
}
#define VF_HAVE_x_close
VF_X uint32_t x_close(uint32_t fd) { return 0; }
/* fstat: only st_size (offset 48 of struct stat on x86-64 Linux) is filled in */
#define VF_HAVE_x_fstat
VF_X uint32_t x_fstat(uint32_t fd, char* st) { *(uint64_t*)(st + 48) = vf_fs_len; return 0; }
/* mmap: anonymous (fd == -1) = zero-filled block of exactly len bytes; file mapping = private copy of
 * file[off, off+len) cut at the end of the file (no zero-filled page tail: reading past EOF is out of bounds) */
#define VF_HAVE_x_mmap
VF_X char* x_mmap(char* addr, uint64_t len, uint32_t prot, uint32_t flags, uint32_t fd, uint64_t off) {
  if (fd == 0xffffffffu) return x_calloc(len, 1);
  uint64_t n = off >= vf_fs_len ? 0 : (len < vf_fs_len - off ? len : vf_fs_len - off);
  char* p = x_malloc(n);
  if (n) memcpy(p, vf_fs_data + off, n);
  return p;
}
#define VF_HAVE_x_munmap
VF_X uint32_t x_munmap(char* p, uint64_t len) { free(p); return 0; }
/* <iostream> static initialiser object: no observable effect */
/* std::condition_variable of the (never used) thread-pool mailbox ThreadPool::my_box */
#endif
