// UNIT: id=C05 checks=min cxxflags="-DVF_PTS_BYTES=256" threads=3 hb=0 plain=invisible validate=0 validate_reason="concurrent unit: the schedule is a solver variable of the sequentialised step machine"
// ASSUME: threads are sequentialised by ir2c: every atomic access is a scheduling point; plain accesses are glued (the per-thread sense word and fields only written by reinit())
// ASSUME: CBMC's per-dereference pointer checks are off in this unit (checks=min: they multiply the formula beyond memory); harness assertions, deadlock probe, step-bound and unwinding assertions are on
// ASSUME: values follow SC interleavings
// ASSUME: topology = one of 5 thread->socket maps of T=3 threads allowed by HWTopoLinux.cpp (socket(0)=0, a new socket id is max+1, leader = least tid of the socket, cumulativeMaxSocket = running maximum; membership need not be contiguous): {0,0,0} {0,0,1} {0,1,1} {0,1,0} {0,1,2}; the pool object is a harness fake whose signals[] point to the modelled threads' real thread_local my_box; PerThreadStorage/PerSocketStorage are the real code over 256-byte blocks (C15_env.h)
// OB: ob_topo_T3 tier=thorough unwind=90 timeout=3000 solver=cadical mem_gb=14 cbmc="--max-field-sensitivity-array-size 300" params=5 bounds="TopoBarrier: T=3 x 2 phases, 5 topologies (one query each), 60 steps" desc="no thread leaves its k-th wait before all entered it; all return; no deadlock"
// OB: ob_topo_T2 tier=quick unwind=90 timeout=1500 solver=cadical mem_gb=10 cbmc="--max-field-sensitivity-array-size 300" params=2 bounds="TopoBarrier: T=2 x 3 phases, topologies {0,0} {0,1}, 44 steps" desc="phase separation over three phases"
#include "C15_env.h"
#include "galois/substrate/Barrier.h"
#include "../src/Barrier.cpp"
#include "../src/Barrier_Topo.cpp"

using namespace galois::substrate;
extern "C" void vf_sched_topo(unsigned n, unsigned steps);
extern "C" void vf_sched_topo3(unsigned n, unsigned steps);
extern "C" void vf_call_topoenv(unsigned t);

namespace {
const unsigned char SOCK[5][3] = {{0, 0, 0}, {0, 0, 1}, {0, 1, 1}, {0, 1, 0}, {0, 1, 2}};
unsigned vfg_topo;
unsigned vfg_phase[3], vfg_n;
TopoBarrier* vfg_tb;

char* vfg_pss[3];
inline void env(unsigned tid, bool firstTime) {
  auto& me        = ThreadPool::my_box;
  const unsigned char* s = SOCK[vfg_topo];
  unsigned leader = 0, cum = 0;
  for (unsigned u = 0; u <= tid; ++u) {
    if (s[u] > cum) cum = s[u];
  }
  for (unsigned u = 0; u < 3; ++u)
    if (s[u] == s[tid]) { leader = u; break; }
  me.topo.tid                 = tid;
  me.topo.socket              = s[tid];
  me.topo.socketLeader        = leader;
  me.topo.cumulativeMaxSocket = cum;
  ptsBase                     = vfenv::base[tid];
  getThreadPool().signals[tid] = &me;
  if (firstTime) vfg_pss[tid] = getPPSBackend().initPerSocket(3); // real per-socket backend: leaders allocate, others share
  pssBase = vfg_pss[tid];
}

template <unsigned NPH>
inline void phases(unsigned tid) {
  for (unsigned k = 1; k <= NPH; ++k) {
    vfg_phase[tid] = k;
    vfg_tb->TopoBarrier::wait();
    for (unsigned u = 0; u < vfg_n; ++u)
      vf_assert(vfg_phase[u] >= k, "a thread returned from its k-th wait before every participant had entered its k-th wait");
  }
}
} // namespace

extern "C" void vf_tseq_topoenv(unsigned tid) { env(tid, true); }
extern "C" void vf_tinit_topo(unsigned tid) { env(tid, false); }
extern "C" void vf_tinit_topo3(unsigned tid) { env(tid, false); }
extern "C" void vf_thread_topo(unsigned tid) { phases<2>(tid); }
extern "C" void vf_thread_topo3(unsigned tid) { phases<3>(tid); }

static void setup(unsigned T, unsigned topo) {
  vfg_topo = topo;
  vfenv::init(3);
  ThreadPool& tp = getThreadPool();
  new (&tp.signals) std::vector<ThreadPool::per_signal*>();
  tp.signals.resize(3);
  unsigned maxs = 0;
  for (unsigned t = 0; t < 3; ++t) {
    vf_call_topoenv(t);
    if (SOCK[topo][t] > maxs) maxs = SOCK[topo][t];
  }
  tp.mi.maxSockets = maxs + 1;
  vfg_tb           = new TopoBarrier(T);
  vfg_n            = T;
}

OB(topo_T3) {
  setup(3, vf_param(0));
  vf_sched_topo(3, 60);
  for (unsigned u = 0; u < 3; ++u) VF_CHECKM(vfg_phase[u] == 2, "every participant completed all phases");
}
OB(topo_T2) {
  setup(2, vf_param(0) == 0 ? 0 : 2); // {0,0,*} or {0,1,*}
  vf_sched_topo3(2, 44);
  for (unsigned u = 0; u < 2; ++u) VF_CHECKM(vfg_phase[u] == 3, "every participant completed all phases");
}
