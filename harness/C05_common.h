// shared by C05_barriers.cpp (plain accesses glued) and C05_barriers_pv.cpp (plain accesses are scheduling points)
#pragma once
#include "vf.h"
#include <condition_variable>
#include <mutex>
#include "galois/substrate/ThreadPool.h"
#include "galois/substrate/Barrier.h"

namespace galois {
namespace substrate {
thread_local ThreadPool::per_signal ThreadPool::my_box;
}
} // namespace galois

#include "../src/Barrier.cpp"
#include "../src/Barrier_Counting.cpp"
#include "../src/Barrier_MCS.cpp"
#include "../src/Barrier_Dissemination.cpp"

extern "C" void vf_sched_counting(unsigned n, unsigned steps);
extern "C" void vf_sched_counting1(unsigned n, unsigned steps);
extern "C" void vf_sched_mcs(unsigned n, unsigned steps);
extern "C" void vf_sched_dissem(unsigned n, unsigned steps);
extern "C" void vf_sched_dissem3(unsigned n, unsigned steps);

namespace {
unsigned vfg_phase[4]; // ghost: the phase each thread has announced (stamped before its k-th wait)
unsigned vfg_n;        // ghost: participants of the current region
unsigned vfg_base;     // ghost: phases completed in earlier regions
CountingBarrier* vfg_cb;
MCSBarrier* vfg_mb;
DisseminationBarrier* vfg_db;

template <typename B>
inline void phases(B* b, unsigned tid, unsigned nph) {
  for (unsigned k = 1; k <= nph; ++k) {
    vfg_phase[tid] = vfg_base + k;
    b->B::wait();
    for (unsigned u = 0; u < vfg_n; ++u)
      vf_assert(vfg_phase[u] >= vfg_base + k, "a thread returned from its k-th wait before every participant had entered its k-th wait");
  }
}
void check_done(unsigned n, unsigned k) {
  for (unsigned u = 0; u < n; ++u) VF_CHECKM(vfg_phase[u] == k, "every participant completed all phases");
}
} // namespace

// per-thread environment, executed unconditionally before the scheduler starts (keeps the thread id a constant)
#define TINIT(name) extern "C" void vf_tinit_##name(unsigned tid) { galois::substrate::ThreadPool::my_box.topo.tid = tid; }
TINIT(counting) TINIT(counting1) TINIT(mcs) TINIT(dissem) TINIT(dissem3)
extern "C" void vf_thread_counting(unsigned tid) { phases(vfg_cb, tid, 2); }
extern "C" void vf_thread_counting1(unsigned tid) { phases(vfg_cb, tid, 1); }
extern "C" void vf_thread_mcs(unsigned tid) { phases(vfg_mb, tid, 2); }
extern "C" void vf_thread_dissem(unsigned tid) { phases(vfg_db, tid, 2); }
extern "C" void vf_thread_dissem3(unsigned tid) { phases(vfg_db, tid, 3); }


#ifndef S_COUNT2
#define S_COUNT2 24
#define S_COUNT3 36
#define S_MCS2 50
#define S_MCS3 80
#define S_DIS2 20
#define S_DIS3 50
#endif
OB(counting_T2) {
  vfg_cb = new CountingBarrier(2);
  vfg_n  = 2;
  vf_sched_counting(2, S_COUNT2);
  check_done(2, 2);
}
OB(counting_T3) {
  vfg_cb = new CountingBarrier(3);
  vfg_n  = 3;
  vf_sched_counting(3, S_COUNT3);
  check_done(3, 2);
}
OB(counting_reinit) {
  vfg_cb = new CountingBarrier(2);
  vfg_n  = 2;
  vf_sched_counting1(2, S_COUNT2 / 2 + 2);
  check_done(2, 1);
  vfg_cb->reinit(3);
  vfg_n    = 3;
  vfg_base = 1;
  vfg_phase[2] = 1;
  vf_sched_counting1(3, S_COUNT3 / 2 + 2);
  check_done(3, 2);
}
OB(mcs_T2) {
  vfg_mb = new MCSBarrier(2);
  vfg_n  = 2;
  vf_sched_mcs(2, S_MCS2);
  check_done(2, 2);
}
OB(mcs_T3) {
  vfg_mb = new MCSBarrier(3);
  vfg_n  = 3;
  vf_sched_mcs(3, S_MCS3);
  check_done(3, 2);
}
OB(dissem_T2) {
  vfg_db = new DisseminationBarrier(2);
  vfg_n  = 2;
  vf_sched_dissem3(2, S_DIS2);
  check_done(2, 3);
}
OB(dissem_T3) {
  vfg_db = new DisseminationBarrier(3);
  vfg_n  = 3;
  vf_sched_dissem(3, S_DIS3);
  check_done(3, 2);
}
OB(single_thread) {
  galois::substrate::ThreadPool::my_box.topo.tid = 0;
  CountingBarrier c(1);
  MCSBarrier m(1);
  DisseminationBarrier d(1);
  for (unsigned k = 0; k < 3; ++k) {
    c.CountingBarrier::wait();
    m.MCSBarrier::wait();
    d.DisseminationBarrier::wait();
  }
}
