#include "ir2c.h"
#include <llvm/Support/CommandLine.h>
#include <llvm/Support/FileSystem.h>
#include <llvm/Analysis/LoopInfo.h>
#include <llvm/IR/Dominators.h>
#include <llvm/IR/Verifier.h>

// ---------------------------------------------------------------- private-address analysis
static bool escapes(const Value* V, std::set<const Value*>& seen) {
  if (!seen.insert(V).second) return false;
  for (const User* U : V->users()) {
    if (isa<LoadInst>(U)) continue;
    if (auto* S = dyn_cast<StoreInst>(U)) {
      if (S->getValueOperand() == V) return true;
      continue;
    }
    if (isa<GetElementPtrInst>(U) || isa<BitCastInst>(U) || isa<PHINode>(U) || isa<SelectInst>(U)) {
      if (escapes(U, seen)) return true;
      continue;
    }
    if (isa<ICmpInst>(U)) continue;
    if (auto* CB = dyn_cast<CallBase>(U)) {
      const Function* c = dyn_cast<Function>(CB->getCalledOperand()->stripPointerCasts());
      if (c && c->isIntrinsic()) {
        switch (c->getIntrinsicID()) {
        case Intrinsic::lifetime_start: case Intrinsic::lifetime_end:
        case Intrinsic::memcpy: case Intrinsic::memmove: case Intrinsic::memset:
        case Intrinsic::dbg_declare: case Intrinsic::dbg_value:
          continue;
        default: break;
        }
      }
      if (c && (c->getName() == "vf_hb_write" || c->getName() == "vf_hb_read")) continue;
      return true;
    }
    if (isa<AtomicCmpXchgInst>(U) || isa<AtomicRMWInst>(U)) {
      // used as address: fine; used as value: escape
      if (U->getOperand(0) == V && U->getOperand(1) != V && (U->getNumOperands() < 3 || U->getOperand(2) != V)) continue;
      return true;
    }
    return true;
  }
  return false;
}

void FnEmitter::computePrivate() {
  for (const BasicBlock& BB : F)
    for (const Instruction& I : BB) {
      const Value* P = nullptr;
      if (auto* S = dyn_cast<StoreInst>(&I)) P = S->getPointerOperand();
      else if (isa<AtomicRMWInst>(I) || isa<AtomicCmpXchgInst>(I)) P = I.getOperand(0);
      if (P) {
        const Value* B = P->stripPointerCasts();
        if (auto* G = dyn_cast<GEPOperator>(B)) B = G->getPointerOperand()->stripPointerCasts();
        if (auto* GV = dyn_cast<GlobalVariable>(B))
          if (GV->isThreadLocal()) tlsStored.insert(GV);
      }
    }
  for (const BasicBlock& BB : F)
    for (const Instruction& I : BB)
      if (auto* A = dyn_cast<AllocaInst>(&I)) {
        std::set<const Value*> seen;
        if (!escapes(A, seen)) privatePtrs.insert(A);
      }
  bool ch = true;
  while (ch) {
    ch = false;
    for (const BasicBlock& BB : F)
      for (const Instruction& I : BB) {
        if (privatePtrs.count(&I)) continue;
        bool p = false;
        if (isa<GetElementPtrInst>(I) || isa<BitCastInst>(I)) p = privatePtrs.count(I.getOperand(0));
        else if (auto* PN = dyn_cast<PHINode>(&I)) {
          p = PN->getType()->isPointerTy() && PN->getNumIncomingValues() > 0;
          for (const Value* in : PN->incoming_values()) if (!privatePtrs.count(in)) p = false;
        } else if (auto* S = dyn_cast<SelectInst>(&I))
          p = S->getType()->isPointerTy() && privatePtrs.count(S->getTrueValue()) && privatePtrs.count(S->getFalseValue());
        if (p) { privatePtrs.insert(&I); ch = true; }
      }
  }
}

bool FnEmitter::isPrivateAddr(const Value* P) {
  if (privatePtrs.count(P)) return true;
  const Value* B = P;
  for (int i = 0; i < 32; ++i) {
    B = B->stripPointerCasts();
    if (auto* G = dyn_cast<GEPOperator>(B)) { B = G->getPointerOperand(); continue; }
    break;
  }
  if (privatePtrs.count(B)) return true;
  if (auto* GV = dyn_cast<GlobalVariable>(B)) {
    if (GV->isThreadLocal()) return true;
    if (GV->isConstant()) return true;
    for (auto& pre : T.ghostPrefixes) if (GV->getName().contains(pre)) return true;
  }
  return false;
}

static const MDNode* tbaaAccessType(const Instruction& I) {
  if (const MDNode* N = I.getMetadata(LLVMContext::MD_tbaa))
    if (N->getNumOperands() >= 3)
      if (auto* AT = dyn_cast<MDNode>(N->getOperand(1))) return AT;
  return nullptr;
}
static bool isCharTbaa(const MDNode* AT) {
  if (AT->getNumOperands() >= 1)
    if (auto* S = dyn_cast<MDString>(AT->getOperand(0))) return S->getString() == "omnipotent char";
  return false;
}

// A plain load is not a scheduling point if no thread body of the module contains a write that may alias it.
// Two accesses are provably disjoint if (a) both carry TBAA access types and these differ (the compiler's own
// type-based no-alias assumption), or (b) both address a constant offset of the same struct type (field
// sensitivity) and the byte ranges do not overlap.  Data that is only read while the threads run cannot be
// observed differently under any interleaving.
static AccessDesc describeAccess(const Instruction& I, const Value* P, Type* VT, const DataLayout& DL) {
  AccessDesc d;
  d.tbaa = tbaaAccessType(I);
  if (d.tbaa && isCharTbaa(d.tbaa)) d.tbaa = nullptr;
  d.size = VT->isSized() ? DL.getTypeStoreSize(VT) : 0;
  d.isPtr = VT->isPointerTy();
  const Value* B = P->stripPointerCasts();
  if (auto* G = dyn_cast<GEPOperator>(B)) {
    APInt o(64, 0);
    if (G->accumulateConstantOffset(DL, o) && G->getSourceElementType()->isStructTy()) {
      d.st = G->getSourceElementType();
      d.off = o.getSExtValue();
    }
  }
  return d;
}
static bool provablyDisjoint(const AccessDesc& a, const AccessDesc& b) {
  // type safety: a scalar object is accessed with one scalar size, and either as a pointer or as a non-pointer
  if (a.size && b.size && a.size != b.size) return true;
  if (a.size && b.size && a.isPtr != b.isPtr) return true;
  // an access with no type/field information (e.g. an atomic store through a loaded pointer) is assumed to touch
  // only scalars of its own size
  // (type safety: a scalar object is accessed either as a pointer or as an integer, never both)
  if ((!a.tbaa && !a.st) || (!b.tbaa && !b.st)) return (a.size && b.size && a.size != b.size) || a.isPtr != b.isPtr;
  if (a.tbaa && b.tbaa && a.tbaa != b.tbaa) return true;
  if (a.st && b.st && a.st == b.st && a.size && b.size)
    if (a.off + (int64_t)a.size <= b.off || b.off + (int64_t)b.size <= a.off) return true;
  return false;
}

void Translator::computeStoredTypes(const Function* only) {
  storedTypesKnown = true;
  storedUnknown = false;
  writes.clear();
  for (const Function& F : M) {
    if (&F != only) continue;
    for (const BasicBlock& BB : F)
      for (const Instruction& I : BB) {
        const Value* P = nullptr;
        Type* VT = nullptr;
        if (auto* S = dyn_cast<StoreInst>(&I)) { P = S->getPointerOperand(); VT = S->getValueOperand()->getType(); }
        else if (auto* X = dyn_cast<AtomicRMWInst>(&I)) { P = X->getPointerOperand(); VT = X->getValOperand()->getType(); }
        else if (auto* X = dyn_cast<AtomicCmpXchgInst>(&I)) { P = X->getPointerOperand(); VT = X->getNewValOperand()->getType(); }
        else if (auto* CB = dyn_cast<CallBase>(&I)) {
          if (auto* c = dyn_cast<Function>(CB->getCalledOperand()->stripPointerCasts()))
            if (c->isIntrinsic() && (c->getIntrinsicID() == Intrinsic::memcpy || c->getIntrinsicID() == Intrinsic::memmove ||
                                     c->getIntrinsicID() == Intrinsic::memset || c->getIntrinsicID() == Intrinsic::memcpy_inline)) {
              const Value* D = CB->getArgOperand(0)->stripPointerCasts();
              if (auto* G = dyn_cast<GEPOperator>(D)) D = G->getPointerOperand()->stripPointerCasts();
              bool priv = isa<AllocaInst>(D) || (isa<GlobalVariable>(D) && cast<GlobalVariable>(D)->isThreadLocal());
              if (!priv) storedUnknown = true;
            }
          continue;
        } else
          continue;
        const Value* B = P->stripPointerCasts();
        if (auto* G = dyn_cast<GEPOperator>(B)) B = G->getPointerOperand()->stripPointerCasts();
        if (isa<AllocaInst>(B)) continue;
        if (auto* GV = dyn_cast<GlobalVariable>(B)) {
          if (GV->isThreadLocal()) continue;
          bool ghost = false;
          for (auto& pre : ghostPrefixes) if (GV->getName().contains(pre)) ghost = true;
          if (ghost) continue;
        }
        AccessDesc d = describeAccess(I, P, VT, DL);
        if (!d.tbaa && !d.st && !d.size) storedUnknown = true;
        if (getenv("IR2C_DEBUG")) { errs() << F.getName() << " write tbaa=" << (d.tbaa ? cast<MDString>(d.tbaa->getOperand(0))->getString() : "-") << " st=" << (d.st ? "y" : "-") << " off=" << d.off << " size=" << d.size << " : "; I.print(errs()); errs() << "\n"; }
        writes.push_back(d);
      }
  }
}

bool FnEmitter::isReadOnlyLoad(const LoadInst& L) {
  if (L.isAtomic() || L.isVolatile()) return false;
  if (!T.storedTypesKnown || T.storedUnknown) return false;
  AccessDesc d = describeAccess(L, L.getPointerOperand(), L.getType(), T.DL);
  for (auto& w : T.writes)
    if (!provablyDisjoint(d, w)) return false;
  return true;
}

// Rematerialisation (step mode): the address of a memory access is recomputed right at the access from values that
// cannot have changed (constants, pure arithmetic, loads of thread-local variables this body never stores to, loads
// of data no thread body may write).  The static SSA variables hold the same values, but they were assigned under
// the guard of an earlier step, so CBMC would see a symbolic pointer and byte-update whole objects; recomputed from
// constants the address folds to a constant.
bool FnEmitter::rematChain(const Value* V, std::vector<const Instruction*>& out, std::set<const Value*>& seen, unsigned depth) {
  auto* I = dyn_cast<Instruction>(V);
  if (!I) return true; // constants and arguments (the thread id) are stable
  if (seen.count(I)) return true;
  if (depth > 24) return false;
  bool ok = false;
  switch (I->getOpcode()) {
  case Instruction::GetElementPtr: case Instruction::BitCast: case Instruction::ZExt: case Instruction::SExt:
  case Instruction::Trunc: case Instruction::PtrToInt: case Instruction::IntToPtr: case Instruction::Add:
  case Instruction::Sub: case Instruction::Mul: case Instruction::Shl: case Instruction::And: case Instruction::Or:
  case Instruction::LShr: case Instruction::URem: case Instruction::UDiv:
    ok = true;
    break;
  case Instruction::Load: {
    auto* L = cast<LoadInst>(I);
    if (L->isAtomic() || L->isVolatile()) break;
    const Value* B = L->getPointerOperand()->stripPointerCasts();
    if (auto* G = dyn_cast<GEPOperator>(B)) B = G->getPointerOperand()->stripPointerCasts();
    if (auto* GV = dyn_cast<GlobalVariable>(B)) {
      if (GV->isThreadLocal() && !tlsStored.count(GV)) ok = true;
      if (GV->isConstant()) ok = true;
    }
    if (!ok && isReadOnlyLoad(*L)) ok = true;
    break;
  }
  default: break;
  }
  if (!ok) return false;
  if ((I->getOpcode() == Instruction::URem || I->getOpcode() == Instruction::UDiv) && !isa<ConstantInt>(I->getOperand(1))) {
    // division by a non-constant: only if the divisor itself is stable (checked below) - fine, it was executed before
  }
  std::vector<const Instruction*> sub;
  std::set<const Value*> subSeen = seen;
  for (const Use& U : I->operands())
    if (!rematChain(U.get(), sub, subSeen, depth + 1)) return false;
  seen = subSeen;
  out.insert(out.end(), sub.begin(), sub.end());
  seen.insert(I);
  out.push_back(I);
  return true;
}

void FnEmitter::emitRemat(const Value* P) {
  if (!step) return;
  std::vector<const Instruction*> chain;
  std::set<const Value*> seen;
  if (!rematChain(P, chain, seen, 0)) {
    // partial: rematerialise what can be, operand by operand
    if (auto* I = dyn_cast<Instruction>(P))
      if (isa<GetElementPtrInst>(I) || isa<BitCastInst>(I)) {
        for (const Use& U : I->operands()) {
          std::vector<const Instruction*> c2;
          std::set<const Value*> s2;
          if (rematChain(U.get(), c2, s2, 0))
            for (auto* J : c2) emitInst(*J);
        }
        emitInst(*I);
      }
    return;
  }
  for (auto* J : chain) emitInst(*J);
}

FnEmitter::Vis FnEmitter::visibility(const Instruction& I) {
  if (auto* L = dyn_cast<LoadInst>(&I)) {
    if (L->isAtomic() || L->isVolatile()) return isPrivateAddr(L->getPointerOperand()) ? INVISIBLE : VIS_READ;
    if (isPrivateAddr(L->getPointerOperand())) return INVISIBLE;
    if (isReadOnlyLoad(*L)) {
      T.readOnlyLoads++;
      return INVISIBLE;
    }
    return T.plainVisible ? VIS_READ : INVISIBLE;
  }
  if (auto* S = dyn_cast<StoreInst>(&I)) {
    if (isPrivateAddr(S->getPointerOperand())) return INVISIBLE;
    if (S->isAtomic() || S->isVolatile()) return VIS_WRITE;
    return T.plainVisible ? VIS_WRITE : INVISIBLE;
  }
  if (isa<AtomicCmpXchgInst>(I)) return isPrivateAddr(I.getOperand(0)) ? INVISIBLE : VIS_CAS;
  if (isa<AtomicRMWInst>(I)) return isPrivateAddr(I.getOperand(0)) ? INVISIBLE : VIS_WRITE;
  if (auto* CB = dyn_cast<CallBase>(&I)) {
    if (CB->isInlineAsm()) return INVISIBLE; // pause handled at emission
    const Function* c = dyn_cast<Function>(CB->getCalledOperand()->stripPointerCasts());
    if (!c) return VIS_WRITE; // indirect call inside a thread body: treat as a scheduling point
    if (c->isIntrinsic()) {
      switch (c->getIntrinsicID()) {
      case Intrinsic::memcpy: case Intrinsic::memmove: case Intrinsic::memcpy_inline:
        if (isPrivateAddr(CB->getArgOperand(0)) && isPrivateAddr(CB->getArgOperand(1))) return INVISIBLE;
        return T.plainVisible ? VIS_WRITE : INVISIBLE;
      case Intrinsic::memset:
        if (isPrivateAddr(CB->getArgOperand(0))) return INVISIBLE;
        return T.plainVisible ? VIS_WRITE : INVISIBLE;
      default: return INVISIBLE;
      }
    }
    if (c->getName() == "vf_yield") return VIS_READ;
    if (c->getName() == "pthread_mutex_lock") return VIS_BLOCKING;
    if (c->getName() == "pthread_mutex_unlock" || c->getName() == "_ZNSt18condition_variable10notify_oneEv" ||
        c->getName() == "_ZNSt18condition_variable10notify_allEv")
      return VIS_WRITE;
    if (c->getName() == "_ZNSt18condition_variable4waitERSt11unique_lockISt5mutexE") return VIS_WRITE; // first of three steps
    if (T.visibleCalls.count(c->getName().str())) return VIS_BLOCKING;
    return INVISIBLE;
  }
  return INVISIBLE;
}

void FnEmitter::emitYieldHead(Vis v, const Instruction& I) {
  int p = nextPc++;
  pcs.push_back(p);
  std::string k = std::to_string(tid);
  body << "  vf_pc[" << k << "] = " << p << "; if (!vf_probe_mode) return;\n";
  body << " R" << p << ": ;\n";
}

void FnEmitter::emitYieldProbe(Vis v, const Instruction& I) {
  std::string k = std::to_string(tid);
  switch (v) {
  case VIS_WRITE:
    body << "  if (vf_probe_mode) { vf_enabled[" << k << "] = 1; return; }\n";
    break;
  case VIS_CAS: {
    auto& X = cast<AtomicCmpXchgInst>(I);
    body << "  if (vf_probe_mode && " << lvalue(X.getPointerOperand(), X.getCompareOperand()->getType())
         << " == " << val(X.getCompareOperand()) << ") { vf_enabled[" << k << "] = 1; return; }\n";
    break;
  }
  default: break;
  }
}

// ---------------------------------------------------------------- function emission
void FnEmitter::run(raw_ostream& os) {
  if (F.isVarArg()) refuse("body of vararg function " + F.getName().str());
  nameValues();
  for (const BasicBlock& BB : F)
    for (const Instruction& I : BB)
      if (auto* CB = dyn_cast<CallBase>(&I))
        if (auto* c = dyn_cast<Function>(CB->getCalledOperand()->stripPointerCasts()))
          if (c->getName() == "_setjmp" || c->getName() == "setjmp" || c->getName() == "__sigsetjmp") { usesSetjmp = true; setjmpVal = &I; }
  if (step) computePrivate();
  std::string st = step ? "static " : "";
  const Instruction* setjmpCall = nullptr;
  // declarations
  for (const BasicBlock& BB : F)
    for (const Instruction& I : BB) {
      if (auto* A = dyn_cast<AllocaInst>(&I)) {
        Type* AT = A->getAllocatedType();
        uint64_t al = A->getAlign().value();
        if (A->isStaticAlloca() || isa<ConstantInt>(A->getArraySize())) {
          uint64_t cnt = cast<ConstantInt>(A->getArraySize())->getZExtValue();
          uint64_t sz = T.DL.getTypeAllocSize(AT) * cnt;
          if (sz == 0) sz = 1;
          bool typed = cnt == 1 && T.DL.getTypeAllocSize(AT) > 0;
          if (typed)
            decls << "  " << st << ty(AT) << " " << lname[&I] << "_m __attribute__((aligned(" << al << ")));\n";
          else
            decls << "  " << st << "char " << lname[&I] << "_m[" << sz << "] __attribute__((aligned(" << al << ")));\n";
          decls << "  " << st << "char* " << lname[&I] << ";\n";
        } else {
          decls << "  " << st << "char* " << lname[&I] << ";\n";
        }
        continue;
      }
      if (I.getType()->isVoidTy()) continue;
      if (T.DL.getTypeAllocSize(I.getType()) == 0 && (I.getType()->isStructTy() || I.getType()->isArrayTy())) {
        decls << "  " << st << ty(I.getType()) << " " << lname[&I] << ";\n";
        continue;
      }
      decls << "  " << st << ty(I.getType()) << " " << lname[&I] << ";\n";
      if (isa<PHINode>(I)) decls << "  " << st << ty(I.getType()) << " " << lname[&I] << "_t;\n";
      if (auto* CB = dyn_cast<CallBase>(&I))
        if (auto* c = dyn_cast<Function>(CB->getCalledOperand()->stripPointerCasts()))
          if (c->getName() == "_setjmp" || c->getName() == "setjmp" || c->getName() == "__sigsetjmp") setjmpCall = &I;
    }
  // body
  for (const BasicBlock& BB : F) {
    body << " " << bname[&BB] << ": ;\n";
    for (const Instruction& I : BB) {
      if (auto* A = dyn_cast<AllocaInst>(&I)) {
        if (A->isStaticAlloca() || isa<ConstantInt>(A->getArraySize()))
          body << "  " << lname[&I] << " = (char*)&" << lname[&I] << "_m;\n";
        else
          body << "  " << lname[&I] << " = vf_alloca((uint64_t)" << val(A->getArraySize()) << " * "
               << T.DL.getTypeAllocSize(A->getAllocatedType()) << "ull);\n";
        continue;
      }
      if (step) {
        pauseNextPc = -1;
        if (auto* CBp = dyn_cast<CallBase>(&I))
          if (CBp->isInlineAsm()) { // a pause: does a scheduling point follow in the same block?
            for (const Instruction* J = I.getNextNode(); J; J = J->getNextNode())
              if (visibility(*J) != INVISIBLE) { pauseNextPc = nextPc; break; }
          }
        Vis v = visibility(I);
        const Value* addr = nullptr;
        if (auto* L = dyn_cast<LoadInst>(&I)) addr = L->getPointerOperand();
        else if (auto* S = dyn_cast<StoreInst>(&I)) addr = S->getPointerOperand();
        else if (isa<AtomicRMWInst>(I) || isa<AtomicCmpXchgInst>(I)) addr = I.getOperand(0);
        if (v != INVISIBLE) emitYieldHead(v, I);
        if (addr) emitRemat(addr);
        if (v != INVISIBLE) emitYieldProbe(v, I);
        emitInst(I);
        if (v == VIS_BLOCKING)
          body << "  if (vf_probe_mode) { if (!vf_blocked[" << tid << "]) vf_enabled[" << tid << "] = 1; return; }\n";
        if (auto* CBW = dyn_cast<CallBase>(&I))
          if (auto* cw = dyn_cast<Function>(CBW->getCalledOperand()->stripPointerCasts()))
            if (cw->getName() == "_ZNSt18condition_variable4waitERSt11unique_lockISt5mutexE") {
              // condition_variable::wait = release the mutex and remember the notification count (the call above),
              // block until notified, re-acquire the mutex: two further (blocking) scheduling points
              for (int phase = 0; phase < 2; ++phase) {
                int pc = nextPc++;
                pcs.push_back(pc);
                body << "  vf_pc[" << tid << "] = " << pc << "; if (!vf_probe_mode) return;\n R" << pc << ": ;\n";
                body << "  " << (phase == 0 ? "vf_cv_wait_block(" : "vf_cv_wait_relock(") << val(CBW->getArgOperand(0)) << ", " << val(CBW->getArgOperand(1)) << ");\n";
                body << "  if (vf_dead) return;\n";
                body << "  if (vf_probe_mode) { if (!vf_blocked[" << tid << "]) vf_enabled[" << tid << "] = 1; return; }\n";
              }
            }
      } else
        emitInst(I);
    }
  }
  // header
  std::string name = T.globalName(&F);
  if (step) {
    os << "void " << name << "__t" << tid << "(void) {\n";
    for (const Argument& A : F.args()) {
      if (A.getArgNo() != 0 || !A.getType()->isIntegerTy()) refuse("thread entry must take exactly one integer tid");
      os << "  const " << ty(A.getType()) << " " << lname[&A] << " = " << tid << ";\n";
    }
    os << decls.str();
    os << "  switch (vf_pc[" << tid << "]) {\n  case 0: break;\n";
    for (int p : pcs) os << "  case " << p << ": goto R" << p << ";\n";
    os << "  default: return;\n  }\n";
    os << body.str();
    os << " vf_thread_end: ;\n  vf_done[" << tid << "] = 1; vf_pc[" << tid << "] = 65535; vf_enabled[" << tid << "] = 1;\n  return;\n}\n\n";
    return;
  }
  if (tid >= 0) { // per-thread sequential copy (vf_tinit_*): tid is a constant, TLS resolves to copy tid
    os << "void " << name << "__t" << tid << "(void) {\n";
    for (const Argument& A : F.args()) {
      if (A.getArgNo() != 0 || !A.getType()->isIntegerTy()) refuse("thread init function must take exactly one integer tid");
      os << "  const " << ty(A.getType()) << " " << lname[&A] << " = " << tid << ";\n";
    }
  } else
    os << T.protoOf(&F, name) << " {\n";
  for (const Argument& A : F.args())
    if (tid < 0 && A.hasByValAttr()) {
      Type* BT = A.getParamByValType();
      if (T.DL.getTypeAllocSize(BT) == 0) continue;
      os << "  " << ty(BT) << " bv" << A.getArgNo() << " = *(" << ty(BT) << "*)" << lname[&A] << "; " << lname[&A]
         << " = (char*)&bv" << A.getArgNo() << ";\n";
    }
  os << decls.str();
  os << body.str();
  if (usesSetjmp) {
    if (!setjmpCall) refuse("setjmp bookkeeping");
    os << "  goto vf_setjmp_end;\n vf_setjmp_landing: ;\n  vf_unwinding = 0; " << lname[setjmpCall] << " = vf_jmpval; goto vf_after_setjmp;\n vf_setjmp_end: ;\n";
    if (F.getReturnType()->isVoidTy()) os << "  return;\n";
    else os << "  { " << ty(F.getReturnType()) << " vf_z; memset(&vf_z, 0, sizeof vf_z); return vf_z; }\n";
  }
  os << "}\n\n";
}

std::string Translator::protoOf(const Function* F, const std::string& name) {
  FunctionType* FT = F->getFunctionType();
  std::string s = cty(FT->getReturnType()) + " " + name + "(";
  bool first = true;
  for (unsigned i = 0; i < FT->getNumParams(); ++i) {
    Type* PT = FT->getParamType(i);
    if (DL.getTypeAllocSize(PT) == 0 && (PT->isStructTy() || PT->isArrayTy())) continue;
    if (!first) s += ", ";
    first = false;
    s += cty(PT) + " a" + std::to_string(i);
  }
  if (first) s += "void";
  return s + ")";
}

void Translator::emitFunction(raw_ostream& os, const Function& F, int tid, bool step) {
  FnEmitter E(*this, F, tid, step && tid >= 0);
  E.run(os);
}

void Translator::emitScheduler(raw_ostream& os, const Function& F) {
  std::string name = globalName(&F);
  std::string base = F.getName().str().substr(strlen("vf_thread_"));
  os << "void vf_sched_" << base << "(uint32_t n, uint32_t steps) {\n"
     << "  uint32_t s, t, live = 0, nblocked = 0; uint8_t stopped = 0;\n"
     << "  VF_ASSUME(n <= " << nthreads << ");\n"
     << "  vf_probe_mode = 0;\n"
     << "  for (t = 0; t < " << nthreads << "; ++t) { vf_pc[t] = 0; vf_done[t] = (t >= n); vf_enabled[t] = 0; vf_blocked[t] = 0; }\n"
     << "  vf_region_begin(n);\n";
  if (Function* TI = M.getFunction("vf_tinit_" + base))
    if (!TI->isDeclaration())
      for (int k = 0; k < nthreads; ++k) os << "  if (n > " << k << ") " << globalName(TI) << "__t" << k << "();\n";
  // no 'break' in this loop: an early exit would put the negated exit conditions of all earlier iterations into the
  // path guard of every later statement (formula size quadratic in the number of steps); a flag keeps each iteration's
  // guard a single literal
  os << "  uint8_t active = 1;\n"
     << "  for (s = 0; s < steps; ++s) {\n"
     << "    uint8_t all = 1; for (t = 0; t < " << nthreads << "; ++t) all &= vf_done[t];\n"
     << "    if (active && all) active = 0;\n"
     << "    if (active && vf_nondet_bool()) { stopped = 1; active = 0; }\n"
     << "    if (active) {\n"
     << "      t = vf_sched_choice(n);\n"
     << "      VF_ASSUME(t < n && !vf_done[t]);\n"
     << "      vf_cur = t; vf_stepping = 1;\n"
     << "";
  // nested if/else instead of switch: CBMC restores the path guard exactly when complementary branches re-join,
  // but leaves an unsimplified disjunction behind a multi-way switch (one more conjunct per step in every later guard)
  for (int k = 0; k < nthreads; ++k)
    os << std::string(6 + 2 * k, ' ') << "if (t == " << k << ") { if (n > " << k << ") { vf_cur = " << k << "; " << name << "__t" << k << "(); } } else {\n";
  os << std::string(6 + 2 * nthreads, ' ') << ";\n";
  for (int k = nthreads - 1; k >= 0; --k) os << std::string(6 + 2 * k, ' ') << "}\n";
  os << "      vf_stepping = 0;\n      VF_ASSUME(!vf_dead);\n    }\n  }\n"
     << "  for (t = 0; t < " << nthreads << "; ++t) live += !vf_done[t];\n"
     << "  if (live) {\n    vf_probe_mode = 1; vf_stepping = 1;\n";
  for (int k = 0; k < nthreads; ++k)
    os << "    if (n > " << k << " && !vf_done[" << k << "]) { vf_cur = " << k << "; vf_blocked[" << k << "] = 0; vf_pausecnt[" << k << "] = 0; vf_probe_retry[" << k << "] = 0; vf_enabled[" << k << "] = 0; " << name
       << "__t" << k << "(); if (vf_probe_retry[" << k << "] && !vf_blocked[" << k << "] && !vf_enabled[" << k << "]) { vf_probe_retry[" << k << "] = 0; " << name << "__t" << k
       << "(); } nblocked += (vf_blocked[" << k << "] && !vf_enabled[" << k << "]); }\n";
  os << "    VF_ASSERT(nblocked < live, \"deadlock: every unfinished thread waits on a condition no thread can change\");\n"
     << "    VF_BOUND_ASSERT(stopped, \"scheduler step bound too small for a complete execution\");\n"
     << "    VF_ASSUME(0);\n  }\n"
     << "  vf_stepping = 0; vf_cur = 0; vf_region_end(n);\n}\n\n";
}

// ---------------------------------------------------------------- reachability
void Translator::visitConst(const Constant* C, std::vector<const Function*>& wl) {
  std::vector<const Constant*> st{C};
  std::set<const Constant*> seen;
  while (!st.empty()) {
    const Constant* c = st.back();
    st.pop_back();
    if (!seen.insert(c).second) continue;
    if (auto* GA = dyn_cast<GlobalAlias>(c)) { st.push_back(GA->getAliasee()); continue; }
    if (auto* Fn = dyn_cast<Function>(c)) {
      if (reachF.insert(Fn).second) { reachFOrder.push_back(Fn); wl.push_back(Fn); }
      continue;
    }
    if (auto* GV = dyn_cast<GlobalVariable>(c)) {
      if (reachG.insert(GV).second) {
        reachGOrder.push_back(GV);
        if (GV->hasInitializer()) st.push_back(GV->getInitializer());
      }
      continue;
    }
    for (const Use& U : c->operands())
      if (auto* oc = dyn_cast<Constant>(U.get())) st.push_back(oc);
  }
}

void Translator::computeReach(const std::vector<std::string>& roots) {
  std::vector<const Function*> wl;
  for (auto& r : roots) {
    Function* Fn = M.getFunction(r);
    if (!Fn) refuse("root function not found: " + r);
    if (reachF.insert(Fn).second) { reachFOrder.push_back(Fn); wl.push_back(Fn); }
  }
  while (!wl.empty()) {
    const Function* Fn = wl.back();
    wl.pop_back();
    if (Fn->isDeclaration() || Fn->hasAvailableExternallyLinkage()) continue;
    for (const BasicBlock& BB : *Fn)
      for (const Instruction& I : BB) {
        if (isa<LandingPadInst>(I)) continue;
        for (const Use& U : I.operands())
          if (auto* c = dyn_cast<Constant>(U.get())) visitConst(c, wl);
      }
  }
}

// ---------------------------------------------------------------- globals
void Translator::emitGlobalDecl(raw_ostream& os, const GlobalVariable* G) {
  Type* VT = G->getValueType();
  bool sized = VT->isSized() && DL.getTypeAllocSize(VT) > 0;
  int copies = (G->isThreadLocal() && nthreads > 0) ? nthreads : 1;
  for (int k = 0; k < copies; ++k) {
    std::string n = globalName(G, k);
    if (!sized) os << "extern char " << n << "[1];\n";
    else os << "extern " << cty(VT) << " " << n << ";\n";
  }
}

void Translator::emitGlobalDef(raw_ostream& os, const GlobalVariable* G) {
  Type* VT = G->getValueType();
  bool sized = VT->isSized() && DL.getTypeAllocSize(VT) > 0;
  int copies = (G->isThreadLocal() && nthreads > 0) ? nthreads : 1;
  uint64_t al = G->getAlign() ? G->getAlign()->value() : (sized ? DL.getABITypeAlign(VT).value() : 1);
  for (int k = 0; k < copies; ++k) {
    std::string n = globalName(G, k);
    if (!sized) { os << "char " << n << "[1];\n"; continue; }
    os << cty(VT) << " " << n << " __attribute__((aligned(" << al << ")))";
    if (G->hasInitializer() && !isa<UndefValue>(G->getInitializer()) && !G->getInitializer()->isNullValue()) {
      Type* IT = G->getInitializer()->getType();
      os << " = " << constExpr(G->getInitializer(), k, IT->isStructTy() || IT->isArrayTy());
    } else if (!G->hasInitializer()) {
      // external global without definition: provide zeroed storage (listed in sidecar)
      externsUsed.insert("@" + G->getName().str());
    }
    os << ";\n";
  }
}

static bool isThreadEntry(const Function* F) { return F->getName().startswith("vf_thread_"); }

static std::vector<std::pair<uint64_t, const Function*>> collectCtors(Module& M) {
  std::vector<std::pair<uint64_t, const Function*>> ctors;
  if (auto* GC = M.getGlobalVariable("llvm.global_ctors"))
    if (GC->hasInitializer())
      if (auto* CA = dyn_cast<ConstantArray>(GC->getInitializer()))
        for (const Use& U : CA->operands()) {
          auto* CS = cast<ConstantStruct>(U.get());
          uint64_t prio = cast<ConstantInt>(CS->getOperand(0))->getZExtValue();
          if (auto* Fn = dyn_cast<Function>(CS->getOperand(1)->stripPointerCasts())) ctors.push_back({prio, Fn});
        }
  std::stable_sort(ctors.begin(), ctors.end(), [](auto& a, auto& b) { return a.first < b.first; });
  return ctors;
}

void Translator::emitModule(raw_ostream& os, const std::vector<std::string>& roots0) {
  std::vector<std::string> roots = roots0;
  auto ctors = collectCtors(M);
  for (auto& c : ctors) roots.push_back(c.second->getName().str());
  computeReach(roots);
  for (auto* F : reachFOrder)
    for (const BasicBlock& BB : *F)
      for (const Instruction& I : BB)
        if (auto* CB = dyn_cast<CallBase>(&I))
          if (auto* c = dyn_cast<Function>(CB->getCalledOperand()->stripPointerCasts()))
            if (c->getName() == "longjmp" || c->getName() == "_longjmp" || c->getName() == "siglongjmp" || c->getName() == "__longjmp_chk") usesUnwind = true;
  std::string bodies, gdefs, gdecls, protos;
  raw_string_ostream bo(bodies), gdo(gdefs), gdc(gdecls), po(protos);
  for (auto* F : reachFOrder) {
    StringRef n = F->getName();
    if (F->isIntrinsic()) continue;
    bool decl = F->isDeclaration() || F->hasAvailableExternallyLinkage();
    if (n == "vf_assert" || n == "vf_assume" || n == "vf_cover") continue;
    if (decl && n.startswith("vf_")) continue; // declared by vf_rt.h
    if (decl && (n == "_setjmp" || n == "setjmp" || n == "__sigsetjmp" || n == "longjmp" || n == "_longjmp" || n == "siglongjmp" || n == "__longjmp_chk")) continue;
    if (decl) {
      FunctionType* FT = F->getFunctionType();
      po << "#ifndef VF_HAVE_" << globalName(F) << "\n" << protoOf(F, globalName(F)) << ";\n#endif\n";
      (void)FT;
      continue;
    }
    if ((n.startswith("vf_tinit_") || n.startswith("vf_tseq_")) && nthreads > 0 && !decl) {
      // per-thread sequential copies (thread id constant, TLS resolves to that thread's copy)
      for (int k = 0; k < nthreads; ++k) {
        po << "void " << globalName(F) << "__t" << k << "(void);\n";
        emitFunction(bo, *F, k, false);
      }
      if (n.startswith("vf_tseq_")) { // dispatcher callable from sequential harness code: vf_call_<name>(t)
        std::string base = n.str().substr(strlen("vf_tseq_"));
        po << "void vf_call_" << base << "(uint32_t t);\n";
        bo << "void vf_call_" << base << "(uint32_t t) {\n  uint32_t vf_saved = vf_cur;\n  switch (t) {\n";
        for (int k = 0; k < nthreads; ++k) bo << "  case " << k << ": vf_cur = " << k << "; " << globalName(F) << "__t" << k << "(); break;\n";
        bo << "  }\n  vf_cur = vf_saved;\n}\n\n";
      }
      continue;
    }
    if (isThreadEntry(F) && nthreads > 0) {
      computeStoredTypes(F);
      for (int k = 0; k < nthreads; ++k) {
        po << "void " << globalName(F) << "__t" << k << "(void);\n";
        emitFunction(bo, *F, k);
      }
      po << "void vf_sched_" << F->getName().str().substr(strlen("vf_thread_")) << "(uint32_t n, uint32_t steps);\n";
      emitScheduler(bo, *F);
      continue;
    }
    po << protoOf(F, globalName(F)) << ";\n";
    emitFunction(bo, *F, -1);
  }
  for (size_t i = 0; i < reachGOrder.size(); ++i) { // may grow
    const GlobalVariable* G = reachGOrder[i];
    if (G->getName().startswith("llvm.")) continue;
    emitGlobalDecl(gdc, G);
    emitGlobalDef(gdo, G);
  }
  os << "/* generated by ir2c from " << M.getSourceFileName() << " -- do not edit */\n#include \"vf_rt.h\"\n\n";
  bo.flush(); gdo.flush(); gdc.flush(); po.flush();
  emitAggDefs(os);
  // externals whose address is taken but which are never called directly (e.g. the destructor handed to __cxa_throw,
  // std::type_info objects' vtables): weak empty definitions so that the unit links; a direct call still needs a model
  std::string weak;
  raw_string_ostream wo(weak);
  for (auto* F : reachFOrder) {
    if (F->isIntrinsic()) continue;
    bool decl = F->isDeclaration() || F->hasAvailableExternallyLinkage();
    StringRef n = F->getName();
    if (!decl || n.startswith("vf_") || externsUsed.count(n.str())) continue;
    if (n == "_setjmp" || n == "setjmp" || n == "__sigsetjmp" || n == "longjmp" || n == "_longjmp" || n == "siglongjmp" || n == "__longjmp_chk") continue;
    if (F->isVarArg()) continue;
    Type* RT = F->getReturnType();
    wo << "#ifndef VF_HAVE_" << globalName(F) << "\n__attribute__((weak)) " << protoOf(F, globalName(F)) << " { ";
    if (!RT->isVoidTy()) wo << cty(RT) << " vf_z; memset(&vf_z, 0, sizeof vf_z); return vf_z; ";
    wo << "}\n#endif\n";
  }
  wo.flush();
  os << "\n" << gdecls << "\n" << protos << "\n" << weak << "\n" << gdefs << "\n" << bodies;
  os << "void vf_global_ctors(void) {\n";
  for (auto& c : ctors) os << "  " << globalName(c.second) << "();\n";
  os << "}\n";
}

void Translator::writeSidecar(raw_ostream& os, const std::vector<std::string>& roots) {
  auto q = [](const std::string& s) {
    std::string r = "\"";
    for (char c : s) { if (c == '"' || c == '\\') r += '\\'; r += c; }
    return r + "\"";
  };
  os << "{\n \"roots\": {\n";
  bool firstR = true;
  for (auto& r : roots) {
    // per-root reachability
    Translator T2(M);
    T2.nthreads = nthreads;
    T2.computeReach({r});
    if (!firstR) os << ",\n";
    firstR = false;
    os << "  " << q(r) << ": [";
    bool f = true;
    for (auto* Fn : T2.reachFOrder) {
      if (Fn->isDeclaration() || Fn->hasAvailableExternallyLinkage()) continue;
      if (!f) os << ", ";
      f = false;
      os << q(demangle(Fn->getName().str()));
    }
    os << "]";
  }
  os << "\n },\n \"externals\": [";
  bool f = true;
  for (auto& e : externsUsed) { if (!f) os << ", "; f = false; os << q(e); }
  os << "],\n \"notes\": [";
  f = true;
  if (readOnlyLoads) spinNotes.push_back(std::to_string(readOnlyLoads) + " plain loads are not scheduling points: no store in any thread body may alias them (TBAA)");
  for (auto& e : spinNotes) { if (!f) os << ", "; f = false; os << q(e); }
  os << "]\n}\n";
}

// ---------------------------------------------------------------- driver
static cl::opt<std::string> InFile(cl::Positional, cl::desc("<input.ll>"), cl::Required);
static cl::opt<std::string> OutFile("o", cl::desc("output C file"), cl::Required);
static cl::opt<std::string> Sidecar("sidecar", cl::desc("output JSON sidecar"), cl::init(""));
static cl::list<std::string> Roots("root", cl::desc("root function (repeatable); default: all ob_* and vf_thread_*"));
static cl::opt<int> Threads("nthreads", cl::desc("emit N per-thread step-machine copies of vf_thread_* entries"), cl::init(0));
static cl::opt<bool> PlainInvisible("plain-invisible", cl::desc("plain shared accesses are not scheduling points"), cl::init(false));
static cl::list<std::string> VisibleCalls("visible-call", cl::desc("external function that is a (blocking) scheduling point"));
static cl::opt<std::string> SmtFn("smt-int", cl::desc("emit SMT-LIB (Int) encoding of this loop-free function instead of C"), cl::init(""));

void emitSmtInt(Module& M, Function& F, raw_ostream& os);

static void inlineThreadBodies(Module& M) {
  // mark everything reachable from thread entries always-inline, then run the inliner
  std::vector<Function*> wl;
  std::set<Function*> seen;
  for (Function& F : M)
    if ((isThreadEntry(&F) || (F.getName().startswith("vf_tinit_") || F.getName().startswith("vf_tseq_"))) && !F.isDeclaration()) { wl.push_back(&F); seen.insert(&F); }
  if (wl.empty()) return;
  while (!wl.empty()) {
    Function* F = wl.back();
    wl.pop_back();
    for (BasicBlock& BB : *F)
      for (Instruction& I : BB)
        if (auto* CB = dyn_cast<CallBase>(&I))
          if (auto* c = dyn_cast<Function>(CB->getCalledOperand()->stripPointerCasts()))
            if (!c->isDeclaration() && !c->hasAvailableExternallyLinkage() && seen.insert(c).second) wl.push_back(c);
  }
  for (Function* F : seen) {
    if (isThreadEntry(F) || (F->getName().startswith("vf_tinit_") || F->getName().startswith("vf_tseq_"))) continue;
    F->removeFnAttr(Attribute::NoInline);
    F->removeFnAttr(Attribute::OptimizeNone);
    F->addFnAttr(Attribute::AlwaysInline);
  }
  // call sites marked noinline
  for (Function* F : seen)
    for (BasicBlock& BB : *F)
      for (Instruction& I : BB)
        if (auto* CB = dyn_cast<CallBase>(&I)) CB->removeFnAttr(Attribute::NoInline);
  legacy::PassManager PM;
  PM.add(createAlwaysInlinerLegacyPass(false));
  PM.add(createCFGSimplificationPass());
  PM.run(M);
  for (Function& F : M) {
    if (!(isThreadEntry(&F) || (F.getName().startswith("vf_tinit_") || F.getName().startswith("vf_tseq_"))) || F.isDeclaration()) continue;
    for (BasicBlock& BB : F)
      for (Instruction& I : BB)
        if (auto* CB = dyn_cast<CallBase>(&I))
          if (auto* c = dyn_cast<Function>(CB->getCalledOperand()->stripPointerCasts()))
            if (!c->isDeclaration() && !c->hasAvailableExternallyLinkage() && !c->getName().startswith("vf_"))
              refuse("call to " + c->getName().str() + " could not be inlined into thread body " + F.getName().str());
  }
}

int main(int argc, char** argv) {
  cl::ParseCommandLineOptions(argc, argv, "ir2c\n");
  LLVMContext Ctx;
  SMDiagnostic Err;
  std::unique_ptr<Module> M = parseIRFile(InFile, Err, Ctx);
  if (!M) { Err.print("ir2c", errs()); return 3; }
  std::error_code EC;
  raw_fd_ostream out(OutFile, EC);
  if (EC) { errs() << "cannot open output\n"; return 3; }
  if (!SmtFn.empty()) {
    Function* F = M->getFunction(SmtFn);
    if (!F) refuse("function not found: " + SmtFn);
    emitSmtInt(*M, *F, out);
    return 0;
  }
  {
    legacy::PassManager PM;
    PM.add(createLowerInvokePass());
    PM.add(createCFGSimplificationPass());
    PM.run(*M);
  }
  if (Threads > 0) inlineThreadBodies(*M);
  std::vector<std::string> roots(Roots.begin(), Roots.end());
  if (roots.empty())
    for (Function& F : *M)
      if (!F.isDeclaration() && (F.getName().startswith("ob_") || isThreadEntry(&F))) roots.push_back(F.getName().str());
  if (Threads > 0)
    for (Function& F : *M)
      if (!F.isDeclaration() && (isThreadEntry(&F) || F.getName().startswith("vf_tinit_") || F.getName().startswith("vf_tseq_")) && std::find(roots.begin(), roots.end(), F.getName().str()) == roots.end())
        roots.push_back(F.getName().str());
  Translator T(*M);
  T.nthreads = Threads;
  T.plainVisible = !PlainInvisible;
  for (auto& v : VisibleCalls) T.visibleCalls.insert(v);
  T.emitModule(out, roots);
  if (!Sidecar.empty()) {
    raw_fd_ostream sc(Sidecar, EC);
    T.writeSidecar(sc, roots);
  }
  return 0;
}
