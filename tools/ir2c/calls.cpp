#include "ir2c.h"

static bool constString(const Value* V, std::string& out) {
  V = V->stripPointerCasts();
  if (auto* GV = dyn_cast<GlobalVariable>(V))
    if (GV->hasInitializer())
      if (auto* CDA = dyn_cast<ConstantDataArray>(GV->getInitializer()))
        if (CDA->isString()) {
          out = CDA->getAsString().str();
          while (!out.empty() && out.back() == 0) out.pop_back();
          return true;
        }
  return false;
}

static std::string cEscape(const std::string& s) {
  std::string r;
  for (char c : s) {
    if (c == '"' || c == '\\') { r += '\\'; r += c; }
    else if (c == '\n') r += "\\n";
    else if ((unsigned char)c < 32 || (unsigned char)c > 126) r += '?';
    else r += c;
  }
  return r;
}

bool FnEmitter::emitIntrinsic(const CallBase& CB, const Function* callee) {
  Intrinsic::ID id = callee->getIntrinsicID();
  Type* Ty = CB.getType();
  auto A = [&](unsigned i) { return val(CB.getArgOperand(i)); };
  std::string r = Ty->isVoidTy() ? "" : lname[&CB];
  auto nbits = [&]() { return T.bits(Ty); };
  switch (id) {
  case Intrinsic::memcpy: case Intrinsic::memcpy_inline: case Intrinsic::memmove: {
    bool mv = id == Intrinsic::memmove;
    if (!isa<ConstantInt>(CB.getArgOperand(2))) {
      // symbolic length: element-typed copy loop (CBMC's memmove model with a symbolic size explodes);
      // the element type is the pointee type the pointers had before they were cast to i8*
      Type* ET = nullptr;
      for (unsigned k = 0; k < 2 && !ET; ++k) {
        Type* PT = CB.getArgOperand(k)->stripPointerCasts()->getType()->getPointerElementType();
        if (PT->isArrayTy()) PT = PT->getArrayElementType();
        if (PT->isSized() && !PT->isFunctionTy() && T.DL.getTypeAllocSize(PT) > 0 &&
            (PT->isIntegerTy() || PT->isPointerTy() || PT->isFloatingPointTy() || PT->isStructTy()))
          ET = PT;
      }
      // the element may not be larger than what the length expression is known to be a multiple of
      uint64_t maxElem = 1;
      {
        const Value* L = CB.getArgOperand(2);
        if (auto* BO = dyn_cast<BinaryOperator>(L)) {
          if (BO->getOpcode() == Instruction::Shl)
            if (auto* C = dyn_cast<ConstantInt>(BO->getOperand(1))) maxElem = C->getZExtValue() < 6 ? (1ull << C->getZExtValue()) : 64;
          if (BO->getOpcode() == Instruction::Mul)
            for (unsigned k = 0; k < 2; ++k)
              if (auto* C = dyn_cast<ConstantInt>(BO->getOperand(k))) { uint64_t c = C->getZExtValue(); maxElem = c ? (c & (~c + 1)) : 1; }
        }
        // length = (char*)p - (char*)q of two T* pointers (std::vector, std::copy of trivially copyable ranges): a multiple of sizeof(T)
        bool isDiff = false;
        if (auto* BO = dyn_cast<BinaryOperator>(L))
          if (BO->getOpcode() == Instruction::Sub)
            if (auto* P0 = dyn_cast<PtrToIntOperator>(BO->getOperand(0)))
              if (auto* P1 = dyn_cast<PtrToIntOperator>(BO->getOperand(1))) {
                Type* E0 = P0->getPointerOperand()->stripPointerCasts()->getType()->getPointerElementType();
                Type* E1 = P1->getPointerOperand()->stripPointerCasts()->getType()->getPointerElementType();
                Type* E = P0->getPointerOperand()->getType()->getPointerElementType();
                for (Type* Cand : {E0, E1, E})
                  if (Cand->isSized() && !Cand->isFunctionTy() && !Cand->isIntegerTy(8) && T.DL.getTypeAllocSize(Cand) > 0) {
                    maxElem = T.DL.getTypeAllocSize(Cand);
                    if (!ET || T.DL.getTypeAllocSize(ET) != maxElem)
                      if (Cand->isIntegerTy() || Cand->isPointerTy() || Cand->isFloatingPointTy() || Cand->isStructTy()) ET = Cand;
                    isDiff = true;
                    break;
                  }
              }
        if (!isDiff && !isa<BinaryOperator>(L)) {
          // unknown multiple: trust the element type only if both pointers agree on it
          Type* P0 = CB.getArgOperand(0)->stripPointerCasts()->getType()->getPointerElementType();
          Type* P1 = CB.getArgOperand(1)->stripPointerCasts()->getType()->getPointerElementType();
          if (P0 == P1 && ET) maxElem = T.DL.getTypeAllocSize(ET);
        }
      }
      if (ET && T.DL.getTypeAllocSize(ET) > maxElem) {
        // pick the widest integer type that fits (struct copies degrade to words/bytes)
        ET = nullptr;
      }
      std::string et = ET ? ty(ET) : (maxElem >= 8 ? "uint64_t" : maxElem >= 4 ? "uint32_t" : maxElem >= 2 ? "uint16_t" : "uint8_t");
      if (et == "uint8_t") // outlined: the loop keeps the stable id vf_byte_copy.0 / vf_byte_move.0,1 for --unwindset
        body << "  vf_byte_" << (mv ? "move" : "copy") << "(" << A(0) << ", " << A(1) << ", (uint64_t)" << A(2) << ");\n";
      else
        body << "  VF_TYPED_" << (mv ? "MOVE" : "COPY") << "(" << et << ", " << A(0) << ", " << A(1) << ", (uint64_t)" << A(2) << ");\n";
      return true;
    }
    body << "  x_" << (mv ? "memmove" : "memcpy") << "(" << A(0) << ", " << A(1) << ", (uint64_t)" << A(2) << ");\n"; return true;
  }
  case Intrinsic::memset:
    body << "  x_memset(" << A(0) << ", (int)" << A(1) << ", (uint64_t)" << A(2) << ");\n"; return true;
  case Intrinsic::lifetime_start: case Intrinsic::lifetime_end:
  case Intrinsic::dbg_declare: case Intrinsic::dbg_value: case Intrinsic::dbg_label:
  case Intrinsic::assume: case Intrinsic::experimental_noalias_scope_decl:
  case Intrinsic::invariant_start: case Intrinsic::invariant_end:
  case Intrinsic::prefetch: case Intrinsic::donothing: case Intrinsic::var_annotation:
  case Intrinsic::stackrestore:
    if (!Ty->isVoidTy()) body << "  " << r << " = 0;\n";
    return true;
  case Intrinsic::stacksave: body << "  " << r << " = (char*)0;\n"; return true;
  case Intrinsic::expect: case Intrinsic::expect_with_probability:
  case Intrinsic::launder_invariant_group: case Intrinsic::strip_invariant_group:
    body << "  " << r << " = " << A(0) << ";\n"; return true;
  case Intrinsic::is_constant: body << "  " << r << " = 0;\n"; return true;
  case Intrinsic::eh_typeid_for: body << "  " << r << " = 0;\n"; return true;
  case Intrinsic::objectsize: {
    bool mn = cast<ConstantInt>(CB.getArgOperand(1))->isOne();
    body << "  " << r << " = " << (mn ? "0" : "(" + ty(Ty) + ")-1") << ";\n"; return true;
  }
  case Intrinsic::trap: case Intrinsic::debugtrap:
    body << "  VF_FATAL(\"trap\");\n"; return true;
  case Intrinsic::ctpop: body << "  " << r << " = (" << ty(Ty) << ")vf_ctpop((uint64_t)" << A(0) << ");\n"; return true;
  case Intrinsic::ctlz:
    body << "  " << r << " = (" << ty(Ty) << ")vf_ctlz((uint64_t)" << A(0) << ", " << nbits() << ");\n"; return true;
  case Intrinsic::cttz:
    body << "  " << r << " = (" << ty(Ty) << ")vf_cttz((uint64_t)" << A(0) << ", " << nbits() << ");\n"; return true;
  case Intrinsic::bswap:
    body << "  " << r << " = (" << ty(Ty) << ")vf_bswap((uint64_t)" << A(0) << ", " << nbits() << ");\n"; return true;
  case Intrinsic::fshl: case Intrinsic::fshr: {
    unsigned n = nbits();
    if (n != 32 && n != 64) refuse("funnel shift width");
    std::string ct = T.ctOf(n), N = std::to_string(n);
    std::string s = "((" + ct + ")" + A(2) + " % " + N + ")";
    if (id == Intrinsic::fshl)
      body << "  " << r << " = " << s << " == 0 ? " << A(0) << " : (" << ty(Ty) << ")(((" << ct << ")" << A(0) << " << " << s
           << ") | ((" << ct << ")" << A(1) << " >> (" << N << " - " << s << ")));\n";
    else
      body << "  " << r << " = " << s << " == 0 ? " << A(1) << " : (" << ty(Ty) << ")(((" << ct << ")" << A(0) << " << (" << N
           << " - " << s << ")) | ((" << ct << ")" << A(1) << " >> " << s << "));\n";
    return true;
  }
  case Intrinsic::umin: body << "  " << r << " = " << A(0) << " < " << A(1) << " ? " << A(0) << " : " << A(1) << ";\n"; return true;
  case Intrinsic::umax: body << "  " << r << " = " << A(0) << " > " << A(1) << " ? " << A(0) << " : " << A(1) << ";\n"; return true;
  case Intrinsic::smin:
    body << "  " << r << " = " << T.sext(A(0), nbits()) << " < " << T.sext(A(1), nbits()) << " ? " << A(0) << " : " << A(1) << ";\n"; return true;
  case Intrinsic::smax:
    body << "  " << r << " = " << T.sext(A(0), nbits()) << " > " << T.sext(A(1), nbits()) << " ? " << A(0) << " : " << A(1) << ";\n"; return true;
  case Intrinsic::abs:
    body << "  " << r << " = " << T.sext(A(0), nbits()) << " < 0 ? (" << ty(Ty) << ")" << T.mask("(0 - (" + T.ctOf(nbits()) + ")" + A(0) + ")", nbits()) << " : " << A(0) << ";\n"; return true;
  case Intrinsic::uadd_sat: {
    std::string ct = T.ctOf(nbits());
    if (!T.nativeW(nbits())) refuse("uadd.sat width");
    body << "  " << r << " = (" << ty(Ty) << ")(" << A(0) << " + " << A(1) << ") < " << A(0) << " ? (" << ty(Ty) << ")-1 : (" << ty(Ty) << ")(" << A(0) << " + " << A(1) << ");\n";
    return true;
  }
  case Intrinsic::usub_sat:
    body << "  " << r << " = " << A(0) << " > " << A(1) << " ? (" << ty(Ty) << ")(" << A(0) << " - " << A(1) << ") : 0;\n"; return true;
  case Intrinsic::uadd_with_overflow: case Intrinsic::usub_with_overflow: case Intrinsic::umul_with_overflow:
  case Intrinsic::sadd_with_overflow: case Intrinsic::ssub_with_overflow: case Intrinsic::smul_with_overflow: {
    Type* ET = Ty->getStructElementType(0);
    unsigned n = T.bits(ET);
    if (n != 8 && n != 16 && n != 32 && n != 64) refuse("overflow intrinsic width");
    bool sg = id == Intrinsic::sadd_with_overflow || id == Intrinsic::ssub_with_overflow || id == Intrinsic::smul_with_overflow;
    const char* fn = (id == Intrinsic::uadd_with_overflow || id == Intrinsic::sadd_with_overflow) ? "__builtin_add_overflow"
                   : (id == Intrinsic::usub_with_overflow || id == Intrinsic::ssub_with_overflow) ? "__builtin_sub_overflow"
                                                                                                : "__builtin_mul_overflow";
    std::string ut = ty(ET), st = "int" + std::to_string(n) + "_t";
    std::string ct = sg ? st : ut;
    body << "  { " << ct << " vf_r; " << r << ".f1 = " << fn << "((" << ct << ")" << A(0) << ", (" << ct << ")" << A(1) << ", &vf_r); "
         << r << ".f0 = (" << ut << ")vf_r; }\n";
    return true;
  }
  case Intrinsic::fabs: body << "  " << r << " = vf_fabs(" << A(0) << ");\n"; return true;
  case Intrinsic::fmuladd: case Intrinsic::fma:
    body << "  " << r << " = " << A(0) << " * " << A(1) << " + " << A(2) << ";\n"; return true;
  case Intrinsic::minnum: body << "  " << r << " = vf_fmin(" << A(0) << ", " << A(1) << ");\n"; return true;
  case Intrinsic::maxnum: body << "  " << r << " = vf_fmax(" << A(0) << ", " << A(1) << ");\n"; return true;
  case Intrinsic::floor: body << "  " << r << " = vf_floor(" << A(0) << ");\n"; return true;
  case Intrinsic::ceil: body << "  " << r << " = vf_ceil(" << A(0) << ");\n"; return true;
  case Intrinsic::sqrt: body << "  " << r << " = vf_sqrt(" << A(0) << ");\n"; return true;
  default:
    refuse("intrinsic " + callee->getName().str());
  }
}

void FnEmitter::emitCall(const CallBase& CB) {
  Type* Ty = CB.getType();
  bool hasRes = !Ty->isVoidTy() && T.DL.getTypeAllocSize(Ty) != 0;
  if (CB.isInlineAsm()) {
    auto* IA = cast<InlineAsm>(CB.getCalledOperand());
    std::string a = IA->getAsmString();
    if (a == "pause" || a == "pause;" || a == "rep; nop" || a == "rep; nop;") {
      body << "  VF_PAUSE();\n";
      if (step) {
        body << "  if (vf_dead) return;\n";
        // probe mode never loops inside one call (CBMC merges states at the loop head and would unwind to the limit):
        // after the first pause the thread is parked at the next scheduling point of the loop and the scheduler
        // calls the step function once more - everything that second call reads is fresh
        {
          int pp = nextPc++;
          pcs.push_back(pp);
          body << "  if (vf_probe_mode) { vf_pc[" << tid << "] = " << pp << "; return; }\n R" << pp << ": ;\n";
        }
      }
      return;
    }
    if (a.empty()) return; // compiler barrier
    refuse("inline asm \"" + a + "\"");
  }
  const Function* callee = dyn_cast<Function>(CB.getCalledOperand()->stripPointerCasts());
  if (callee && callee->isIntrinsic()) { emitIntrinsic(CB, callee); return; }
  if (callee) {
    StringRef n = callee->getName();
    if (n == "vf_assert") {
      std::string msg;
      if (!constString(CB.getArgOperand(1), msg)) msg = "harness assertion (merged call site)";
      body << "  VF_ASSERT(" << val(CB.getArgOperand(0)) << ", \"" << cEscape(msg) << "\");\n";
      return;
    }
    if (n == "vf_assume") {
      if (step) body << "  VF_ASSUME_STEP(" << val(CB.getArgOperand(0)) << "); if (vf_dead) return;\n";
      else body << "  VF_ASSUME(" << val(CB.getArgOperand(0)) << ");\n";
      return;
    }
    if (n == "_setjmp" || n == "setjmp" || n == "__sigsetjmp") {
      // (in a thread body everything is inlined into one function, so setjmp/longjmp are a local label and goto)
      body << "  " << lname[&CB] << " = 0;\n  vf_after_setjmp: ;\n";
      return;
    }
    if (n == "longjmp" || n == "_longjmp" || n == "siglongjmp" || n == "__longjmp_chk") {
      if (step) {
        if (!setjmpVal) refuse("longjmp in a thread body whose entry function does not call setjmp");
        body << "  " << lname[setjmpVal] << " = (uint32_t)" << val(CB.getArgOperand(1)) << "; goto vf_after_setjmp;\n";
        return;
      }
      body << "  vf_unwinding = 1; vf_jmpval = (uint32_t)" << val(CB.getArgOperand(1)) << ";\n";
      if (usesSetjmp) body << "  goto vf_setjmp_landing;\n";
      else if (F.getReturnType()->isVoidTy()) body << "  return;\n";
      else body << "  { " << ty(F.getReturnType()) << " vf_z; memset(&vf_z, 0, sizeof vf_z); return vf_z; }\n";
      return;
    }
    bool isAlloc = n == "malloc" || n == "_Znwm" || n == "_Znam" || n == "_ZnwmSt11align_val_t" || n == "_ZnamSt11align_val_t" ||
                   n == "_ZnwmRKSt9nothrow_t";
    if (isAlloc && !isa<ConstantInt>(CB.getArgOperand(0))) {
      // symbolic-size allocation used as T[]: malloc(sizeof(T) * (n / sizeof(T))) gives CBMC a typed array object
      Type* found = nullptr;
      for (const User* U : CB.users())
        if (auto* BC = dyn_cast<BitCastInst>(U)) {
          Type* PT = BC->getType()->getPointerElementType();
          if (PT->isSized() && !PT->isFunctionTy() && T.DL.getTypeAllocSize(PT) > 0 &&
              (PT->isIntegerTy() || PT->isPointerTy() || PT->isFloatingPointTy() || PT->isStructTy())) {
            if (!found || T.DL.getTypeAllocSize(PT) > T.DL.getTypeAllocSize(found)) found = PT;
          }
        }
      if (found) {
        T.externsUsed.insert(n.str());
        std::string sz = "(uint64_t)" + val(CB.getArgOperand(0));
        body << "  " << lname[&CB] << " = (char*)malloc(sizeof(" << ty(found) << ") * (" << sz << " / sizeof(" << ty(found)
             << "))); VF_ASSUME(" << lname[&CB] << " != 0);\n";
        return;
      }
    }
    if (isAlloc && isa<ConstantInt>(CB.getArgOperand(0))) {
      // typed allocation: malloc(C) whose result is bitcast to S* with sizeof(S) dividing C becomes
      // malloc(k * sizeof(struct S)), so that CBMC creates a typed (field-sensitive) dynamic object
      uint64_t C = cast<ConstantInt>(CB.getArgOperand(0))->getZExtValue();
      Type* found = nullptr;
      bool unique = true;
      for (const User* U : CB.users())
        if (auto* BC = dyn_cast<BitCastInst>(U)) {
          Type* PT = BC->getType()->getPointerElementType();
          if ((PT->isStructTy() || PT->isArrayTy()) && PT->isSized()) {
            uint64_t sz = T.DL.getTypeAllocSize(PT);
            if (sz > 0 && C % sz == 0) {
              if (found && found != PT) { if (T.DL.getTypeAllocSize(found) < sz) found = PT; }
              else found = PT;
            }
          }
        }
      if (found && unique && C > 0) {
        uint64_t k = C / T.DL.getTypeAllocSize(found);
        T.externsUsed.insert(n.str());
        body << "  " << lname[&CB] << " = (char*)malloc(" << k << " * sizeof(" << ty(found) << ")); VF_ASSUME(" << lname[&CB] << " != 0);\n";
        return;
      }
    }
    if (n == "vf_cover") {
      std::string msg;
      if (!constString(CB.getArgOperand(0), msg)) msg = "cover";
      body << "  VF_COVER(\"" << cEscape(msg) << "\");\n";
      return;
    }
  }
  FunctionType* FT = CB.getFunctionType();
  std::string fexpr;
  unsigned nargs = CB.arg_size();
  if (callee && callee->getFunctionType() == FT) {
    fexpr = T.globalName(callee, tid);
    if (FT->isVarArg()) nargs = FT->getNumParams();
    if (callee->isDeclaration() || callee->hasAvailableExternallyLinkage())
      T.externsUsed.insert(callee->getName().str());
  } else {
    if (FT->isVarArg()) refuse("indirect vararg call");
    std::string sig = ty(FT->getReturnType()) + "(*)(";
    for (unsigned i = 0; i < FT->getNumParams(); ++i) sig += (i ? ", " : "") + ty(FT->getParamType(i));
    if (FT->getNumParams() == 0) sig += "void";
    sig += ")";
    fexpr = "((" + sig + ")" + val(CB.getCalledOperand()) + ")";
  }
  std::string call = fexpr + "(";
  bool first = true;
  for (unsigned i = 0; i < nargs; ++i) {
    Type* AT = CB.getArgOperand(i)->getType();
    if (T.DL.getTypeAllocSize(AT) == 0 && (AT->isStructTy() || AT->isArrayTy())) continue;
    if (!first) call += ", ";
    first = false;
    call += val(CB.getArgOperand(i));
  }
  call += ")";
  if (hasRes) body << "  " << lname[&CB] << " = " << call << ";\n";
  else body << "  " << call << ";\n";
  if (step && !(callee && callee->getName().startswith("vf_"))) body << "  if (vf_dead) return;\n"; // the callee ended the path (blocked / fatal)
  if (T.usesUnwind && !step) {
    // after a call that may longjmp: propagate unwinding (setjmp model)
    if (usesSetjmp) body << "  if (vf_unwinding) goto vf_setjmp_landing;\n";
    else if (F.getReturnType()->isVoidTy()) body << "  if (vf_unwinding) return;\n";
    else body << "  if (vf_unwinding) { " << ty(F.getReturnType()) << " vf_z; memset(&vf_z, 0, sizeof vf_z); return vf_z; }\n";
  }
}
