#include "ir2c.h"

void refuse(const std::string& why) {
  errs() << "ir2c: INCONCLUSIVE: refused: " << why << "\n";
  exit(3);
}

std::string sanitize(StringRef s) {
  std::string r;
  for (char c : s)
    r += (isalnum((unsigned char)c) || c == '_') ? c : '_';
  if (r.empty() || isdigit((unsigned char)r[0]))
    r = "_" + r;
  return r;
}

static bool isHarnessName(StringRef n) {
  return n.startswith("vf_") || n.startswith("ob_");
}

std::string Translator::globalName(const GlobalValue* G, int tid) {
  auto it = gname.find(G);
  std::string base;
  if (it != gname.end())
    base = it->second;
  else {
    std::string n = sanitize(G->getName());
    bool isDecl = G->isDeclaration() ||
                  (isa<Function>(G) &&
                   cast<Function>(G)->hasAvailableExternallyLinkage());
    if (isDecl && !isHarnessName(G->getName()))
      n = "x_" + n;
    else if (!isHarnessName(G->getName()))
      n = "g_" + n;
    std::string u = n;
    int k = 0;
    while (usedNames.count(u))
      u = n + "_" + std::to_string(++k);
    usedNames.insert(u);
    gname[G] = u;
    base = u;
  }
  if (auto* GV = dyn_cast<GlobalVariable>(G))
    if (GV->isThreadLocal() && nthreads > 0)
      return base + "__t" + std::to_string(tid < 0 ? 0 : tid);
  return base;
}

std::string Translator::ctOf(unsigned n) {
  if (n <= 32) return "uint32_t";
  if (n <= 64) return "uint64_t";
  if (n <= 128) return "vf_u128";
  refuse("integer wider than 128 bits");
}
std::string Translator::sctOf(unsigned n) {
  if (n <= 32) return "int32_t";
  if (n <= 64) return "int64_t";
  if (n <= 128) return "vf_s128";
  refuse("integer wider than 128 bits");
}

static unsigned ctBits(unsigned n) { return n <= 32 ? 32 : n <= 64 ? 64 : 128; }

std::string Translator::mask(const std::string& e, unsigned n) {
  if (nativeW(n)) return e;
  if (n < 64)
    return "((" + e + ") & " + std::to_string((1ULL << n) - 1) + "ull)";
  return "((" + e + ") & (((vf_u128)1 << " + std::to_string(n) + ") - 1))";
}

// signed value (in the signed compute type) of an n-bit unsigned-stored value
std::string Translator::sext(const std::string& e, unsigned n) {
  switch (n) {
  case 8: return "((int32_t)(int8_t)(" + e + "))";
  case 16: return "((int32_t)(int16_t)(" + e + "))";
  case 32: return "((int32_t)(" + e + "))";
  case 64: return "((int64_t)(" + e + "))";
  case 128: return "((vf_s128)(" + e + "))";
  }
  unsigned w = ctBits(n);
  std::string sh = std::to_string(w - n);
  return "((" + sctOf(n) + ")((" + ctOf(n) + ")(" + e + ") << " + sh + ") >> " + sh + ")";
}

std::string Translator::cty(Type* T) {
  if (T->isVoidTy()) return "void";
  if (T->isIntegerTy()) {
    unsigned n = T->getIntegerBitWidth();
    if (n <= 8) return "uint8_t";
    if (n <= 16) return "uint16_t";
    if (n <= 32) return "uint32_t";
    if (n <= 64) return "uint64_t";
    if (n <= 128) return "vf_u128";
    refuse("integer wider than 128 bits");
  }
  if (T->isFloatTy()) return "float";
  if (T->isDoubleTy()) return "double";
  if (T->isPointerTy()) return "char*";
  if (T->isStructTy() || T->isArrayTy()) return aggTy(T);
  if (T->isVectorTy()) refuse("vector type survived (disable vectorisation)");
  if (T->isX86_FP80Ty()) refuse("x86_fp80 (long double)");
  std::string s;
  raw_string_ostream o(s);
  T->print(o);
  refuse("unsupported type " + o.str());
}

std::string Translator::aggTy(Type* T) {
  auto it = aggName.find(T);
  if (it != aggName.end()) return "struct " + it->second;
  // register contained aggregates first (definition order)
  if (auto* ST = dyn_cast<StructType>(T)) {
    if (ST->isOpaque()) {
      // opaque structs are only used behind pointers; give them a byte
      std::string n = "op_" + std::to_string(aggName.size());
      aggName[T] = n;
      aggOrder.push_back(T);
      return "struct " + n;
    }
    for (Type* E : ST->elements())
      if (E->isStructTy() || E->isArrayTy()) aggTy(E);
      else cty(E);
  } else {
    Type* E = T->getArrayElementType();
    if (E->isStructTy() || E->isArrayTy()) aggTy(E);
    else cty(E);
  }
  std::string n;
  if (auto* ST = dyn_cast<StructType>(T)) {
    if (ST->hasName())
      n = "s" + std::to_string(aggName.size()) + "_" + sanitize(ST->getName()).substr(0, 40);
    else
      n = "lit" + std::to_string(aggName.size());
  } else
    n = "arr" + std::to_string(aggName.size());
  aggName[T] = n;
  aggOrder.push_back(T);
  return "struct " + n;
}

void Translator::emitAggDefs(raw_ostream& os) {
  // aggOrder may grow while emitting (cty on fields); index loop
  for (size_t i = 0; i < aggOrder.size(); ++i) {
    Type* T = aggOrder[i];
    std::string n = aggName[T];
    if (auto* ST = dyn_cast<StructType>(T)) {
      if (ST->isOpaque()) {
        os << "struct " << n << " { char opaque; };\n";
        continue;
      }
      const StructLayout* SL = DL.getStructLayout(ST);
      os << "struct __attribute__((packed)) " << n << " {\n";
      uint64_t pos = 0;
      int pad = 0;
      bool any = false;
      for (unsigned k = 0; k < ST->getNumElements(); ++k) {
        Type* E = ST->getElementType(k);
        uint64_t off = SL->getElementOffset(k);
        uint64_t sz = DL.getTypeAllocSize(E);
        if (sz == 0) continue;
        if (off > pos)
          os << "  char pad" << pad++ << "[" << (off - pos) << "];\n";
        os << "  " << cty(E) << " f" << k << ";\n";
        any = true;
        pos = off + sz;
      }
      uint64_t tot = SL->getSizeInBytes();
      if (tot > pos) os << "  char pad" << pad++ << "[" << (tot - pos) << "];\n";
      else if (!any && tot == 0) os << "  char empty[0];\n";
      os << "};\n";
      if (tot > 0)
        os << "_Static_assert(sizeof(struct " << n << ") == " << tot << ", \"layout\");\n";
    } else {
      Type* E = T->getArrayElementType();
      uint64_t cnt = T->getArrayNumElements();
      os << "struct __attribute__((packed)) " << n << " { " << cty(E) << " a[" << cnt << "]; };\n";
      if (cnt > 0 && DL.getTypeAllocSize(E) > 0)
        os << "_Static_assert(sizeof(struct " << n << ") == " << DL.getTypeAllocSize(T)
           << ", \"layout\");\n";
    }
  }
}

std::string Translator::fieldPath(Type* T, ArrayRef<unsigned> idx, Type** outTy) {
  std::string p;
  for (unsigned i : idx) {
    if (auto* ST = dyn_cast<StructType>(T)) {
      p += ".f" + std::to_string(i);
      T = ST->getElementType(i);
    } else {
      p += ".a[" + std::to_string(i) + "]";
      T = T->getArrayElementType();
    }
  }
  if (outTy) *outTy = T;
  return p;
}

std::string Translator::intLit(const APInt& v) {
  unsigned n = v.getBitWidth();
  if (n <= 64) {
    uint64_t z = v.getZExtValue();
    return std::to_string(z) + (n <= 32 ? "u" : "ull");
  }
  if (n <= 128) {
    uint64_t lo = v.extractBitsAsZExtValue(64, 0);
    uint64_t hi = v.extractBitsAsZExtValue(n - 64, 64);
    return "((((vf_u128)" + std::to_string(hi) + "ull) << 64) | (vf_u128)" + std::to_string(lo) + "ull)";
  }
  refuse("integer constant wider than 128 bits");
}

static std::string fpLit(const APFloat& f, bool isFloat) {
  if (f.isNaN()) return isFloat ? "(0.0f/0.0f)" : "(0.0/0.0)";
  if (f.isInfinity())
    return std::string(f.isNegative() ? "(-" : "(") + (isFloat ? "1.0f/0.0f)" : "1.0/0.0)");
  char buf[64];
  if (isFloat)
    snprintf(buf, sizeof buf, "%.9gf", (double)f.convertToFloat());
  else
    snprintf(buf, sizeof buf, "%.17g", f.convertToDouble());
  std::string s = buf;
  if (s.find_first_of(".einf") == std::string::npos) s += isFloat ? "" : ".0";
  if (isFloat && s.find_first_of(".e") == std::string::npos) {
    s.pop_back();
    s += ".0f";
  }
  return "(" + s + ")";
}

std::string Translator::constExpr(const Constant* C, int tid, bool inInit) {
  Type* T = C->getType();
  if (auto* CI = dyn_cast<ConstantInt>(C)) return intLit(CI->getValue());
  if (auto* CF = dyn_cast<ConstantFP>(C)) {
    if (!T->isFloatTy() && !T->isDoubleTy()) refuse("fp constant of unsupported type");
    return fpLit(CF->getValueAPF(), T->isFloatTy());
  }
  if (isa<ConstantPointerNull>(C)) return "((char*)0)";
  if (auto* GV = dyn_cast<GlobalValue>(C)) {
    if (auto* GA = dyn_cast<GlobalAlias>(GV))
      return constExpr(GA->getAliasee(), tid, inInit);
    if (isa<Function>(GV)) return "((char*)" + globalName(GV, tid) + ")";
    return "((char*)&" + globalName(GV, tid) + ")";
  }
  if (isa<UndefValue>(C) || isa<ConstantAggregateZero>(C)) { // undef/poison/zero
    if (T->isStructTy() || T->isArrayTy()) {
      if (inInit) return "{0}";
      return "(" + cty(T) + "){0}";
    }
    if (T->isPointerTy()) return "((char*)0)";
    if (T->isFloatingPointTy()) return "0.0";
    return "0";
  }
  if (isa<ConstantStruct>(C) || isa<ConstantArray>(C) || isa<ConstantDataSequential>(C)) {
    std::string s = inInit ? "{" : "(" + cty(T) + "){";
    bool isArr = T->isArrayTy();
    if (isArr) s += " .a = {";
    unsigned n = isArr ? T->getArrayNumElements() : T->getStructNumElements();
    bool first = true;
    for (unsigned i = 0; i < n; ++i) {
      Constant* E = C->getAggregateElement(i);
      if (DL.getTypeAllocSize(E->getType()) == 0) continue;
      if (!first) s += ", ";
      first = false;
      if (!isArr) s += ".f" + std::to_string(i) + " = ";
      s += constExpr(E, tid, true);
    }
    if (first) s += "0";
    if (isArr) s += "}";
    s += "}";
    return s;
  }
  if (auto* CE = dyn_cast<ConstantExpr>(C)) {
    switch (CE->getOpcode()) {
    case Instruction::BitCast:
    case Instruction::AddrSpaceCast:
      if (T->isPointerTy()) return constExpr(CE->getOperand(0), tid, inInit);
      break;
    case Instruction::GetElementPtr: {
      auto* G = cast<GEPOperator>(CE);
      APInt off(64, 0);
      if (!G->accumulateConstantOffset(DL, off)) refuse("non-constant constant-GEP");
      return "(" + constExpr(cast<Constant>(G->getPointerOperand()), tid, inInit) + " + " +
             std::to_string(off.getSExtValue()) + "ll)";
    }
    case Instruction::PtrToInt:
      return "((" + cty(T) + ")(uint64_t)" + constExpr(CE->getOperand(0), tid, inInit) + ")";
    case Instruction::IntToPtr:
      return "((char*)(uint64_t)" + constExpr(CE->getOperand(0), tid, inInit) + ")";
    case Instruction::Add:
    case Instruction::Sub: {
      std::string op = CE->getOpcode() == Instruction::Add ? "+" : "-";
      return "((" + cty(T) + ")(" + constExpr(CE->getOperand(0), tid, inInit) + " " + op + " " +
             constExpr(CE->getOperand(1), tid, inInit) + "))";
    }
    case Instruction::ICmp: {
      // e.g. the weak-symbol test 'icmp ne (@__pthread_key_create, null)' of libstdc++'s __gthread_active_p()
      auto pred = CE->getPredicate();
      if (pred != CmpInst::ICMP_EQ && pred != CmpInst::ICMP_NE) refuse("constant icmp with an ordering predicate");
      return "((uint8_t)(" + constExpr(CE->getOperand(0), tid, inInit) + (pred == CmpInst::ICMP_EQ ? " == " : " != ") +
             constExpr(CE->getOperand(1), tid, inInit) + "))";
    }
    case Instruction::Trunc:
    case Instruction::ZExt:
      return mask("((" + cty(T) + ")" + constExpr(CE->getOperand(0), tid, inInit) + ")",
                  T->getIntegerBitWidth());
    default:
      break;
    }
    refuse(std::string("constant expression ") + CE->getOpcodeName());
  }
  if (isa<BlockAddress>(C)) refuse("blockaddress");
  refuse("unsupported constant");
}
