// Second emitter (DESIGN.md 2.9): loop-free integer kernel -> SMT-LIB over mathematical integers.
// Every iN value is an Int in [0, 2^N).  add/sub/trunc/zext/sext/icmp/select/udiv/urem/shifts by
// constants are emitted EXACTLY (with explicit wrap-around via ite / mod by a constant), so they need
// no side condition.  mul (symbolic x symbolic) is emitted as the plain product; for every mul a side
// obligation "product < 2^N under the path condition" is produced, and udiv/urem produce "divisor != 0".
// Once the side obligations are unsat the Int encoding coincides with the machine semantics.
#include "ir2c.h"

namespace {
struct SmtEmitter {
  Function& F;
  raw_ostream& os;
  std::map<const Value*, std::string> name;
  std::map<const BasicBlock*, std::string> bcond;
  std::vector<std::pair<std::string, std::string>> lets; // (name, term)
  std::vector<std::string> sideNames;
  std::vector<std::string> sideDesc;
  std::vector<std::pair<const Argument*, std::vector<std::pair<std::string, std::string>>>> outs; // out-param stores (cond,val)
  int n = 0;

  SmtEmitter(Function& f, raw_ostream& o) : F(f), os(o) {}

  static std::string pow2(unsigned b) {
    APInt v = APInt::getOneBitSet(b + 1, b);
    SmallString<40> s;
    v.toStringUnsigned(s);
    return std::string(s.str());
  }
  std::string val(const Value* V) {
    if (auto* CI = dyn_cast<ConstantInt>(V)) {
      SmallString<40> s;
      CI->getValue().toStringUnsigned(s);
      return std::string(s.str());
    }
    if (isa<UndefValue>(V)) return "0";
    auto it = name.find(V);
    if (it == name.end()) refuse("smt-int: value without a term in " + F.getName().str());
    return it->second;
  }
  std::string def(const Value* V, const std::string& term) {
    std::string nm = "v" + std::to_string(n++);
    lets.push_back({nm, term});
    name[V] = nm;
    return nm;
  }
  std::string tmp(const std::string& term) {
    std::string nm = "t" + std::to_string(n++);
    lets.push_back({nm, term});
    return nm;
  }
  std::string sgn(const std::string& x, unsigned b) { // signed interpretation
    return "(ite (< " + x + " " + pow2(b - 1) + ") " + x + " (- " + x + " " + pow2(b) + "))";
  }
  void side(const std::string& cond, const BasicBlock* BB, const std::string& what) {
    std::string nm = "side" + std::to_string(sideNames.size());
    lets.push_back({nm, "(=> " + bcond[BB] + " " + cond + ")"});
    sideNames.push_back(nm);
    sideDesc.push_back(what);
  }

  void run() {
    // topological order of blocks (function must be loop-free)
    std::vector<BasicBlock*> order;
    std::map<BasicBlock*, int> indeg;
    for (BasicBlock& B : F) indeg[&B] = 0;
    for (BasicBlock& B : F)
      for (BasicBlock* S : successors(&B)) indeg[S]++;
    std::vector<BasicBlock*> wl{&F.getEntryBlock()};
    while (!wl.empty()) {
      BasicBlock* B = wl.back();
      wl.pop_back();
      order.push_back(B);
      for (BasicBlock* S : successors(B))
        if (--indeg[S] == 0) wl.push_back(S);
    }
    if (order.size() != F.size()) refuse("smt-int: function has a loop (or unreachable blocks): " + F.getName().str());
    std::vector<const Argument*> inArgs;
    for (Argument& A : F.args()) {
      if (A.getType()->isIntegerTy()) {
        name[&A] = "a" + std::to_string(A.getArgNo());
        inArgs.push_back(&A);
      } else if (A.getType()->isPointerTy())
        outs.push_back({&A, {}});
      else
        refuse("smt-int: argument type");
    }
    std::map<std::pair<const BasicBlock*, const BasicBlock*>, std::string> edge;
    std::vector<std::pair<std::string, std::string>> rets; // (cond, value)
    for (BasicBlock* B : order) {
      if (B == &F.getEntryBlock())
        bcond[B] = "true";
      else {
        std::string c = "(or";
        for (BasicBlock* P : predecessors(B)) c += " " + edge[{P, B}];
        c += ")";
        bcond[B] = tmp(c);
      }
      for (Instruction& I : *B) {
        Type* Ty = I.getType();
        unsigned b = Ty->isIntegerTy() ? Ty->getIntegerBitWidth() : 0;
        auto A = [&](unsigned i) { return val(I.getOperand(i)); };
        switch (I.getOpcode()) {
        case Instruction::PHI: {
          auto& P = cast<PHINode>(I);
          std::string t = val(P.getIncomingValue(P.getNumIncomingValues() - 1));
          for (int k = (int)P.getNumIncomingValues() - 2; k >= 0; --k)
            t = "(ite " + edge[{P.getIncomingBlock(k), B}] + " " + val(P.getIncomingValue(k)) + " " + t + ")";
          def(&I, t);
          break;
        }
        case Instruction::Add: {
          std::string s = tmp("(+ " + A(0) + " " + A(1) + ")");
          def(&I, "(ite (< " + s + " " + pow2(b) + ") " + s + " (- " + s + " " + pow2(b) + "))");
          break;
        }
        case Instruction::Sub: {
          std::string s = tmp("(- " + A(0) + " " + A(1) + ")");
          def(&I, "(ite (>= " + s + " 0) " + s + " (+ " + s + " " + pow2(b) + "))");
          break;
        }
        case Instruction::Mul: {
          std::string s = def(&I, "(* " + A(0) + " " + A(1) + ")");
          if (!isa<ConstantInt>(I.getOperand(0)) && !isa<ConstantInt>(I.getOperand(1)))
            side("(< " + s + " " + pow2(b) + ")", B, "mul does not wrap: " + std::string(I.getName()));
          else { // constant factor: exact via mod
            name[&I] = tmp("(mod " + s + " " + pow2(b) + ")");
          }
          break;
        }
        case Instruction::UDiv:
          side("(not (= " + A(1) + " 0))", B, "udiv divisor non-zero");
          def(&I, "(div " + A(0) + " " + A(1) + ")");
          break;
        case Instruction::URem:
          side("(not (= " + A(1) + " 0))", B, "urem divisor non-zero");
          def(&I, "(mod " + A(0) + " " + A(1) + ")");
          break;
        case Instruction::Shl: {
          auto* C = dyn_cast<ConstantInt>(I.getOperand(1));
          if (!C) refuse("smt-int: shl by non-constant");
          def(&I, "(mod (* " + A(0) + " " + pow2(C->getZExtValue()) + ") " + pow2(b) + ")");
          break;
        }
        case Instruction::LShr: {
          auto* C = dyn_cast<ConstantInt>(I.getOperand(1));
          if (!C) refuse("smt-int: lshr by non-constant");
          def(&I, "(div " + A(0) + " " + pow2(C->getZExtValue()) + ")");
          break;
        }
        case Instruction::And: {
          auto* C = dyn_cast<ConstantInt>(I.getOperand(1));
          if (b == 1) { def(&I, "(ite (and (= " + A(0) + " 1) (= " + A(1) + " 1)) 1 0)"); break; }
          if (!C || !(C->getValue() + 1).isPowerOf2()) refuse("smt-int: and with non-mask");
          def(&I, "(mod " + A(0) + " " + pow2((C->getValue() + 1).logBase2()) + ")");
          break;
        }
        case Instruction::Or:
          if (b != 1) refuse("smt-int: or on wide integers");
          def(&I, "(ite (or (= " + A(0) + " 1) (= " + A(1) + " 1)) 1 0)");
          break;
        case Instruction::Xor:
          if (b != 1) refuse("smt-int: xor on wide integers");
          def(&I, "(ite (= " + A(0) + " " + A(1) + ") 0 1)");
          break;
        case Instruction::ZExt: def(&I, A(0)); break;
        case Instruction::Trunc: def(&I, "(mod " + A(0) + " " + pow2(b) + ")"); break;
        case Instruction::SExt: {
          unsigned sb = I.getOperand(0)->getType()->getIntegerBitWidth();
          def(&I, "(ite (< " + A(0) + " " + pow2(sb - 1) + ") " + A(0) + " (+ " + A(0) + " (- " + pow2(b) + " " + pow2(sb) + ")))");
          break;
        }
        case Instruction::ICmp: {
          auto& C = cast<ICmpInst>(I);
          unsigned ob = C.getOperand(0)->getType()->getIntegerBitWidth();
          std::string x = A(0), y = A(1);
          if (C.isSigned()) { x = sgn(x, ob); y = sgn(y, ob); }
          const char* op = "=";
          bool neg = false;
          switch (C.getPredicate()) {
          case CmpInst::ICMP_EQ: op = "="; break;
          case CmpInst::ICMP_NE: op = "="; neg = true; break;
          case CmpInst::ICMP_UGT: case CmpInst::ICMP_SGT: op = ">"; break;
          case CmpInst::ICMP_UGE: case CmpInst::ICMP_SGE: op = ">="; break;
          case CmpInst::ICMP_ULT: case CmpInst::ICMP_SLT: op = "<"; break;
          case CmpInst::ICMP_ULE: case CmpInst::ICMP_SLE: op = "<="; break;
          default: refuse("smt-int: icmp predicate");
          }
          std::string t = "(" + std::string(op) + " " + x + " " + y + ")";
          if (neg) t = "(not " + t + ")";
          def(&I, "(ite " + t + " 1 0)");
          break;
        }
        case Instruction::Select:
          def(&I, "(ite (= " + A(0) + " 1) " + A(1) + " " + A(2) + ")");
          break;
        case Instruction::Freeze: def(&I, A(0)); break;
        case Instruction::Call: {
          auto& CB = cast<CallBase>(I);
          Function* c = CB.getCalledFunction();
          if (!c || !c->isIntrinsic()) refuse("smt-int: call");
          switch (c->getIntrinsicID()) {
          case Intrinsic::umin: def(&I, "(ite (< " + A(0) + " " + A(1) + ") " + A(0) + " " + A(1) + ")"); break;
          case Intrinsic::umax: def(&I, "(ite (> " + A(0) + " " + A(1) + ") " + A(0) + " " + A(1) + ")"); break;
          case Intrinsic::lifetime_start: case Intrinsic::lifetime_end: case Intrinsic::dbg_value:
          case Intrinsic::dbg_declare: case Intrinsic::assume: case Intrinsic::experimental_noalias_scope_decl: break;
          default: refuse("smt-int: intrinsic " + c->getName().str());
          }
          break;
        }
        case Instruction::GetElementPtr: case Instruction::BitCast: {
          // only to address out-parameters: resolved at the store
          break;
        }
        case Instruction::Store: {
          auto& S = cast<StoreInst>(I);
          const Value* P = S.getPointerOperand()->stripPointerCasts();
          int64_t off = 0;
          if (auto* G = dyn_cast<GEPOperator>(P)) {
            APInt o(64, 0);
            if (!G->accumulateConstantOffset(F.getParent()->getDataLayout(), o)) refuse("smt-int: store address");
            off = o.getSExtValue();
            P = G->getPointerOperand()->stripPointerCasts();
          }
          bool found = false;
          for (auto& o : outs)
            if (o.first == P) {
              if (off != 0) refuse("smt-int: store at non-zero offset of out-parameter (use one pointer per output)");
              o.second.push_back({bcond[B], val(S.getValueOperand())});
              found = true;
            }
          if (!found) refuse("smt-int: store to something that is not an out-parameter");
          break;
        }
        case Instruction::Br: {
          auto& Br = cast<BranchInst>(I);
          if (Br.isUnconditional())
            edge[{B, Br.getSuccessor(0)}] = bcond[B];
          else {
            edge[{B, Br.getSuccessor(0)}] = tmp("(and " + bcond[B] + " (= " + val(Br.getCondition()) + " 1))");
            edge[{B, Br.getSuccessor(1)}] = tmp("(and " + bcond[B] + " (= " + val(Br.getCondition()) + " 0))");
          }
          break;
        }
        case Instruction::Ret:
          if (auto* RV = cast<ReturnInst>(I).getReturnValue()) rets.push_back({bcond[B], val(RV)});
          break;
        case Instruction::Unreachable: break;
        default:
          refuse(std::string("smt-int: instruction ") + I.getOpcodeName());
        }
      }
    }
    // emit
    std::string params;
    for (auto* A : inArgs) params += "(a" + std::to_string(A->getArgNo()) + " Int) ";
    std::string fn = sanitize(F.getName());
    auto wrap = [&](const std::string& body) {
      std::string s;
      for (auto& l : lets) s += "(let ((" + l.first + " " + l.second + "))\n  ";
      s += body;
      for (size_t i = 0; i < lets.size(); ++i) s += ")";
      return s;
    };
    os << "; generated by ir2c --smt-int from " << F.getParent()->getSourceFileName() << "\n";
    os << "; kernel " << demangle(F.getName().str()) << ": " << inArgs.size() << " integer inputs\n";
    for (auto* A : inArgs)
      os << "; input a" << A->getArgNo() << " : i" << A->getType()->getIntegerBitWidth() << "\n";
    int k = 0;
    for (auto& o : outs) {
      std::string t = "0";
      for (auto& s : o.second) t = "(ite " + s.first + " " + s.second + " " + t + ")";
      os << "(define-fun " << fn << "_out" << k++ << " (" << params << ") Int\n  " << wrap(t) << ")\n";
    }
    if (!rets.empty()) {
      std::string t = rets.back().second;
      for (int i = (int)rets.size() - 2; i >= 0; --i) t = "(ite " + rets[i].first + " " + rets[i].second + " " + t + ")";
      os << "(define-fun " << fn << "_ret (" << params << ") Int\n  " << wrap(t) << ")\n";
    }
    for (size_t i = 0; i < sideNames.size(); ++i) {
      os << "; side obligation " << i << ": " << sideDesc[i] << "\n";
      os << "(define-fun " << fn << "_side" << i << " (" << params << ") Bool\n  " << wrap(sideNames[i]) << ")\n";
    }
    os << "; nsides " << sideNames.size() << "\n";
  }
};
} // namespace

void emitSmtInt(Module& M, Function& F, raw_ostream& os) {
  SmtEmitter E(F, os);
  E.run();
}
