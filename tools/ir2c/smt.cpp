#include "ir2c.h"
void emitSmtInt(Module& M, Function& F, raw_ostream& os) { refuse("smt-int emitter not built yet"); }
