#include "ir2c.h"

std::string FnEmitter::val(const Value* V) {
  if (auto* C = dyn_cast<Constant>(V)) return T.constExpr(C, tid, false);
  auto it = lname.find(V);
  if (it == lname.end()) {
    if (isa<MetadataAsValue>(V)) return "0";
    refuse("unnamed value used in " + F.getName().str());
  }
  return it->second;
}

void FnEmitter::nameValues() {
  int n = 0;
  for (const Argument& A : F.args()) lname[&A] = "a" + std::to_string(A.getArgNo());
  int b = 0;
  for (const BasicBlock& BB : F) {
    bname[&BB] = "B" + std::to_string(b++);
    for (const Instruction& I : BB)
      if (!I.getType()->isVoidTy()) lname[&I] = "v" + std::to_string(n++);
  }
}

std::string FnEmitter::orderName(AtomicOrdering o) {
  switch (o) {
  case AtomicOrdering::NotAtomic: return "VF_NA";
  case AtomicOrdering::Unordered:
  case AtomicOrdering::Monotonic: return "VF_RLX";
  case AtomicOrdering::Acquire: return "VF_ACQ";
  case AtomicOrdering::Release: return "VF_REL";
  case AtomicOrdering::AcquireRelease: return "VF_ACQREL";
  case AtomicOrdering::SequentiallyConsistent: return "VF_SC";
  }
  return "VF_SC";
}

void FnEmitter::assign(const Instruction& I, const std::string& rhs) {
  body << "  " << lname[&I] << " = " << rhs << ";\n";
}

// typed lvalue for a GEP with a variable index ("" if not expressible)
std::string FnEmitter::typedGep(const GEPOperator* G) {
  {
    bool ok = true;
    Type* ST = G->getSourceElementType();
    if (!ST->isSized() || T.DL.getTypeAllocSize(ST) == 0) ok = false;
    for (gep_type_iterator GTI = gep_type_begin(G), E = gep_type_end(G); ok && GTI != E; ++GTI) {
      Type* IT = GTI.getIndexedType();
      if (!IT->isSized() || T.DL.getTypeAllocSize(IT) == 0) ok = false;
      if (IT->isVectorTy()) ok = false;
    }
    if (ok) {
      std::string e;
      bool first = true;
      for (gep_type_iterator GTI = gep_type_begin(G), E = gep_type_end(G); GTI != E; ++GTI) {
        Value* idx = GTI.getOperand();
        std::string ix;
        if (auto* CI = dyn_cast<ConstantInt>(idx)) ix = std::to_string(CI->getSExtValue()) + "ll";
        else ix = "(int64_t)" + T.sext(val(idx), idx->getType()->getIntegerBitWidth());
        if (first) {
          e = "((" + ty(ST) + "*)" + val(G->getPointerOperand()) + ")[" + ix + "]";
          first = false;
        } else if (GTI.getStructTypeOrNull()) {
          e += ".f" + std::to_string(cast<ConstantInt>(idx)->getZExtValue());
        } else {
          e += ".a[" + ix + "]";
        }
      }
      return e;
    }
  }
  return "";
}

std::string FnEmitter::lvalue(const Value* P, Type* AT) {
  // loads/stores through a variable-index GEP access the typed lvalue directly: CBMC then updates one
  // array element ("with") instead of byte-updating the whole enclosing object
  if (auto* G = dyn_cast<GEPOperator>(P))
    if (!G->hasAllConstantIndices()) {
      std::string e = typedGep(G);
      if (!e.empty()) {
        if (G->getResultElementType() == AT) return e;
        return "*(" + ty(AT) + "*)&" + e;
      }
    }
  return "*(" + ty(AT) + "*)" + val(P);
}

std::string FnEmitter::gepExpr(const GEPOperator* G) {
  // GEPs with a variable index are emitted as typed member/element accesses; all-constant GEPs use byte offsets.
  if (!G->hasAllConstantIndices()) {
    std::string e = typedGep(G);
    if (!e.empty()) return "((char*)&" + e + ")";
  }
  std::string s = "(" + val(G->getPointerOperand());
  int64_t coff = 0;
  for (gep_type_iterator GTI = gep_type_begin(G), E = gep_type_end(G); GTI != E; ++GTI) {
    Value* idx = GTI.getOperand();
    if (StructType* ST = GTI.getStructTypeOrNull()) {
      unsigned fi = cast<ConstantInt>(idx)->getZExtValue();
      coff += T.DL.getStructLayout(ST)->getElementOffset(fi);
    } else {
      uint64_t stride = T.DL.getTypeAllocSize(GTI.getIndexedType());
      if (auto* CI = dyn_cast<ConstantInt>(idx))
        coff += CI->getSExtValue() * (int64_t)stride;
      else {
        unsigned n = idx->getType()->getIntegerBitWidth();
        s += " + (int64_t)" + T.sext(val(idx), n) + " * " + std::to_string(stride) + "ll";
      }
    }
  }
  if (coff != 0) s += " + " + std::to_string(coff) + "ll";
  return s + ")";
}

void FnEmitter::emitPhiCopies(const BasicBlock* from, const BasicBlock* to, const std::string& ind) {
  std::vector<const PHINode*> phis;
  for (const PHINode& P : to->phis()) phis.push_back(&P);
  if (phis.empty()) return;
  bool needTmp = false;
  for (auto* P : phis) {
    const Value* in = P->getIncomingValueForBlock(from);
    if (auto* IP = dyn_cast<PHINode>(in))
      if (IP->getParent() == to && IP != P) needTmp = true;
  }
  if (!needTmp) {
    for (auto* P : phis) {
      const Value* in = P->getIncomingValueForBlock(from);
      if (in == P) continue;
      body << ind << lname[P] << " = " << val(in) << ";\n";
    }
  } else {
    for (auto* P : phis)
      body << ind << lname[P] << "_t = " << val(P->getIncomingValueForBlock(from)) << ";\n";
    for (auto* P : phis) body << ind << lname[P] << " = " << lname[P] << "_t;\n";
  }
}

void FnEmitter::emitBranchTo(const BasicBlock* from, const BasicBlock* to, const std::string& ind) {
  emitPhiCopies(from, to, ind);
  body << ind << "goto " << bname[to] << ";\n";
}

static std::string fcmpExpr(CmpInst::Predicate p, const std::string& a, const std::string& b) {
  std::string uno = "(vf_isnan(" + a + ") || vf_isnan(" + b + "))";
  std::string ord = "(!" + uno + ")";
  auto O = [&](const char* op) { return "(" + ord + " && (" + a + " " + op + " " + b + "))"; };
  auto U = [&](const char* op) { return "(" + uno + " || (" + a + " " + op + " " + b + "))"; };
  switch (p) {
  case CmpInst::FCMP_FALSE: return "0";
  case CmpInst::FCMP_TRUE: return "1";
  case CmpInst::FCMP_OEQ: return O("==");
  case CmpInst::FCMP_OGT: return O(">");
  case CmpInst::FCMP_OGE: return O(">=");
  case CmpInst::FCMP_OLT: return O("<");
  case CmpInst::FCMP_OLE: return O("<=");
  case CmpInst::FCMP_ONE: return O("!=");
  case CmpInst::FCMP_ORD: return ord;
  case CmpInst::FCMP_UNO: return uno;
  case CmpInst::FCMP_UEQ: return U("==");
  case CmpInst::FCMP_UGT: return U(">");
  case CmpInst::FCMP_UGE: return U(">=");
  case CmpInst::FCMP_ULT: return U("<");
  case CmpInst::FCMP_ULE: return U("<=");
  case CmpInst::FCMP_UNE: return U("!=");
  default: refuse("fcmp predicate");
  }
}

void FnEmitter::emitInst(const Instruction& I) {
  Type* Ty = I.getType();
  switch (I.getOpcode()) {
  case Instruction::Alloca: return; // handled in prologue
  case Instruction::PHI: return;
  case Instruction::Add: case Instruction::Sub: case Instruction::Mul:
  case Instruction::UDiv: case Instruction::URem: case Instruction::And:
  case Instruction::Or: case Instruction::Xor: {
    unsigned n = T.bits(Ty);
    const char* op = "";
    switch (I.getOpcode()) {
    case Instruction::Add: op = "+"; break;
    case Instruction::Sub: op = "-"; break;
    case Instruction::Mul: op = "*"; break;
    case Instruction::UDiv: op = "/"; break;
    case Instruction::URem: op = "%"; break;
    case Instruction::And: op = "&"; break;
    case Instruction::Or: op = "|"; break;
    case Instruction::Xor: op = "^"; break;
    }
    std::string ct = T.ctOf(n);
    if (I.getOpcode() == Instruction::Sub && n == 64) {
      // ptrtoint(p) - ptrtoint(q)  ==>  C pointer subtraction, which CBMC resolves to an offset difference
      auto* P0 = dyn_cast<PtrToIntOperator>(I.getOperand(0));
      auto* P1 = dyn_cast<PtrToIntOperator>(I.getOperand(1));
      if (P0 && P1) {
        assign(I, "VF_PTRDIFF(" + val(P0->getPointerOperand()) + ", " + val(P1->getPointerOperand()) + ")");
        return;
      }
    }
    std::string e = "(" + ct + ")" + val(I.getOperand(0)) + " " + op + " (" + ct + ")" + val(I.getOperand(1));
    assign(I, "(" + ty(Ty) + ")" + T.mask("(" + e + ")", n));
    return;
  }
  case Instruction::SDiv: case Instruction::SRem: {
    unsigned n = T.bits(Ty);
    const char* op = I.getOpcode() == Instruction::SDiv ? "/" : "%";
    std::string e = T.sext(val(I.getOperand(0)), n) + " " + op + " " + T.sext(val(I.getOperand(1)), n);
    assign(I, "(" + ty(Ty) + ")" + T.mask("((" + T.ctOf(n) + ")(" + e + "))", n));
    return;
  }
  case Instruction::Shl: case Instruction::LShr: case Instruction::AShr: {
    unsigned n = T.bits(Ty);
    std::string a = val(I.getOperand(0)), b = val(I.getOperand(1));
    std::string ct = T.ctOf(n);
    std::string e;
    std::string inr = "((" + ct + ")" + b + " < " + std::to_string(n) + ")";
    if (I.getOpcode() == Instruction::Shl)
      e = "(" + inr + " ? (" + ct + ")" + a + " << (" + ct + ")" + b + " : (" + ct + ")VF_POISON())";
    else if (I.getOpcode() == Instruction::LShr)
      e = "(" + inr + " ? (" + ct + ")" + a + " >> (" + ct + ")" + b + " : (" + ct + ")VF_POISON())";
    else
      e = "(" + inr + " ? (" + ct + ")(" + T.sext(a, n) + " >> (" + ct + ")" + b + ") : (" + ct + ")VF_POISON())";
    assign(I, "(" + ty(Ty) + ")" + T.mask(e, n));
    return;
  }
  case Instruction::FAdd: case Instruction::FSub: case Instruction::FMul: case Instruction::FDiv: {
    const char* op = I.getOpcode() == Instruction::FAdd ? "+" : I.getOpcode() == Instruction::FSub ? "-"
                   : I.getOpcode() == Instruction::FMul ? "*" : "/";
    assign(I, val(I.getOperand(0)) + " " + op + " " + val(I.getOperand(1)));
    return;
  }
  case Instruction::FNeg: assign(I, "-" + val(I.getOperand(0))); return;
  case Instruction::FRem: refuse("frem");
  case Instruction::ICmp: {
    auto& C = cast<ICmpInst>(I);
    std::string a = val(C.getOperand(0)), b = val(C.getOperand(1));
    Type* OT = C.getOperand(0)->getType();
    if (OT->isPointerTy()) {
      const char* op;
      switch (C.getPredicate()) {
      case CmpInst::ICMP_EQ: assign(I, "(" + a + " == " + b + ")"); return;
      case CmpInst::ICMP_NE: assign(I, "(" + a + " != " + b + ")"); return;
      case CmpInst::ICMP_UGT: op = ">"; break;
      case CmpInst::ICMP_UGE: op = ">="; break;
      case CmpInst::ICMP_ULT: op = "<"; break;
      case CmpInst::ICMP_ULE: op = "<="; break;
      default: refuse("signed pointer comparison");
      }
      assign(I, "VF_PTRCMP(" + a + ", " + op + ", " + b + ")");
      return;
    }
    unsigned n = T.bits(OT);
    const char* op = "";
    bool sg = C.isSigned();
    switch (C.getPredicate()) {
    case CmpInst::ICMP_EQ: op = "=="; break;
    case CmpInst::ICMP_NE: op = "!="; break;
    case CmpInst::ICMP_UGT: case CmpInst::ICMP_SGT: op = ">"; break;
    case CmpInst::ICMP_UGE: case CmpInst::ICMP_SGE: op = ">="; break;
    case CmpInst::ICMP_ULT: case CmpInst::ICMP_SLT: op = "<"; break;
    case CmpInst::ICMP_ULE: case CmpInst::ICMP_SLE: op = "<="; break;
    default: break;
    }
    if (sg) { a = T.sext(a, n); b = T.sext(b, n); }
    else { a = "(" + T.ctOf(n) + ")" + a; b = "(" + T.ctOf(n) + ")" + b; }
    assign(I, "(" + a + " " + op + " " + b + ")");
    return;
  }
  case Instruction::FCmp: {
    auto& C = cast<FCmpInst>(I);
    assign(I, fcmpExpr(C.getPredicate(), val(C.getOperand(0)), val(C.getOperand(1))));
    return;
  }
  case Instruction::Trunc: case Instruction::ZExt:
    assign(I, "(" + ty(Ty) + ")" + T.mask("((" + T.ctOf(T.bits(Ty)) + ")" + val(I.getOperand(0)) + ")", T.bits(Ty)));
    return;
  case Instruction::SExt: {
    unsigned sn = T.bits(I.getOperand(0)->getType()), dn = T.bits(Ty);
    assign(I, "(" + ty(Ty) + ")" + T.mask("((" + T.ctOf(dn) + ")(" + T.sctOf(dn) + ")" + T.sext(val(I.getOperand(0)), sn) + ")", dn));
    return;
  }
  case Instruction::PtrToInt:
    assign(I, "(" + ty(Ty) + ")" + T.mask("((uint64_t)" + val(I.getOperand(0)) + ")", T.bits(Ty)));
    return;
  case Instruction::IntToPtr:
    assign(I, "(char*)(uint64_t)" + val(I.getOperand(0)));
    return;
  case Instruction::BitCast: case Instruction::AddrSpaceCast: {
    Type* ST = I.getOperand(0)->getType();
    if (Ty->isPointerTy() && ST->isPointerTy()) { assign(I, val(I.getOperand(0))); return; }
    if (Ty->isDoubleTy() && ST->isIntegerTy(64)) { assign(I, "vf_bits2d(" + val(I.getOperand(0)) + ")"); return; }
    if (Ty->isIntegerTy(64) && ST->isDoubleTy()) { assign(I, "vf_d2bits(" + val(I.getOperand(0)) + ")"); return; }
    if (Ty->isFloatTy() && ST->isIntegerTy(32)) { assign(I, "vf_bits2f(" + val(I.getOperand(0)) + ")"); return; }
    if (Ty->isIntegerTy(32) && ST->isFloatTy()) { assign(I, "vf_f2bits(" + val(I.getOperand(0)) + ")"); return; }
    refuse("bitcast between unsupported types");
  }
  case Instruction::FPTrunc: case Instruction::FPExt:
    assign(I, "(" + ty(Ty) + ")" + val(I.getOperand(0))); return;
  case Instruction::FPToUI:
    assign(I, "(" + ty(Ty) + ")" + T.mask("((uint64_t)" + val(I.getOperand(0)) + ")", T.bits(Ty))); return;
  case Instruction::FPToSI:
    assign(I, "(" + ty(Ty) + ")" + T.mask("((uint64_t)(int64_t)" + val(I.getOperand(0)) + ")", T.bits(Ty))); return;
  case Instruction::UIToFP:
    assign(I, "(" + ty(Ty) + ")" + val(I.getOperand(0))); return;
  case Instruction::SIToFP:
    assign(I, "(" + ty(Ty) + ")" + T.sext(val(I.getOperand(0)), T.bits(I.getOperand(0)->getType()))); return;
  case Instruction::Select:
    assign(I, "(" + val(I.getOperand(0)) + " ? " + val(I.getOperand(1)) + " : " + val(I.getOperand(2)) + ")");
    return;
  case Instruction::Freeze: assign(I, val(I.getOperand(0))); return;
  case Instruction::GetElementPtr: assign(I, gepExpr(cast<GEPOperator>(&I))); return;
  case Instruction::ExtractValue: {
    auto& E = cast<ExtractValueInst>(I);
    assign(I, val(E.getAggregateOperand()) + T.fieldPath(E.getAggregateOperand()->getType(), E.getIndices()));
    return;
  }
  case Instruction::InsertValue: {
    auto& E = cast<InsertValueInst>(I);
    assign(I, val(E.getAggregateOperand()));
    if (T.DL.getTypeAllocSize(E.getInsertedValueOperand()->getType()) != 0)
      body << "  " << lname[&I] << T.fieldPath(Ty, E.getIndices()) << " = " << val(E.getInsertedValueOperand()) << ";\n";
    return;
  }
  case Instruction::Load: {
    auto& L = cast<LoadInst>(I);
    if (T.DL.getTypeAllocSize(Ty) == 0) return;
    std::string p = val(L.getPointerOperand());
    if (L.isAtomic())
      body << "  VF_ATOMIC_LOAD(" << lname[&I] << ", " << lvalue(L.getPointerOperand(), Ty) << ", " << p << ", " << orderName(L.getOrdering()) << ");\n";
    else
      assign(I, lvalue(L.getPointerOperand(), Ty));
    return;
  }
  case Instruction::Store: {
    auto& S = cast<StoreInst>(I);
    Type* VT = S.getValueOperand()->getType();
    if (T.DL.getTypeAllocSize(VT) == 0) return;
    std::string p = val(S.getPointerOperand());
    if (S.isAtomic())
      body << "  VF_ATOMIC_STORE(" << lvalue(S.getPointerOperand(), VT) << ", " << p << ", " << val(S.getValueOperand()) << ", " << orderName(S.getOrdering()) << ");\n";
    else
      body << "  " << lvalue(S.getPointerOperand(), VT) << " = " << val(S.getValueOperand()) << ";\n";
    return;
  }
  case Instruction::AtomicCmpXchg: {
    auto& X = cast<AtomicCmpXchgInst>(I);
    Type* VT = X.getCompareOperand()->getType();
    body << "  VF_ATOMIC_CAS(" << lname[&I] << ", " << ty(VT) << ", " << lvalue(X.getPointerOperand(), VT) << ", " << val(X.getPointerOperand()) << ", "
         << val(X.getCompareOperand()) << ", " << val(X.getNewValOperand()) << ", "
         << orderName(X.getSuccessOrdering()) << ", " << orderName(X.getFailureOrdering()) << ");\n";
    return;
  }
  case Instruction::AtomicRMW: {
    auto& X = cast<AtomicRMWInst>(I);
    Type* VT = X.getValOperand()->getType();
    std::string opn;
    std::string a = "vf_old", b = val(X.getValOperand());
    unsigned n = VT->isIntegerTy() ? T.bits(VT) : 64;
    std::string nv;
    switch (X.getOperation()) {
    case AtomicRMWInst::Xchg: nv = b; break;
    case AtomicRMWInst::Add: nv = "vf_old + " + b; break;
    case AtomicRMWInst::Sub: nv = "vf_old - " + b; break;
    case AtomicRMWInst::And: nv = "vf_old & " + b; break;
    case AtomicRMWInst::Or: nv = "vf_old | " + b; break;
    case AtomicRMWInst::Xor: nv = "vf_old ^ " + b; break;
    case AtomicRMWInst::Nand: nv = "~(vf_old & " + b + ")"; break;
    case AtomicRMWInst::UMax: nv = "(vf_old > " + b + " ? vf_old : " + b + ")"; break;
    case AtomicRMWInst::UMin: nv = "(vf_old < " + b + " ? vf_old : " + b + ")"; break;
    case AtomicRMWInst::Max: nv = "(" + T.sext("vf_old", n) + " > " + T.sext(b, n) + " ? vf_old : " + b + ")"; break;
    case AtomicRMWInst::Min: nv = "(" + T.sext("vf_old", n) + " < " + T.sext(b, n) + " ? vf_old : " + b + ")"; break;
    default: refuse("atomicrmw operation");
    }
    if (VT->isIntegerTy()) nv = T.mask("(" + nv + ")", n);
    body << "  VF_ATOMIC_RMW(" << lname[&I] << ", " << ty(VT) << ", " << lvalue(X.getPointerOperand(), VT) << ", " << val(X.getPointerOperand()) << ", " << nv
         << ", " << orderName(X.getOrdering()) << ");\n";
    return;
  }
  case Instruction::Fence:
    body << "  VF_FENCE(" << orderName(cast<FenceInst>(I).getOrdering()) << ");\n";
    return;
  case Instruction::Call: emitCall(cast<CallBase>(I)); return;
  case Instruction::Invoke: {
    auto& V = cast<InvokeInst>(I);
    emitCall(V);
    emitBranchTo(I.getParent(), V.getNormalDest(), "  ");
    return;
  }
  case Instruction::LandingPad:
    body << "  VF_FATAL(\"landingpad\");\n";
    if (step) body << "  if (vf_dead) return;\n";
    return;
  case Instruction::Resume:
    body << "  VF_FATAL(\"resume\");\n";
    if (step) body << "  if (vf_dead) return;\n";
    return;
  case Instruction::Unreachable:
    body << "  VF_UNREACHABLE();\n";
    if (step) body << "  if (vf_dead) return;\n";
    return;
  case Instruction::Ret: {
    auto& R = cast<ReturnInst>(I);
    if (step) { body << "  goto vf_thread_end;\n"; return; }
    if (R.getReturnValue() && T.DL.getTypeAllocSize(R.getReturnValue()->getType()) != 0)
      body << "  return " << val(R.getReturnValue()) << ";\n";
    else if (R.getReturnValue())
      body << "  { " << ty(R.getReturnValue()->getType()) << " vf_z = {0}; return vf_z; }\n";
    else
      body << "  return;\n";
    return;
  }
  case Instruction::Br: {
    auto& B = cast<BranchInst>(I);
    if (B.isUnconditional()) { emitBranchTo(I.getParent(), B.getSuccessor(0), "  "); return; }
    body << "  if (" << val(B.getCondition()) << ") {\n";
    emitBranchTo(I.getParent(), B.getSuccessor(0), "    ");
    body << "  } else {\n";
    emitBranchTo(I.getParent(), B.getSuccessor(1), "    ");
    body << "  }\n";
    return;
  }
  case Instruction::Switch: {
    auto& S = cast<SwitchInst>(I);
    unsigned n = T.bits(S.getCondition()->getType());
    body << "  switch ((" << T.ctOf(n) << ")" << val(S.getCondition()) << ") {\n";
    for (auto& C : S.cases()) {
      body << "  case " << T.intLit(C.getCaseValue()->getValue()) << ": {\n";
      emitBranchTo(I.getParent(), C.getCaseSuccessor(), "    ");
      body << "  }\n";
    }
    body << "  default: {\n";
    emitBranchTo(I.getParent(), S.getDefaultDest(), "    ");
    body << "  }\n  }\n";
    return;
  }
  default:
    refuse(std::string("instruction ") + I.getOpcodeName() + " in " + F.getName().str());
  }
}
