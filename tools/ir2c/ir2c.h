// ir2c: LLVM-14 IR -> C translator for CBMC (see /verif/DESIGN.md section 2.2)
#pragma once
#include <llvm/IR/Module.h>
#include <llvm/IR/Function.h>
#include <llvm/IR/Instructions.h>
#include <llvm/IR/IntrinsicInst.h>
#include <llvm/IR/Constants.h>
#include <llvm/IR/DataLayout.h>
#include <llvm/IR/Operator.h>
#include <llvm/IR/InlineAsm.h>
#include <llvm/IR/CFG.h>
#include <llvm/IR/GetElementPtrTypeIterator.h>
#include <llvm/CodeGen/Passes.h>
#include <llvm/IR/LLVMContext.h>
#include <llvm/IR/LegacyPassManager.h>
#include <llvm/IRReader/IRReader.h>
#include <llvm/Support/SourceMgr.h>
#include <llvm/Support/raw_ostream.h>
#include <llvm/Demangle/Demangle.h>
#include <llvm/Transforms/IPO/AlwaysInliner.h>
#include <llvm/Transforms/IPO.h>
#include <llvm/Transforms/Scalar.h>
#include <llvm/Transforms/Utils.h>
#include <algorithm>
#include <map>
#include <set>
#include <string>
#include <vector>
#include <sstream>

using namespace llvm;

[[noreturn]] void refuse(const std::string& why);
std::string sanitize(StringRef s);

struct AccessDesc { const MDNode* tbaa = nullptr; Type* st = nullptr; int64_t off = 0; uint64_t size = 0; bool isPtr = false; };

struct Translator {
  Module& M;
  const DataLayout& DL;
  int nthreads = 0;              // >0: emit per-thread copies for vf_thread_* entries
  bool plainVisible = true;      // plain shared accesses are scheduling points
  std::set<std::string> visibleCalls; // external calls that are scheduling points

  std::map<const GlobalValue*, std::string> gname;
  std::set<std::string> usedNames;
  std::map<Type*, std::string> aggName;
  std::vector<Type*> aggOrder;
  std::set<const Function*> reachF;
  std::set<const GlobalVariable*> reachG;
  std::vector<const Function*> reachFOrder;
  std::vector<const GlobalVariable*> reachGOrder;
  std::set<std::string> externsUsed;
  std::vector<std::string> spinNotes;
  std::vector<AccessDesc> writes;
  bool storedTypesKnown = false, storedUnknown = false;
  unsigned readOnlyLoads = 0;
  void computeStoredTypes(const Function* only);
  bool usesUnwind = false; // module calls longjmp: model setjmp/longjmp by return propagation
  std::set<std::string> ghostPrefixes{"vfg_"};

  Translator(Module& m) : M(m), DL(m.getDataLayout()) {}

  // naming / types
  std::string globalName(const GlobalValue* G, int tid = -1);
  std::string cty(Type* T);
  std::string aggTy(Type* T);
  void emitAggDefs(raw_ostream& os);
  std::string fieldPath(Type* T, ArrayRef<unsigned> idx, Type** outTy = nullptr);
  unsigned bits(Type* T) { return T->getIntegerBitWidth(); }
  bool nativeW(unsigned n) { return n == 8 || n == 16 || n == 32 || n == 64 || n == 128; }
  std::string ctOf(unsigned n); // compute type
  std::string sctOf(unsigned n);
  std::string mask(const std::string& e, unsigned n);
  std::string sext(const std::string& e, unsigned n);

  // constants
  std::string constExpr(const Constant* C, int tid, bool inInit);
  std::string intLit(const APInt& v);

  // reachability
  void computeReach(const std::vector<std::string>& roots);
  void visitConst(const Constant* C, std::vector<const Function*>& wl);

  // emission
  void emitModule(raw_ostream& os, const std::vector<std::string>& roots);
  void emitGlobalDecl(raw_ostream& os, const GlobalVariable* G);
  void emitGlobalDef(raw_ostream& os, const GlobalVariable* G);
  std::string protoOf(const Function* F, const std::string& name);
  void emitFunction(raw_ostream& os, const Function& F, int tid, bool step = true);
  void emitScheduler(raw_ostream& os, const Function& F);
  void writeSidecar(raw_ostream& os, const std::vector<std::string>& roots);
};

// per-function emission state
struct FnEmitter {
  Translator& T;
  const Function& F;
  int tid; // -1 sequential, else thread copy index (step-machine mode)
  bool step;
  std::map<const Value*, std::string> lname;
  std::map<const BasicBlock*, std::string> bname;
  std::ostringstream decls, body;
  int nextPc = 1;
  std::vector<int> pcs;
  std::set<const Value*> privatePtrs;
  int pauseNextPc = -1;
  bool usesSetjmp = false;
  const Instruction* setjmpVal = nullptr;

  FnEmitter(Translator& t, const Function& f, int tid_, bool step_)
      : T(t), F(f), tid(tid_), step(step_) {}
  std::string val(const Value* V);
  std::string ty(Type* t) { return T.cty(t); }
  void run(raw_ostream& os);
  void nameValues();
  void emitInst(const Instruction& I);
  void emitCall(const CallBase& CB);
  bool emitIntrinsic(const CallBase& CB, const Function* callee);
  void emitPhiCopies(const BasicBlock* from, const BasicBlock* to, const std::string& ind);
  void emitBranchTo(const BasicBlock* from, const BasicBlock* to, const std::string& ind);
  std::string gepExpr(const GEPOperator* G);
  std::string typedGep(const GEPOperator* G);
  std::string lvalue(const Value* P, Type* AT);
  void computePrivate();
  bool isPrivateAddr(const Value* P);
  enum Vis { INVISIBLE, VIS_READ, VIS_WRITE, VIS_CAS, VIS_BLOCKING, VIS_PAUSE };
  Vis visibility(const Instruction& I);
  void emitYieldHead(Vis v, const Instruction& I);
  void emitYieldProbe(Vis v, const Instruction& I);
  bool isReadOnlyLoad(const LoadInst& L);
  bool rematChain(const Value* V, std::vector<const Instruction*>& out, std::set<const Value*>& seen, unsigned depth);
  void emitRemat(const Value* P);
  std::set<const GlobalVariable*> tlsStored;
  std::string orderName(AtomicOrdering o);
  void assign(const Instruction& I, const std::string& rhs);
};
