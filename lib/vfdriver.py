#!/usr/bin/env python3
"""Driver for the solver-based checks (DESIGN.md sections 2 and 5).

For one property id: regenerate the encoding of every harness unit from /repo's current
working tree (clang++ -> LLVM IR -> ir2c -> C), validate the translator natively against the
real C++ build, discharge every obligation of the tier with CBMC (+ witness twin), replay any
counterexample natively, write /verif/evidence/<id>.json and exit 0 / 1 / 2.
"""
import concurrent.futures as cf
import glob
import json
import os
import re
import shlex
import shutil
import subprocess
import sys
import time

VERIF = os.path.dirname(os.path.dirname(os.path.abspath(__file__)))
REPO = os.environ.get("VF_REPO", "/repo")
BUILD = os.environ.get("VF_BUILD", os.path.join(VERIF, "build"))
EVDIR = os.environ.get("VF_EVIDENCE", os.path.join(VERIF, "evidence"))  # seeded-change runs write elsewhere
RT = os.path.join(VERIF, "rt")
IR2C = os.path.join(VERIF, "tools", "bin", "ir2c")
CLANG_FLAGS = ["-std=c++17", "-O1", "-fno-vectorize", "-fno-slp-vectorize", "-fno-unroll-loops", "-DNDEBUG",
               "-fno-access-control", "-DGALOIS_VERIF", "-Wno-everything", "-mllvm", "-disable-loop-idiom-all"]
TRUSTED = ["clang++-14 -O1 front end and optimiser", "ir2c (IR->C translator, /verif/tools/ir2c)",
           "vf_rt.h/vf_externs.h environment models", "cbmc 6.11.0 and its SAT/SMT back end"]


def sh(cmd, timeout=None, cwd=None, env=None, inp=None):
    t0 = time.time()
    try:
        p = subprocess.run(cmd, stdout=subprocess.PIPE, stderr=subprocess.STDOUT, timeout=timeout, cwd=cwd, env=env,
                           input=inp, text=True, errors="replace")
        return p.returncode, p.stdout, time.time() - t0
    except subprocess.TimeoutExpired as e:
        out = e.stdout if isinstance(e.stdout, str) else (e.stdout or b"").decode(errors="replace")
        return -9, out + "\nTIMEOUT", time.time() - t0


class Unit:
    def __init__(self, path):
        self.path = path
        self.name = os.path.splitext(os.path.basename(path))[0]
        self.opts = {}
        self.obs = []
        self.smts = []
        self.stubs = []
        for line in open(path):
            line = line.strip()
            if line.startswith("// UNIT:"):
                for tok in shlex.split(line[len("// UNIT:"):]):
                    k, _, v = tok.partition("=")
                    self.opts[k] = v
            elif line.startswith("// ASSUME:"):
                self.stubs.append(line[len("// ASSUME:"):].strip())
            elif line.startswith("// SMT:"):
                sm = {"tier": "quick", "bounds": "", "desc": "", "timeout": "300"}
                for tok in shlex.split(line[len("// SMT:"):]):
                    k, _, v = tok.partition("=")
                    sm[k] = v
                self.smts.append(sm)
            elif line.startswith("// OB:"):
                toks = shlex.split(line[len("// OB:"):])
                ob = {"name": toks[0], "tier": "quick", "unwind": "8", "timeout": "600", "solver": "default", "bounds": "",
                      "desc": "", "expect": "pass"}
                for tok in toks[1:]:
                    k, _, v = tok.partition("=")
                    ob[k] = v
                self.obs.append(ob)
        self.threads = int(self.opts.get("threads", "0"))
        self.dir = os.path.join(BUILD, self.name)


def include_flags(unit):
    inc = ["-I" + os.path.join(VERIF, "harness"), "-I" + os.path.join(unit.dir, "inc"),
           "-I" + os.path.join(REPO, "libgalois", "include"), "-I" + os.path.join(REPO, "libsupport", "include")]
    for extra in shlex.split(unit.opts.get("include", "")):
        inc.append("-I" + os.path.join(REPO, extra))
    return inc


def build_unit(unit, log):
    """clang -> ir2c -> C, plus entries file. Returns (ok, message)."""
    shutil.rmtree(unit.dir, ignore_errors=True)
    os.makedirs(os.path.join(unit.dir, "inc", "galois"))
    shutil.copy(os.path.join(REPO, "libgalois", "include", "galois", "config.h.in"),
                os.path.join(unit.dir, "inc", "galois", "config.h"))
    cxx = shlex.split(unit.opts.get("cxxflags", ""))
    ll = os.path.join(unit.dir, unit.name + ".ll")
    flags = list(CLANG_FLAGS)
    if unit.opts.get("opt"):  # e.g. opt=-O0: source-level undefined behaviour (over-wide shifts ...) stays visible in the IR
        flags[flags.index("-O1")] = unit.opts["opt"]
    cmd = ["clang++-14"] + flags + cxx + include_flags(unit) + ["-S", "-emit-llvm", unit.path, "-o", ll]
    rc, out, dt = sh(cmd, timeout=600)
    log.write("$ %s\n%s\n" % (" ".join(cmd), out))
    if rc != 0:
        return False, "clang++ failed on %s:\n%s" % (unit.path, out[-3000:])
    cfile = os.path.join(unit.dir, unit.name + ".c")
    side = os.path.join(unit.dir, unit.name + ".json")
    cmd = [IR2C, ll, "-o", cfile, "--sidecar", side]
    if unit.threads:
        cmd += ["--nthreads", str(unit.threads)]
    if unit.opts.get("plain", "visible") == "invisible":
        cmd += ["--plain-invisible"]
    for vc in shlex.split(unit.opts.get("visible_calls", "")):
        cmd += ["--visible-call", vc]
    for ob in unit.obs:
        cmd += ["--root", ob["name"]]
    rc, out, dt = sh(cmd, timeout=600)
    log.write("$ %s\n%s\n" % (" ".join(cmd), out))
    if rc != 0:
        return False, "ir2c failed on %s: %s" % (unit.name, out[-3000:])
    unit.side = json.load(open(side))
    # every external must have a model
    have = set()
    for f in [os.path.join(RT, "vf_externs.h"), os.path.join(RT, "vf_stubs.h"), unit.path] + \
            glob.glob(os.path.join(VERIF, "harness", unit.name + "_stubs.h")):
        if os.path.exists(f):
            have |= set(re.findall(r"VF_HAVE_(\w+)", open(f).read()))
    missing = []
    for e in unit.side["externals"]:
        if e.startswith("@") or e.startswith("vf_") or e.startswith("llvm."):
            continue
        n = "x_" + re.sub(r"[^A-Za-z0-9_]", "_", e)
        if n not in have:
            missing.append(e)
    if missing:
        return False, "no model for external function(s): " + ", ".join(missing)
    with open(os.path.join(unit.dir, "entries.c"), "w") as f:
        f.write('#include "vf_rt.h"\n#ifdef VF_REAL\nvoid vf_global_ctors(void) {}\n#else\nvoid vf_global_ctors(void);\n#endif\n')
        f.write('#ifdef __CPROVER__\n#ifndef VF_P\n#define VF_P 0\n#endif\nstatic const uint32_t vf_params[] = {VF_P};\n'
                'uint32_t vf_param(uint32_t i) { return vf_params[i]; }\n#else\n#include <stdlib.h>\n'
                'uint32_t vf_param(uint32_t i) { const char* s = getenv("VF_P"); if (!s) return 0; '
                'while (i--) { while (*s && *s != \',\') ++s; if (*s) ++s; } return (uint32_t)strtoul(s, 0, 10); }\n#endif\n')
        for ob in unit.obs:
            f.write("void %s(void);\nvoid run_%s(void) { vf_global_ctors(); %s(); VF_REACH(); }\n" % (ob["name"], ob["name"], ob["name"]))
        f.write("#ifndef __CPROVER__\nstruct vf_entry { const char* name; void (*fn)(void); };\nstruct vf_entry vf_entry_table[] = {\n")
        for ob in unit.obs:
            f.write('  {"%s", run_%s},\n' % (ob["name"], ob["name"]))
        f.write("  {0, 0}};\n#endif\n")
    return True, ""


def rt_defs(unit):
    d = ["-DVF_MAXT=%d" % max(unit.threads, 1)]
    if unit.opts.get("hb", "0") == "1":
        d.append("-DVF_HB")
    for k in ("VF_MAXLOC", "VF_MAXPAY"):
        if k.lower() in unit.opts:
            d.append("-D%s=%s" % (k, unit.opts[k.lower()]))
    if unit.opts.get("spurious"):  # condition_variable::wait may return without a notification, N times per execution
        d.append("-DVF_CV_SPURIOUS=" + unit.opts["spurious"])
    if unit.opts.get("pause") == "nop":  # sequential unit whose code executes pause outside spin loops
        d.append("-DVF_PAUSE_NOP")
    stubs = os.path.join(VERIF, "harness", unit.name + "_stubs.h")
    if os.path.exists(stubs):
        d += ['-DVF_UNIT_STUBS="%s"' % stubs]
    return d


def build_native(unit, log, real, sanitize=False):
    """Native binary: translated C (gcc) or the real C++ TU (g++)."""
    exe = os.path.join(unit.dir, ("real" if real else "xlat") + ("_san" if sanitize else ""))
    san = ["-fsanitize=address,undefined", "-fno-sanitize-recover=undefined", "-g"] if sanitize else []
    objs = []
    common = ["-I" + RT, "-I" + os.path.join(VERIF, "harness")] + rt_defs(unit)
    for src, extra in ((os.path.join(RT, "vf_rt.c"), []), (os.path.join(unit.dir, "entries.c"), ["-DVF_REAL"] if real else [])):
        o = os.path.join(unit.dir, os.path.basename(src) + (".real" if real else ".xlat") + ("s" if sanitize else "") + ".o")
        rc, out, _ = sh(["gcc", "-O1", "-w", "-c", src, "-o", o] + common + extra + san, timeout=300)
        log.write(out)
        if rc != 0:
            return None, out
        objs.append(o)
    if real:
        o = os.path.join(unit.dir, "real" + ("s" if sanitize else "") + ".o")
        cmd = ["g++", "-std=c++17", "-O1", "-DNDEBUG", "-fno-access-control", "-DGALOIS_VERIF", "-w", "-fpermissive", "-c", unit.path, "-o", o] + \
            shlex.split(unit.opts.get("cxxflags", "")) + include_flags(unit) + san
        rc, out, _ = sh(cmd, timeout=900)
        log.write("$ %s\n%s\n" % (" ".join(cmd), out))
        if rc != 0:
            return None, out
        objs.append(o)
        link = ["g++"] + san + objs + ["-o", exe, "-lpthread"] + shlex.split(unit.opts.get("ldflags", ""))
    else:
        o = os.path.join(unit.dir, "xlat.o")
        cmd = ["gcc", "-O1", "-w", "-fno-strict-aliasing", "-c", os.path.join(unit.dir, unit.name + ".c"), "-o", o] + common + san
        rc, out, _ = sh(cmd, timeout=900)
        log.write("$ %s\n%s\n" % (" ".join(cmd), out))
        if rc != 0:
            return None, out
        objs.append(o)
        link = ["gcc"] + san + objs + ["-o", exe, "-lm"]
    rc, out, _ = sh(link, timeout=300)
    log.write("$ %s\n%s\n" % (" ".join(link), out))
    if rc != 0:
        return None, out
    return exe, ""


def validate_translator(unit, log, seed, nruns):
    """Serval-style: the translated C and the real C++ must behave identically on the same concrete inputs."""
    res = {"unit": unit.name, "vectors": 0, "status": "skipped"}
    if unit.opts.get("validate", "1") == "0":
        res["reason"] = unit.opts.get("validate_reason", "disabled for this unit")
        # link check only: CBMC silently treats a call to a function without a body as a no-op returning a
        # nondeterministic value; the native link of the translated C reports every such function
        xe, err = build_native(unit, log, real=False)
        if not xe:
            res.update(status="error", reason="translated C does not link natively (a called function has no body): " + err[-1500:])
        return res
    xe, err = build_native(unit, log, real=False)
    if not xe:
        res.update(status="error", reason="translated C does not compile natively: " + err[-1500:])
        return res
    if unit.threads:
        # no real-thread counterpart of the step machine: run the translated machine on random schedules (smoke only)
        bad = []
        for ob in unit.obs:
            rc, out, _ = sh([xe, ob["name"], "random", str(nruns), str(seed)], timeout=300)
            m = re.search(r"NATIVE-SUMMARY.*", out)
            if not m:
                bad.append(ob["name"] + ": no summary")
            res["vectors"] += nruns
        res.update(status="smoke" if not bad else "error", reason="; ".join(bad))
        return res
    re_, err = build_native(unit, log, real=True)
    if not re_:
        res.update(status="error", reason="real C++ TU does not build natively: " + err[-1500:])
        return res
    diffs = []
    import random
    rnd = random.Random(seed)
    for ob in unit.obs:
        combos = expand_params(ob)
        if combos != [None]:
            combos = rnd.sample(combos, min(len(combos), 6))
        for prm in combos:
            env = dict(os.environ)
            per = nruns if prm is None else max(20, nruns // 4)
            if prm is not None:
                env["VF_P"] = ",".join(str(x) for x in prm)
            a = sh([xe, ob["name"], "random", str(per), str(seed)], timeout=300, env=env)[1]
            b = sh([re_, ob["name"], "random", str(per), str(seed)], timeout=300, env=env)[1]
            ma, mb = re.search(r"NATIVE-SUMMARY.*", a), re.search(r"NATIVE-SUMMARY.*", b)
            res["vectors"] += per
            if not ma or not mb or ma.group(0) != mb.group(0):
                diffs.append("%s%s: translated [%s] vs real [%s]" % (ob["name"], prm or "", ma.group(0) if ma else a[-200:], mb.group(0) if mb else b[-200:]))
            else:
                ob["native"] = ma.group(0)
    if diffs:
        res.update(status="mismatch", reason="; ".join(diffs))
    else:
        res["status"] = "agree"
    return res


SOLVERS = {"default": [], "minisat": [], "cadical": ["--sat-solver", "cadical"], "kissat": ["--external-sat-solver", "kissat"],
           "z3": ["--z3"], "cvc5": ["--cvc5"]}


_LOOPS = {}


def loops_matching(unit, ob):
    key = (unit.name, ob["name"])
    if key not in _LOOPS:
        cmd = ["cbmc", "-I" + RT] + rt_defs(unit) + [os.path.join(unit.dir, unit.name + ".c"), os.path.join(unit.dir, "entries.c"),
                                                     os.path.join(RT, "vf_rt.c"), "--function", "run_" + ob["name"], "--show-loops"]
        rc, out, _ = sh(cmd, timeout=300)
        ids = re.findall(r"^Loop (\S+):", out, re.M)
        sel = []
        for spec in ob["unwindfn"].split(","):
            pat, _, n = spec.rpartition(":")
            sel += ["%s:%s" % (i, n) for i in ids if pat in i.rsplit(".", 1)[0]]
        _LOOPS[key] = sel
    return _LOOPS[key]


def cbmc_cmd(unit, ob, witness, params=None):
    cmd = ["cbmc", "-I" + RT] + rt_defs(unit)
    if params is not None:
        cmd.append("-DVF_P=" + ",".join(str(x) for x in params))
    if witness:
        cmd += ["-DWITNESS", "--no-standard-checks", "--no-unwinding-assertions"]
    cmd += [os.path.join(unit.dir, unit.name + ".c"), os.path.join(unit.dir, "entries.c"), os.path.join(RT, "vf_rt.c"),
            "--function", "run_" + ob["name"], "--unwind", ob["unwind"], "--no-malloc-may-fail", "--drop-unused-functions",
            "--object-bits", ob.get("object_bits", "12"), "--trace"]
    uws = []
    if ob.get("unwindset"):
        uws.append(ob["unwindset"])
    if ob.get("unwindfn"):  # unwindfn=pattern:N,... -> every loop of every function whose name contains the pattern
        uws += loops_matching(unit, ob)
    if uws:
        cmd += ["--unwindset", ",".join(uws)]
    cmd += SOLVERS[ob["solver"]]
    if not witness and (ob.get("checks") or unit.opts.get("checks")) == "min":
        # concurrent units: CBMC's per-dereference pointer checks multiply the formula (out of memory at 6-15 GB);
        # only the harness assertions, the deadlock/step-bound assertions and the unwinding assertions are kept
        cmd += ["--no-standard-checks", "--unwinding-assertions"]
    for extra in shlex.split(ob.get("cbmc", "")):
        cmd.append(extra)
    return cmd


def parse_cbmc(out):
    r = {"verdict": "error", "failed": [], "props": 0, "vars": None, "clauses": None, "solver_s": 0.0}
    for m in re.finditer(r"^\[([^\]]+)\] (?:line (\d+) )?(.*): (SUCCESS|FAILURE)$", out, re.M):
        r["props"] += 1
        if m.group(4) == "FAILURE":
            r["failed"].append({"id": m.group(1), "line": m.group(2), "desc": m.group(3)})
    m = re.search(r"(\d+) variables, (\d+) clauses", out)
    if m:
        r["vars"], r["clauses"] = int(m.group(1)), int(m.group(2))
    for m in re.finditer(r"Runtime Solver: ([0-9.e+-]+)s", out):
        r["solver_s"] += float(m.group(1))
    for m in re.finditer(r"Runtime decision procedure: ([0-9.e+-]+)s", out):
        r["solver_s"] = max(r["solver_s"], float(m.group(1)))
    if "VERIFICATION SUCCESSFUL" in out:
        r["verdict"] = "pass"
    elif "VERIFICATION FAILED" in out:
        r["verdict"] = "fail"
    elif "TIMEOUT" in out:
        r["verdict"] = "timeout"
    # traces: nondet values per failed property
    traces = {}
    for part in re.split(r"^Trace for ", out, flags=re.M)[1:]:
        pid = part.split(":", 1)[0].strip()
        traces[pid] = [int(x) for x in re.findall(r"^\s+vf_nd=(\d+)", part, re.M)]
    r["traces"] = traces
    return r


QUICK = [True]


def expand_params(ob):
    if not ob.get("params"):
        return [None]
    import itertools
    dims = [int(x) for x in ob["params"].split(",")]
    combos = list(itertools.product(*[range(d) for d in dims]))
    limit = ob.get("param_limit")
    if QUICK[0] and ob.get("quick_limit"):  # quick tier: a VERIF_SEED-dependent subset; the thorough tier runs all (or param_limit)
        limit = ob["quick_limit"] if not limit else str(min(int(limit), int(ob["quick_limit"])))
    if limit:
        import random
        rnd = random.Random(int(os.environ.get("VERIF_SEED", "1")))
        rnd.shuffle(combos)
        combos = combos[:int(limit)]
    return combos


def run_ob(unit, ob, memlimit_kb, params=None):
    t0 = time.time()
    pre = "ulimit -v %d; " % memlimit_kb
    tag = ob["name"] + ("" if params is None else "." + "_".join(str(x) for x in params))
    cmd = cbmc_cmd(unit, ob, False, params)
    rc, out, dt = sh(["bash", "-c", pre + "exec /usr/bin/time -f 'VFRSS %M' " + " ".join(shlex.quote(c) for c in cmd)], timeout=int(ob["timeout"]))
    res = parse_cbmc(out)
    if params is None or res["verdict"] != "pass":
        open(os.path.join(unit.dir, tag + ".cbmc.log"), "w").write(" ".join(cmd) + "\n" + out)
    m = re.search(r"VFRSS (\d+)", out)
    res["rss_mb"] = int(m.group(1)) // 1024 if m else None
    res["wall_s"] = round(dt, 2)
    if res["verdict"] == "error" and ("std::bad_alloc" in out or "Out of memory" in out or "out of memory" in out):
        res["verdict"] = "oom"
    res["cmd"] = " ".join(cmd)
    # witness twin
    res["params"] = params
    wcmd = cbmc_cmd(unit, ob, True, params)
    rc, wout, wdt = sh(["bash", "-c", pre + "exec " + " ".join(shlex.quote(c) for c in wcmd)], timeout=int(ob["timeout"]))
    if params is None:
        open(os.path.join(unit.dir, tag + ".witness.log"), "w").write(" ".join(wcmd) + "\n" + wout)
    w = parse_cbmc(wout)
    res["witness"] = "reachable" if any("WITNESS" in f["desc"] for f in w["failed"]) else ("unreachable" if w["verdict"] == "pass" else w["verdict"])
    res["witness_s"] = round(wdt, 2)
    res["total_s"] = round(time.time() - t0, 2)
    return res


def run_smt(unit, sm):
    """Integer back end (DESIGN 2.9): kernel -> SMT-LIB over Int, spec queries decided by z3 AND cvc5."""
    t0 = time.time()
    ll = os.path.join(unit.dir, unit.name + ".ll")
    defs = os.path.join(unit.dir, sm["name"] + ".defs.smt2")
    rc, out, _ = sh([IR2C, ll, "-o", defs, "--smt-int", sm["kernel"]], timeout=120)
    res = {"name": sm["name"], "kernel": sm["kernel"], "queries": [], "status": "error", "detail": out[-500:], "solvers": {}}
    if rc != 0:
        return res
    spec = open(os.path.join(VERIF, "harness", sm["spec"])).read()
    dtext = open(defs).read()
    nsides = int(re.search(r"; nsides (\d+)", dtext).group(1))
    # expand the side-obligation template: one query per side obligation
    m = re.search(r";;SIDE-TEMPLATE\n(.*?);;END-SIDE-TEMPLATE\n", spec, re.S)
    if m:
        block = "".join(m.group(1).replace("@I@", str(i)) for i in range(nsides))
        spec = spec[:m.start()] + block + spec[m.end():]
    script = "(set-logic ALL)\n" + dtext + spec
    path = os.path.join(unit.dir, sm["name"] + ".smt2")
    open(path, "w").write(script)
    expected = re.findall(r'\(echo "Q (\S+) (\S+)"\)', script)
    ok = True
    for solver, cmd in (("z3", ["z3", "-smt2", path]), ("cvc5", ["cvc5", "--incremental", path])):
        rc, out, dt = sh(cmd, timeout=int(sm["timeout"]))
        res["solvers"][solver] = {"wall_s": round(dt, 2)}
        if "(error" in out or "TIMEOUT" in out:
            res["detail"] = "%s: %s" % (solver, out[-400:])
            ok = False
            continue
        got = re.findall(r'^"?Q (\S+) (\w+)"?\n(sat|unsat|unknown)', out, re.M)
        if len(got) != len(expected):
            res["detail"] = "%s answered %d of %d queries: %s" % (solver, len(got), len(expected), out[-300:])
            ok = False
            continue
        for (nm, exp, ans) in got:
            res["queries"].append({"solver": solver, "query": nm, "expected": exp, "answer": ans})
            if exp != ans:
                ok = False
                res.setdefault("failed", []).append("%s: %s expected %s got %s" % (solver, nm, exp, ans))
    res["status"] = "pass" if ok else ("fail" if res.get("failed") else "error")
    res["nsides"] = nsides
    res["wall_s"] = round(time.time() - t0, 2)
    return res


def classify(desc):
    if desc.startswith("PROP: "):
        return "PROP"
    if desc.startswith("BOUND: ") or "unwinding assertion" in desc or "recursion unwinding" in desc:
        return "BOUND"
    return "MEMSAFETY"


def load_known():
    p = os.path.join(VERIF, "known_findings.json")
    if os.path.exists(p):
        return json.load(open(p)).get("findings", [])
    return []


def replay_native(unit, ob, values, log, sanitize=True, params=None):
    """Replay a counterexample: sequential -> the REAL C++ TU; concurrent -> the translated step machine."""
    real = unit.threads == 0 and unit.opts.get("validate", "1") != "0"
    exe, err = build_native(unit, log, real=real, sanitize=sanitize)
    if not exe:
        return {"target": "none", "outcome": "build-failed", "detail": err[-800:]}
    vf = os.path.join(unit.dir, ob["name"] + ".values")
    open(vf, "w").write("\n".join(str(v) for v in values) + "\n")
    env = dict(os.environ, ASAN_OPTIONS="detect_leaks=0:abort_on_error=0", UBSAN_OPTIONS="print_stacktrace=0")
    if params is not None:
        env["VF_P"] = ",".join(str(x) for x in params)
    rc, out, _ = sh([exe, ob["name"], "replay", vf], timeout=120, env=env)
    target = "real-c++-build" if real else "translated-step-machine" if unit.threads else "translated-c"
    if "NATIVE-FAIL" in out:
        return {"target": target, "outcome": "reproduced", "detail": re.search(r"NATIVE-FAIL.*", out).group(0)}
    if rc != 0 and rc != 11:
        return {"target": target, "outcome": "reproduced-crash", "detail": out[-600:]}
    if rc == 11:
        return {"target": target, "outcome": "rejected-by-assume", "detail": ""}
    return {"target": target, "outcome": "not-reproduced", "detail": out[-300:]}


def main(argv):
    import argparse
    ap = argparse.ArgumentParser()
    ap.add_argument("prop")
    ap.add_argument("--tier", default=os.environ.get("VERIF_TIER", "quick"))
    ap.add_argument("--only", default=None)
    ap.add_argument("--replay", default=None)
    ap.add_argument("--jobs", type=int, default=int(os.environ.get("VF_JOBS", "8")))
    ap.add_argument("--keep", action="store_true")
    ap.add_argument("--unit", default=None, help="only harness units whose name contains this string")
    ap.add_argument("--params", default=None, help="with --only: run a single parameter combination a,b,c")
    a = ap.parse_args(argv)
    pid = a.prop
    seed = int(os.environ.get("VERIF_SEED", "1"))
    t0 = time.time()
    os.makedirs(BUILD, exist_ok=True)
    if not os.path.exists(IR2C):
        subprocess.run(["make", "-C", os.path.join(VERIF, "tools")], check=True, stdout=subprocess.DEVNULL)
    units = [Unit(p) for p in sorted(glob.glob(os.path.join(VERIF, "harness", pid + "_*.cpp")))]
    if a.unit:
        units = [u for u in units if a.unit in u.name]
    if not units:
        print("ERROR no harness units for", pid)
        return 2
    log = open(os.path.join(BUILD, pid + ".log"), "w")

    if a.replay:
        rp = json.load(open(a.replay))
        unit = [u for u in units if u.name == rp["unit"]][0]
        ok, msg = build_unit(unit, log)
        if not ok:
            print("ERROR", msg)
            return 2
        ob = [o for o in unit.obs if o["name"] == rp["obligation"]][0]
        r = replay_native(unit, ob, rp["values"], log, params=rp.get("params"))
        print("REPLAY", json.dumps(r))
        if r["outcome"].startswith("reproduced"):
            print("VIOLATION property=%s replay=%s" % (pid, a.replay))
            return 1
        return 0

    tiers = ("quick",) if a.tier == "quick" else ("quick", "thorough")
    QUICK[0] = a.tier == "quick"
    errors, results, validations = [], [], []
    jobs = []
    for u in units:
        u.obs = [o for o in u.obs if o["tier"] in tiers and (not a.only or o["name"] in a.only.split(","))]
        if not u.obs and not [m for m in u.smts if m["tier"] in tiers and (not a.only or m["name"] in a.only.split(","))]:
            continue
        ok, msg = build_unit(u, log)
        if not ok:
            errors.append(msg)
            continue
        v = validate_translator(u, log, seed, int(u.opts.get("vectors", "200")))
        validations.append(v)
        if v["status"] in ("error", "mismatch"):
            errors.append("translator validation %s for unit %s: %s" % (v["status"], u.name, v.get("reason", "")))
            continue
        for ob in u.obs:
            jobs.append((u, ob))
    smt_results = []
    for u in units:
        if not hasattr(u, "side"):
            continue
        for sm in u.smts:
            if sm["tier"] in tiers and (not a.only or sm["name"] in a.only.split(",")):
                smt_results.append((u, sm, run_smt(u, sm)))
    memkb = int(os.environ.get("VF_MEM_GB", "6" if a.tier == "quick" else "16")) * 1024 * 1024
    # memory-aware admission: a query reserves its declared mem_gb (6 GB if none) out of VF_TOTAL_MEM_GB before it
    # starts, so that parallel heavy queries cannot push the machine into swap / the OOM killer
    import threading
    total_gb = int(os.environ.get("VF_TOTAL_MEM_GB", "48"))
    budget = {"free": total_gb}
    cond = threading.Condition()

    def admitted(u, ob, limkb, prm):
        need = min(int(ob.get("mem_gb", 0)) or 6, total_gb)
        with cond:
            while budget["free"] < need:
                cond.wait()
            budget["free"] -= need
        try:
            return run_ob(u, ob, limkb, prm)
        finally:
            with cond:
                budget["free"] += need
                cond.notify_all()

    with cf.ThreadPoolExecutor(max_workers=a.jobs) as ex:
        futs = {}
        # heavy queries first: they determine the wall time
        jobs.sort(key=lambda j: -(int(j[1].get("mem_gb", 0)) or 0))
        for u, ob in jobs:
            for prm in ([tuple(int(x) for x in a.params.split(","))] if a.params else expand_params(ob)):
                futs[ex.submit(admitted, u, ob, int(ob.get("mem_gb", 0)) * 1024 * 1024 or memkb, prm)] = (u, ob)
        for f in cf.as_completed(futs):
            u, ob = futs[f]
            r = f.result()
            r["unit"], r["ob"] = u, ob
            results.append(r)
    known = load_known()
    violations, known_hits, inconclusive = [], [], list(errors)
    samples = []
    discharged = 0
    nontrivial = 0
    queries = 0
    byob = {}
    for r in results:
        byob.setdefault((r["unit"].name, r["ob"]["name"]), []).append(r)
    for key in sorted(byob):
        rs = sorted(byob[key], key=lambda r: r["params"] or ())
        u, ob = rs[0]["unit"], rs[0]["ob"]
        queries += 2 * len(rs)
        npass = sum(1 for r in rs if r["verdict"] == "pass")
        nreach = sum(1 for r in rs if r["witness"] == "reachable")
        nontrivial += nreach
        entry = {"obligation": ob["name"], "unit": u.name, "harness": os.path.relpath(u.path, VERIF), "bounds": ob["bounds"],
                 "unwind": int(ob["unwind"]), "threads": u.threads, "solver": ob["solver"], "desc": ob["desc"],
                 "queries": len(rs), "passed": npass, "witness_reachable": nreach,
                 "cbmc_properties": sum(r["props"] for r in rs), "sat_vars_max": max((r["vars"] or 0) for r in rs),
                 "sat_clauses_max": max((r["clauses"] or 0) for r in rs), "solver_s": round(sum(r["solver_s"] for r in rs), 2),
                 "wall_s": round(sum(r["wall_s"] for r in rs), 2), "rss_mb_max": max((r["rss_mb"] or 0) for r in rs),
                 "functions_encoded": u.side["roots"].get(ob["name"], [])[:60], "native_validation": ob.get("native", "")}
        if ob.get("params"):
            entry["parameter_space"] = ob["params"] + (" (%d combinations run: VERIF_SEED-dependent subset)" % len(rs) if (ob.get("param_limit") or (QUICK[0] and ob.get("quick_limit"))) else " (all combinations)")
            entry["sub_samples"] = [{"params": list(r["params"]), "verdict": r["verdict"], "witness": r["witness"], "wall_s": r["wall_s"]} for r in rs[:4]]
        ob_ok = True
        for r in rs:
            ptag = ob["name"] + ("" if r["params"] is None else "[" + ",".join(str(x) for x in r["params"]) + "]")
            if r["verdict"] == "pass":
                if r["witness"] not in ("reachable", "unreachable"):
                    inconclusive.append("%s: witness twin %s" % (ptag, r["witness"]))
                    ob_ok = False
                elif r["witness"] == "unreachable" and not ob.get("params"):
                    inconclusive.append("%s: witness twin unreachable (vacuous or too small a bound)" % ptag)
                    ob_ok = False
            elif r["verdict"] == "fail":
                byclass = {}
                for fl in r["failed"]:
                    byclass.setdefault(classify(fl["desc"]), []).append(fl)
                if "BOUND" in byclass:
                    inconclusive.append("%s: bound too small: %s" % (ptag, byclass["BOUND"][0]["desc"]))
                    ob_ok = False
                real_fail = byclass.get("PROP", []) + byclass.get("MEMSAFETY", [])
                unknown = []
                for fl in real_fail:
                    k = [kf for kf in known if kf.get("status") == "known" and kf["property"] == pid
                         and kf.get("obligation") in (None, ob["name"]) and kf["match"] in fl["desc"]]
                    if k:
                        known_hits.append((k[0], fl))
                    else:
                        unknown.append(fl)
                if unknown:
                    ob_ok = False
                    if any(v[0] is ob for v in violations) and len([v for v in violations if v[0] is ob]) >= 2:
                        continue  # two replays per obligation are enough
                    fl = unknown[0]
                    vals = r["traces"].get(fl["id"], [])
                    rep = replay_native(u, ob, vals, log, params=r["params"])
                    os.makedirs(os.path.join(VERIF, "replays", pid), exist_ok=True)
                    rpath = os.path.join(VERIF, "replays", pid, ptag.replace("[", ".").replace("]", "").replace(",", "_") + ".json")
                    json.dump({"property": pid, "unit": u.name, "obligation": ob["name"], "params": r["params"], "values": vals,
                               "failed": [f["desc"] for f in unknown], "replay": rep, "cbmc_cmd": r["cmd"]}, open(rpath, "w"), indent=1)
                    entry.setdefault("failed", []).extend(f["desc"] for f in unknown)
                    entry["replay"] = rep
                    cls = classify(fl["desc"])
                    if rep["outcome"].startswith("reproduced") or cls == "MEMSAFETY" or u.threads:
                        violations.append((ob, fl, rpath, rep))
                    else:
                        inconclusive.append("%s: counterexample for '%s' did not replay natively (%s): encoding or stub suspect"
                                            % (ptag, fl["desc"], rep["outcome"]))
            else:
                inconclusive.append("%s: %s after %.0fs (rss %s MB)" % (ptag, r["verdict"], r["wall_s"], r["rss_mb"]))
                ob_ok = False
        if ob.get("params") and nreach == 0:
            inconclusive.append("%s: no parameter combination reaches the end of the harness (vacuous)" % ob["name"])
            ob_ok = False
        entry["verdict"] = "holds-within-bounds" if ob_ok else "not-discharged"
        if ob_ok:
            discharged += 1
        samples.append(entry)
    for u, sm, r in smt_results:
        queries += len(r["queries"])
        entry = {"obligation": sm["name"], "unit": u.name, "engine": "IR -> SMT-LIB over Int (ir2c --smt-int), z3 4.8.12 and cvc5 1.0 must agree",
                 "kernel": sm["kernel"], "bounds": sm["bounds"], "desc": sm["desc"], "queries": len(r["queries"]),
                 "side_obligations": r.get("nsides"), "solver_wall_s": r["solvers"], "verdict": "holds-within-bounds" if r["status"] == "pass" else "not-discharged",
                 "query_list": [q for q in r["queries"] if q["solver"] == "z3"][:12]}
        samples.append(entry)
        byob[(u.name, sm["name"])] = []
        if r["status"] == "pass":
            discharged += 1
            nontrivial += sum(1 for q in r["queries"] if q["expected"] == "sat" and q["answer"] == "sat" and q["solver"] == "z3")
        elif r["status"] == "fail":
            os.makedirs(os.path.join(VERIF, "replays", pid), exist_ok=True)
            rpath = os.path.join(VERIF, "replays", pid, sm["name"] + ".json")
            json.dump({"property": pid, "unit": u.name, "smt": sm["name"], "failed": r["failed"], "script": os.path.join(u.dir, sm["name"] + ".smt2")}, open(rpath, "w"), indent=1)
            violations.append(({"name": sm["name"]}, {"desc": "; ".join(r["failed"])}, rpath, {"outcome": "solver-model", "target": "smt-int"}))
        else:
            inconclusive.append("%s: %s" % (sm["name"], r["detail"]))
    # known-findings lines
    seen = set()
    for kf, fl in known_hits:
        key = kf["match"]
        if key in seen:
            continue
        seen.add(key)
        print("KNOWN-FINDING: property=%s %s" % (pid, kf["what"]))
    assumptions = ["bounded: every claim holds only within the per-obligation bounds listed in coverage.samples (unwind, sizes, threads, steps)",
                   "allocation never fails (--no-malloc-may-fail); 'fatal' paths (throw/abort) are assertions unless the harness declares them precondition violations",
                   "values follow sequentially consistent interleavings; only the ghost happens-before relation honours declared memory orders"]
    for u in units:
        for s in u.stubs:
            assumptions.append("%s: %s" % (u.name, s))
    ext = sorted({e for u in units if hasattr(u, "side") for e in u.side["externals"]})
    ev = {"property_id": pid, "tier": a.tier, "seed": seed, "level": "other",
          "coverage": {"explanation": "Bounded symbolic checking of the real code: each obligation is a CBMC query over C regenerated "
                       "(clang++-14 -O1 -> LLVM IR -> ir2c) from /repo's working tree; inputs, operation sequences and schedules are solver variables; "
                       "a pass means the assertions hold for every value within the stated bounds (unwinding assertions on); each obligation has a "
                       "witness twin whose final assert(0) must be reachable.",
                       "obligations": len(byob), "discharged": discharged, "evaluations": queries,
                       "distinct_nontrivial": nontrivial,
                       "rule": "one evaluation = one solver query (obligation or its witness twin); an obligation is non-trivial iff its witness twin "
                               "shows the end of the harness reachable under all assumptions",
                       "samples": samples, "checker_cmd": "./check %s --tier %s" % (pid, a.tier), "trusted_base": TRUSTED,
                       "translator_validation": validations, "external_models_used": ext, "inconclusive": inconclusive,
                       "known_findings_hit": [kf["what"] for kf, _ in known_hits]},
          "assumptions": assumptions, "wall_s": round(time.time() - t0, 1), "violations": len(violations)}
    os.makedirs(EVDIR, exist_ok=True)
    json.dump(ev, open(os.path.join(EVDIR, pid + ".json"), "w"), indent=1)
    for e in samples:
        print("%-40s %-20s queries=%-4d passed=%-4s reachable=%-4s cpu=%7.1fs rss<=%sMB" % (e["obligation"], e["verdict"], e["queries"], e.get("passed", "-"), e.get("witness_reachable", "-"), e.get("wall_s", 0), e.get("rss_mb_max", "-")))
    if not a.keep:
        for u in units:
            for f in glob.glob(os.path.join(u.dir, "*.o")) + glob.glob(os.path.join(u.dir, "real*")) + glob.glob(os.path.join(u.dir, "xlat*")):
                try:
                    os.remove(f)
                except OSError:
                    pass
    if violations:
        for ob, fl, rpath, rep in violations:
            print("violated: %s: %s [replay %s on %s]" % (ob["name"], fl["desc"], rep["outcome"], rep["target"]))
            print("VIOLATION property=%s replay=%s" % (pid, rpath))
        return 1
    if inconclusive:
        for m in inconclusive:
            print("ERROR inconclusive:", m)
        return 2
    if not byob:
        print("ERROR inconclusive: no obligation selected (property %s, tier %s, --only %s)" % (pid, a.tier, a.only))
        return 2
    print("OK property=%s tier=%s obligations=%d discharged=%d queries=%d wall=%.0fs" % (pid, a.tier, len(byob), discharged, queries, time.time() - t0))
    return 0


if __name__ == "__main__":
    sys.exit(main(sys.argv[1:]))
