#!/usr/bin/env python3
"""Regenerates /verif/MANIFEST.json from the table below (single source of truth for claims)."""
import glob
import json
import os

VERIF = os.path.dirname(os.path.dirname(os.path.abspath(__file__)))

TECH = "bounded symbolic execution of the real code: clang++-14 LLVM IR -> ir2c -> CBMC 6.11 (SAT: minisat/cadical/kissat), unwinding assertions on, witness twin per obligation"
TECH_CONC = TECH + "; threads by own sequentialisation (per-thread step machines, schedule = solver variable), ghost vector clocks for happens-before"
TECH_SMT = TECH + "; loop-free arithmetic kernels additionally as IR -> SMT-LIB over Int decided by z3 and cvc5"

NOTE_COMMON = ("Trusted base: clang 14 front end/-O1, ir2c translator (validated on every run by differential native execution against the real C++ TU), "
               "vf_rt environment models (malloc never fails; logging empty; listed per unit in the evidence), CBMC and its SAT back end. "
               "Every claim is 'holds for all values within the stated bounds' (sizes, operation counts, unwind depth listed per obligation in the evidence); nothing beyond the bounds is claimed. ")

CLAIMS = {
    "C13": dict(tech=TECH_SMT, ref="DESIGN.md section 3 C13",
                text="block_range is decided at FULL width (all 64-bit and 32-bit sizes below the stated overflow threshold) by the integer back end: adjacency of pieces id/id+1, first piece starts at b, last ends at e, containment; "
                     "prefix-sum node division (divideNodesBinarySearch with weights, scale factors, node/edge offsets), unit ranges from prefix sums and their corner cases are decided by CBMC for nodes<=5, parts<=4/5 with symbolic prefix sums, weights and division index.",
                note="Outside: prefix-sum vectors longer than 5, prefix values >= 2^10 in the quick tier, Range.h/FileGraph/OfflineGraph divideBy* wrappers and DistributedGraph block division (not yet encoded)."),
    "C14": dict(tech=TECH, ref="DESIGN.md section 3 C14",
                text="Each container is driven through operation sequences whose KINDS are enumerated as separate solver queries while element values and insertion positions are solver variables; after every operation the container is compared "
                     "(size, front/back, full forward and reverse traversal, results) with an array model kept by the harness; a Counted element type with a ghost live-instance map decides 'constructed and destroyed exactly once'; InsertBag<T,96> for element sizes 4/8/24/40 bytes and up to 6 insertions from two threads (every element enumerated once, intact, nothing written outside a block).",
                note="Bounds per container in the evidence (gdeque<T,2>: 3-element two-block prefix + all pairs of 11 operation kinds in the quick tier; all triples in the thorough tier). GALOIS_FORCE_STANDALONE routes the block allocator to malloc (the Galois heaps are C09)."),
    "C09": dict(tech=TECH, ref="DESIGN.md section 3 C09 and section 7",
                text="one-step contracts from an arbitrary valid pre-state (representation invariant assumed, checked to hold initially) for BumpHeap (both allocate overloads), BumpWithMallocHeap (+clear), BlockHeap, FreeListHeap/SelfLockFreeListHeap (alloc/free histories), AddHeader, Pow_2 size classes (all sizes <= 65536; the block of class k is usable for the whole class size) and the real PerBackend::allocOffset/deallocOffset (every 3-operation history + split-path histories): results non-null, aligned, inside the block, large enough, disjoint from everything live.",
                note="Source heap scaled to AllocSize=128 bytes (the 2 MB page is only a capacity); PerThreadStorage over 1024 bytes; page pool, NUMA placement, OwnerTaggedHeap (does not compile), SizedHeapFactory map lookup and all multi-thread histories are outside."),
    "C12": dict(tech=TECH, ref="DESIGN.md section 3 C12 and section 7",
                text="binary format only: symbolic graphs (nodes 0..3, edges 0..3, edge data 0/4/8 bytes, versions 1 and 2, odd and even edge counts) built by the real FileGraph::fromArrays / FileGraphWriter, written through the real toFile/write path into an in-memory file model, re-read by FileGraph::fromFile/fromMem and enumerated: same nodes, edges, data; every section stays inside the block sized by rawBlockSize (CBMC bounds checks); sub-range views; Endian.h.",
                note="mmap/open/write/fstat are modelled by a one-file in-memory file system (unit stubs). NOT covered (not applicable to this technique, see DESIGN): graph-convert / graph-remap / dist-graph-convert text parsers and transforming conversions (iostream main() programs), partFromFile (out of memory), OCFileGraph/OfflineGraph/BufferedGraph readers."),
    "C15": dict(tech=TECH, ref="DESIGN.md section 3 C15 and section 7",
                text="Reducible family (sum/max/min/logical/user merge, += and -=, int32/uint64/double, reset, second reduce) over the real PerThreadStorage with 1..4 modelled threads and a symbolic assignment of updates to threads; atomicMin/Max/Add/Subtract and plain variants; DynamicBitSet set/reset/test/count and reset(begin,end) for every begin<=end with word-boundary masks against a per-bit model; sequential union-find.",
                note="Updates of a Reducible are thread-local, so the assignment of updates to threads (not their interleaving) is the quantifier; thread pool and page allocator are harness fakes (C15_env.h). Concurrent set/atomic/union-find interleavings, InsertBag, PerThreadContainer, DReducible (MPI), floating-point addition order are outside."),
    "C17": dict(tech=TECH, ref="DESIGN.md section 3 C17 and section 7",
                text="serialisation only: gDeserialize(gSerialize(x)) == x, read offset ends exactly at the buffer size, at every buffer alignment (pad 0..7 selects both branches of gDeserializeLinearSeq) for scalars, pairs, tuples (read side), PODResizeableArray, vectors of trivially and non-trivially copyable elements, custom-serialisable structs, gdeque, DynamicBitSet, nested buffers, concatenations, strings.",
                note="Known finding (not repaired, listed in known_findings.json): std::string with an embedded NUL. NOT covered (not applicable to this technique): MPI transport, communication thread, multi-sender interleavings, host barriers (FFI / I/O; libdist is not built in the baseline); std::deque serialisation does not compile."),
    "C18": dict(tech=TECH, ref="DESIGN.md section 3 C18 and section 7",
                text="fragment: the per-field reduction algebra. Every sync-structure macro family of SyncStructures.h (add, min, max, set, arrays, pair-wise add/avg, edges, bitvector status) instantiated on a harness NodeData and driven by an abstract sync (extract at written mirrors, reduce at master in symbolic order, reset, broadcast) over <=3 proxies: master = reduction of its old value and exactly the written contributions, all proxies agree, a second sync without writes changes nothing; get_data_mode selection arithmetic.",
                note="The Gluon orchestration itself (GluonSubstrate.h: which halves a partition policy may skip, wire encode/decode, asynchronous mode, MPI) cannot be encoded and is not claimed."),
    "C19": dict(tech=TECH, ref="DESIGN.md section 3 C19 and section 7",
                text="fragment: partition policy kernels. ReadMasterAssignment::retrieveMaster over a symbolic contiguous gid2host partition (every gid exactly one master < H, H<=4); getEdgeOwner of NoCommunication, GenericHVC, GenericCVC, GenericCVCColumnFlip (owner < H, grid row/column as documented); factorizeHosts (rows*cols == H, H<=16).",
                note="The partitioner itself (NewGeneric.h / DistributedGraph.h: edges shipped over MPI, CSR construction from files, id maps, mirror lists) cannot be encoded and is not claimed; sqrt is a table of correctly rounded values for 0..16."),
    "C11": dict(tech=TECH, ref="DESIGN.md section 3 C11 and section 7",
                text="symbolic input graphs (every out-index shape with <=3 nodes and <=3 edges in the quick tier, 4 edges in the thorough tier; destinations, edge data and lookup keys symbolic; self loops, parallel edges, isolated and trailing edge-less nodes included) are built through the real FileGraph and handed to the real graph constructors on one modelled thread: LC_CSR_Graph (three construction paths), LC_CSR_CSC_Graph, LC_InOut_Graph, LC_Linear_Graph, LC_InlineEdge_Graph enumerate exactly the input in file order; transpose, sortAllEdgesByDst, sortEdgesByEdgeData, findEdge, findEdgeSortedByDst (incl. no access outside [0,numEdges)), local node ranges; the same enumeration after construction by TWO threads run one after the other in either order (CSR, InlineEdge, Linear); the edge-sort proxy protocol (swap/iter_swap, value read/write, reference assignment move (destination,data) pairs).",
                note="The out-index is enumerated (56 shapes), not symbolic; do_all/on_each run their body once on thread 0 (Loops.h cut); LargeArray/mmap are zero-filled malloc blocks (page size scaled to 128 bytes for the layouts that round). Interleaved multi-thread construction, sorts of more than 4 edges as a whole (only the proxy protocol), LC_Morph_Graph, LC_Adaptor_Graph, LC_CSR_Hypergraph, in-edge sorting are outside."),
    "C01": dict(tech=TECH, ref="DESIGN.md section 3 C01 and section 7",
                text="compositional, one modelled worker: work conservation (pop returns only what was pushed and not yet popped, nothing stranded after flush/drain, nothing twice) for ChunkFIFO/LIFO, PerSocketChunkFIFO/LIFO/Bag, PerThreadChunkFIFO/LIFO (incl. steal attempts on an idle peer, and a victim/thief pair whose whole operations alternate: stealAllAndPop across sockets, stealHalfAndPop within a socket, more than one chunk prepended), GFIFO/GLIFO/FIFO/LIFO over the real gdeque/std::deque, LocalQueue, OwnerComputes, StableIterator, BulkSynchronous, OBIM (BSP / barrier) on operation sequences with symbolic payloads; AbortHandler forwarding policies over a SYMBOLIC topology (8 threads, <=4 sockets, symbolic activeThreads/tid/retries): exactly one queue receives the item, its index < activeThreads; one iteration of the real ForEachExecutor (commit, voluntary abort, conflict via the real setjmp/longjmp path, retry from the abort queue, no-conflict mode): on commit exactly the pushes become work, on abort the worklist is unchanged, the abort queue holds the item, the push buffer is empty, no lockable is owned.",
                note="PtrLock is replaced by a two-field model (same interface, lock discipline checked) in the one-worker units because CBMC cannot fold a pointer through (uintptr_t)p|1; OBIM bucket index is constant per operation kind; the set-up part of ForEachExecutor::go() (which hooks it installs: the fast push-back hook) is NOT covered - the pieces are driven with the hooks the unchanged go() installs (a seeded change there is not detected, DESIGN.md 7.6); multi-worker interleavings of the executor, the deterministic executor (C07) and loop exit (C04) are outside."),
    "C07": dict(tech=TECH, ref="DESIGN.md section 3 C07 and section 7",
                text="fragment: the mechanism that makes the commit set a function of ids - DeterministicContextBase<Options,false,false>::alwaysAcquire (lowest id wins, loser is disabled) over the real Lockable / PtrLock::stealing_CAS: for 3 iterations with symbolic distinct ids and symbolic mark subsets over 2 lockables, in every enumerated ORDER of the marks, the owner of each lockable is the smallest-id iteration that marked it and an iteration is ready iff it has the smallest id on every lockable it marked.",
                note="Marking operations are atomic here (orders, not intra-operation interleavings); id assignment and merge of new work (NewWorkManager), DAG mode, intent-to-read, local state, deterministic break, window arithmetic and the end-to-end 'bit-identical across thread counts' statement are outside and not claimed."),
    "C08": dict(tech=TECH, ref="DESIGN.md section 3 C08 and section 7",
                text="fragment, one modelled worker: BulkSynchronous over ChunkFIFO - every popped item belongs to the oldest round that still has queued work, conservation (programs of up to 4 rounds); OBIM with the barrier option, ascending and descending - pop does not leave a non-empty level, otherwise takes the most urgent queued level, monotone programs pop level-sorted, empty() exactly when nothing is queued; back-scan prevention post-condition after every push (scanStart <= i and <= curIndex) with and without barrier; level alignment in empty() with TWO threads' proposals (the caller ends on the most urgent proposed level in the comparator's order).",
                note="Interleaved two-or-more-worker behaviour around the level switch (the leader/non-leader asymmetry; in the alignment obligation the second thread's proposal is written as its empty() writes it), AdaptiveObim and aborts combined with these schedulers are outside; PtrLock model as in C01."),
    "C16": dict(tech=TECH, ref="DESIGN.md section 3 C16 and section 7",
                text="with the guarded hook shrinking the serial cut-off and block size to 1-3: dual_partition (two ranges of <=3 symbolic booleans), partition_helper_state step contracts, partition_helper for one worker (and two workers run in sequence) followed by the tail of partition() on arrays of <=7 symbolic predicate bits (valid partition point, permutation, no access outside the range), one sort_helper step with an arbitrary pivot, progress of the sort (for every input range some pivot draw shrinks every pushed sub-range), count_if / accumulate / map_reduce / find_if / partial_sum (incl. empty trailing blocks) / destroy end to end on <=6 elements with 1..3 modelled threads.",
                note="Hook: GALOIS_PSTL_CUTOFF / GALOIS_PSTL_BLOCK (MANIFEST.hooks). End-to-end sort() (std::sort over solver-dependent bounds did not finish), interleaved partition helpers, and the real ForEach/do_all executors (harness stand-ins, listed in the evidence) are outside."),
    "C03": dict(tech=TECH_CONC, ref="DESIGN.md section 3 C03 and section 7",
                text="sequential step contracts of the stealing do_all ThreadContext (getWork / stealWork HALF and FULL / assignWork / transferWork from an arbitrary consistent pre-state, chunk size symbolic 1..4096, counting and pointer iterators): returned piece and remainder are disjoint and cover the old range; the real ThreadPool::cascade() wake-up tree for every num<=16 wakes each thread 1..num-1 exactly once with wbegin<=wend; the two halves of a parallel region as step machines under a solver-chosen schedule (fork: master writes, cascade(); worker wait() in fast mode and in the mutex/condition-variable mode; join: decascade() of the master and of 1-2 workers): a woken thread sees its mailbox range, the master leaves decascade() only after every thread it woke has finished, no deadlock.",
                note="The per-thread pieces of Range.h are C13. The interleaved stealing executor, a whole region in one obligation (out of memory, tier=attic), runDedicated and on_each over the real pool are outside."),
    "C05": dict(tech=TECH_CONC, ref="DESIGN.md section 3 C05 and section 7",
                text="the real wait() bodies of CountingBarrier, MCSBarrier, DisseminationBarrier, TopoBarrier (over the real per-thread/per-socket storage, topologies {0,0} and {0,1}; T=3 with 5 topologies in the thorough tier) and SimpleBarrier (mutex/condition-variable contract models, one phase) (state built by the real constructors/reinit) run as step machines under a solver-chosen schedule: no thread returns from its k-th wait before every participant entered it, every thread returns (deadlock probe + step-bound assertion), reuse over 2-3 phases, reinit to a different participant count between regions, T=1; the bookkeeping of internal::BarrierInstance::get (the object behind getBarrier) over four symbolic requests: the barrier handed out is initialised for exactly min(n, usable threads).",
                note="T=2 in the quick tier; thorough: T=3 for Counting, MCS and Topo (DisseminationBarrier with T=3 runs out of memory and is NOT covered) and the plain-accesses-visible twins for Counting and MCS with T=2; SC values only. PthreadBarrier (a libc object) is not encoded."),
    "C06": dict(tech=TECH_CONC, ref="DESIGN.md section 3 C06 and section 7",
                text="SimpleLock lock()/try_lock()/unlock() under all schedules of T=2 x 2 acquisitions (T=3 did not finish in 90 min and is not run): at most one holder, every requester admitted, no deadlock; the release->acquire edge is a happens-before edge for a plain payload under ghost vector clocks that honour the memory orders found in the IR (weakening unlock() to relaxed is reported); an asymmetric 1+3 acquisition run (a slow-path waiter that loses a compare-exchange meets a re-acquired lock); entry to and return from a parallel region (fastRelease / done flags, unit C06_forkjoin = C03_join): data written by the master before the region is visible to the woken thread, data written by a worker in the region is visible to the master after decascade(), under the memory orders in the code.",
                note="PtrLock, PaddedLock, ThreadRWlock and the remaining promised edges (lockable hand-over is checked in C02; barrier arrival->departure and worklist push->pop are checked for values under SC only, not with clocks) are not encoded; starvation freedom is not decidable by a bounded check."),
    "C02": dict(tech=TECH_CONC, ref="DESIGN.md section 3 C02 and section 7",
                text="ownership protocol over the real Context.cpp / PtrLock (tryAcquire, acquire, signalConflict via the longjmp model, commitIteration, cancelIteration) for 2 contexts and 2 lockables over every sequence of three WHOLE operations (acquire with symbolic target/flag, commit, cancel; operations alternate, they do not interleave): never two owners (ghost owner stamps), ALREADY_OWNER only for the true owner, commit/abort frees everything, nothing left owned, hand-over of object data is happens-before; flag semantics (UNPROTECTED/PREVIOUS never touch the owner word).",
                note="The serial-equivalence conclusion for cautious operators is the textbook consequence and is argued, not mechanised; interleavings INSIDE tryAcquire/release (out of memory at 16 GB, tier=attic) are not covered; executor-level discard of pushes/allocations on abort belongs to C01's executor obligation."),
    "C04": dict(tech=TECH_CONC, ref="DESIGN.md section 3 C04 and section 7",
                text="the real ring detector (LocalTerminationDetection) inside the loop skeleton of ForEachExecutor::go() with an abstract work ledger: termination is never observed while the pool holds work, a thread holds work or has unreported work (all schedules, T=2 with 2 report rounds per thread; thorough: T=3, and T=2 with 4+3 report rounds - the shortest histories in which the detector can announce at all); once everybody is idle a bounded number of round-robin idle reports announces termination; re-arming with a different thread count.",
                note="<=3 work units; SC values; TreeTerminationDetection is NOT covered (out of memory at 15 GB, tier=attic); fairness-based liveness is outside."),
}

NOT_YET = "check not built yet in this round (planned in DESIGN.md section 3); no claim is made"
NA = {
    "C10": "not applicable within reach: measured on the real MorphGraph (directed flavour, concrete operation kinds, 2-3 nodes, unwind 10): three mutations with a walk after each ran out of memory at 6 GB after 300 s; a single addMultiEdge plus two walks reached 14.4 GB after 137 s (small_vector / filter_iterator / InsertBag loops never get constant trip counts). DESIGN.md section 3 C10 fixed this fall-back in advance; no other technique is substituted (harness kept in harness/attic/C10_morph.cpp)",
    "C20": "whole main() programs (LLVM cl::opt parsing, file input, full runtime, printing): no entry point can be executed symbolically within any useful bound; bounded symbolic checking does not apply and no other technique is substituted",
}


def main():
    props = [json.loads(l) for l in open(os.path.join(VERIF, "properties.jsonl"))]
    checks, na = [], []
    for p in props:
        pid = p["id"]
        has_units = bool(glob.glob(os.path.join(VERIF, "harness", pid + "_*.cpp")))
        if pid in CLAIMS and has_units:
            c = CLAIMS[pid]
            checks.append({
                "property_id": pid,
                "quick_cmd": "./check %s --tier quick" % pid,
                "thorough_cmd": "./check %s --tier thorough" % pid,
                "evidence_file": "evidence/%s.json" % pid,
                "replay_cmd_template": "./check %s --replay {path}" % pid,
                "engine": "ir2c+cbmc",
                "level_claimed": {"category": "other", "text": "Bounded symbolic checking of the real code (not a proof, not sampling): " + c["text"], "design_ref": c["ref"]},
                "level_note": NOTE_COMMON + c["note"],
                "technique": c["tech"],
            })
        else:
            na.append({"property_id": pid, "reason": NA.get(pid, NOT_YET)})
    m = {
        "version": 1,
        "setup_cmd": "make -C /verif/tools",
        "hooks": {
            "guard": "GALOIS_VERIF",
            "enable": "harness translation units are compiled with -DGALOIS_VERIF against the real headers/sources of /repo's working tree (no rebuild of /repo/_build is needed by the checks)",
            "baseline_off_cmd": "cmake --build /repo/_build -j16 -- -k 0; ctest --test-dir /repo/_build -j8 --timeout 900",
            "source_commits": ["05b73d7 verif hook: make the serial cut-off and block size of ParallelSTL overridable under GALOIS_VERIF"],
            "add_only": False,
        },
        "engines": [{"name": "ir2c+cbmc", "path": "tools/ir2c, lib/vfdriver.py, rt/", "serves_properties": [c["property_id"] for c in checks],
                     "kind_free_text": "LLVM-IR-to-C translator + CBMC bounded model checker + IR-to-SMT-LIB(Int) emitter; own thread sequentialisation"}],
        "checks": checks,
        "not_applicable": na,
        "notes": "Exit codes of ./check: 0 held within bounds (KNOWN-FINDING lines possible), 1 VIOLATION (replayed natively first), 2 ERROR/inconclusive (timeout, OOM, translator refusal, vacuous witness).",
    }
    json.dump(m, open(os.path.join(VERIF, "MANIFEST.json"), "w"), indent=1)
    print("claimed:", [c["property_id"] for c in checks], "n/a:", [n["property_id"] for n in na])


if __name__ == "__main__":
    main()
