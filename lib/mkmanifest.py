#!/usr/bin/env python3
"""Regenerates /verif/MANIFEST.json from the table below (single source of truth for claims)."""
import glob
import json
import os

VERIF = os.path.dirname(os.path.dirname(os.path.abspath(__file__)))

TECH = "bounded symbolic execution of the real code: clang++-14 LLVM IR -> ir2c -> CBMC 6.11 (SAT: minisat/cadical/kissat), unwinding assertions on, witness twin per obligation"
TECH_CONC = TECH + "; threads by own sequentialisation (per-thread step machines, schedule = solver variable), ghost vector clocks for happens-before"
TECH_SMT = TECH + "; loop-free arithmetic kernels additionally as IR -> SMT-LIB over Int decided by z3 and cvc5"

NOTE_COMMON = ("Trusted base: clang 14 front end/-O1, ir2c translator (validated on every run by differential native execution against the real C++ TU), "
               "vf_rt environment models (malloc never fails; logging empty; listed per unit in the evidence), CBMC and its SAT back end. "
               "Every claim is 'holds for all values within the stated bounds' (sizes, operation counts, unwind depth listed per obligation in the evidence); nothing beyond the bounds is claimed. ")

CLAIMS = {
    "C13": dict(tech=TECH_SMT, ref="DESIGN.md section 3 C13",
                text="block_range is decided at FULL width (all 64-bit and 32-bit sizes below the stated overflow threshold) by the integer back end: adjacency of pieces id/id+1, first piece starts at b, last ends at e, containment; "
                     "prefix-sum node division (divideNodesBinarySearch with weights, scale factors, node/edge offsets), unit ranges from prefix sums and their corner cases are decided by CBMC for nodes<=5, parts<=4/5 with symbolic prefix sums, weights and division index.",
                note="Outside: prefix-sum vectors longer than 5, prefix values >= 2^10 in the quick tier, Range.h/FileGraph/OfflineGraph divideBy* wrappers and DistributedGraph block division (not yet encoded)."),
    "C14": dict(tech=TECH, ref="DESIGN.md section 3 C14",
                text="Each container is driven through operation sequences whose KINDS are enumerated as separate solver queries while element values and insertion positions are solver variables; after every operation the container is compared "
                     "(size, front/back, full forward and reverse traversal, results) with an array model kept by the harness; a Counted element type with a ghost live-instance map decides 'constructed and destroyed exactly once'.",
                note="Bounds per container in the evidence (gdeque<T,2>: 3-element two-block prefix + all pairs of 11 operation kinds in the quick tier; all triples in the thorough tier). GALOIS_FORCE_STANDALONE routes the block allocator to malloc (the Galois heaps are C09)."),
}

NOT_YET = "check not built yet in this round (planned in DESIGN.md section 3); no claim is made"
NA = {
    "C20": "whole main() programs (LLVM cl::opt parsing, file input, full runtime, printing): no entry point can be executed symbolically within any useful bound; bounded symbolic checking does not apply and no other technique is substituted",
}


def main():
    props = [json.loads(l) for l in open(os.path.join(VERIF, "properties.jsonl"))]
    checks, na = [], []
    for p in props:
        pid = p["id"]
        has_units = bool(glob.glob(os.path.join(VERIF, "harness", pid + "_*.cpp")))
        if pid in CLAIMS and has_units:
            c = CLAIMS[pid]
            checks.append({
                "property_id": pid,
                "quick_cmd": "./check %s --tier quick" % pid,
                "thorough_cmd": "./check %s --tier thorough" % pid,
                "evidence_file": "evidence/%s.json" % pid,
                "replay_cmd_template": "./check %s --replay {path}" % pid,
                "engine": "ir2c+cbmc",
                "level_claimed": {"category": "other", "text": "Bounded symbolic checking of the real code (not a proof, not sampling): " + c["text"], "design_ref": c["ref"]},
                "level_note": NOTE_COMMON + c["note"],
                "technique": c["tech"],
            })
        else:
            na.append({"property_id": pid, "reason": NA.get(pid, NOT_YET)})
    m = {
        "version": 1,
        "setup_cmd": "make -C /verif/tools",
        "hooks": {
            "guard": "GALOIS_VERIF",
            "enable": "harness translation units are compiled with -DGALOIS_VERIF against the real headers/sources of /repo's working tree (no rebuild of /repo/_build is needed by the checks)",
            "baseline_off_cmd": "cmake --build /repo/_build -j16 && ctest --test-dir /repo/_build -j8 --timeout 900",
            "source_commits": [],
            "add_only": True,
        },
        "engines": [{"name": "ir2c+cbmc", "path": "tools/ir2c, lib/vfdriver.py, rt/", "serves_properties": [c["property_id"] for c in checks],
                     "kind_free_text": "LLVM-IR-to-C translator + CBMC bounded model checker + IR-to-SMT-LIB(Int) emitter; own thread sequentialisation"}],
        "checks": checks,
        "not_applicable": na,
        "notes": "Exit codes of ./check: 0 held within bounds (KNOWN-FINDING lines possible), 1 VIOLATION (replayed natively first), 2 ERROR/inconclusive (timeout, OOM, translator refusal, vacuous witness).",
    }
    json.dump(m, open(os.path.join(VERIF, "MANIFEST.json"), "w"), indent=1)
    print("claimed:", [c["property_id"] for c in checks], "n/a:", [n["property_id"] for n in na])


if __name__ == "__main__":
    main()
