#!/bin/bash
# usage: lib/seedrun.sh <patch.diff> <property> [extra ./check args...]
# Applies the patch to a scratch worktree of /repo (never to /repo itself), runs the check against it via VF_REPO
# (own build and evidence directories, so several can run side by side and the committed evidence is untouched),
# prints the verdict lines and removes the worktree.
set -u
patch=$1; prop=$2; shift 2
wt=/tmp/mut_$$
git -C /repo worktree add -q --detach $wt HEAD || exit 9
if ! git -C $wt apply "$patch"; then echo "PATCH DOES NOT APPLY"; git -C /repo worktree remove --force $wt; exit 9; fi
cd /verif
VF_REPO=$wt VF_BUILD=${wt}_build VF_EVIDENCE=${wt}_build/evidence ./check $prop "$@" > /tmp/seedrun_$$.out 2>&1
rc=$?
grep -E "^(violated|VIOLATION|ERROR|OK|KNOWN)" /tmp/seedrun_$$.out | cut -c1-260 | head -12
echo "exit=$rc"
git -C /repo worktree remove --force $wt
rm -rf /tmp/seedrun_$$.out ${wt}_build
exit $rc
